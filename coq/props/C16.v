(* C16 — Client disconnects affect handlers exactly as the task mode promises.
   Statements only; each closed by [exact] of a lemma proved in
   theories/TaskModeProofs.v.  They quantify over every trace the task-mode
   model (theories/TaskMode.v) accepts: any number of requests, interleaved in
   any way, clients disconnecting at any point, both modes.  PARTIAL: that the
   live server's executions are among these traces is checked on sampled
   executions only (coq/run/Run_C16.v, harness/src/bin/c16.rs). *)
From DS Require Import Base TaskMode TaskModeProofs.

(* --- "In detached mode a handler that has started always runs to completion
       exactly once, whenever the client disconnects." --- *)

(* never cancelled, in any reachable state *)
Theorem C16_detached_never_cancelled : forall t st q,
  run Detached init t = Some st -> rh (lookup st q) <> Cancelled.
Proof. exact detached_never_cancelled. Qed.

(* a running detached handler can always take its [Finish] step, whatever the
   client did: a trace that leaves it running is not maximal *)
Theorem C16_detached_progress : forall st q k,
  rh (lookup st q) = Running k -> exists st', step Detached st (Finish q) = Some st'.
Proof. exact detached_progress. Qed.

(* so in every maximal trace (no handler of q left running) a started handler
   has ended exactly once, by returning or by panicking *)
Theorem C16_detached_runs_once : forall t st q,
  run Detached init t = Some st -> In (Start q) t ->
  is_running (rh (lookup st q)) = false ->
  count (Finish q) t + count (Panic q) t = 1.
Proof. exact detached_runs_once. Qed.

(* --- "In cancel-on-disconnect mode, when a client that has sent its complete
       request disconnects while its handler is still running, that handler is
       cancelled and makes no further progress" --- *)

(* hyper dropping the service future of a running handler is its cancellation *)
Theorem C16_cancel_detect_cancels : forall st st' q k,
  rh (lookup st q) = Running k -> step CancelOnDisconnect st (Detect q) = Some st' ->
  rh (lookup st' q) = Cancelled.
Proof. exact cancel_detect_cancels. Qed.

(* after it, the handler of q is never polled again *)
Theorem C16_cancel_stops : forall t1 t2 st q e,
  run CancelOnDisconnect init (t1 ++ Detect q :: t2) = Some st ->
  ev_req e = q ->
  match e with Start _ | Tick _ | Finish _ | Panic _ => True | _ => False end ->
  ~ In e t2.
Proof. exact cancel_stops. Qed.

(* --- "while handlers of clients that stay connected complete and their
       responses are delivered" (both modes) --- *)

Theorem C16_connected_never_cancelled : forall m t st q,
  run m init t = Some st -> ~ In (Disconnect q) t ->
  rh (lookup st q) <> Cancelled /\ rdet (lookup st q) = false /\
  (rr (lookup st q) = Dropped -> rh (lookup st q) = Panicked).
Proof. exact connected_never_cancelled. Qed.

Theorem C16_connected_progress : forall m t st q k,
  run m init t = Some st -> ~ In (Disconnect q) t -> rh (lookup st q) = Running k ->
  exists st', step m st (Finish q) = Some st'.
Proof. exact connected_progress. Qed.

Theorem C16_connected_clients_served : forall m t st q,
  run m init t = Some st -> ~ In (Disconnect q) t -> In (Finish q) t ->
  rq_quiescent (lookup st q) = true -> In (Deliver q) t.
Proof. exact connected_clients_served. Qed.

Theorem C16_deliver_once : forall m t st q,
  run m init t = Some st -> count (Deliver q) t <= 1 /\
  (In (Deliver q) t -> rh (lookup st q) = Completed /\ In (Finish q) t).
Proof. exact deliver_once. Qed.

(* --- "in every case a started handler ends exactly one way, completed or
       cancelled" (or panicked) --- *)

Theorem C16_exactly_one_end : forall m t st q,
  run m init t = Some st -> In (Start q) t ->
  (exists k, rh (lookup st q) = Running k /\ count (Tick q) t = k /\
             count (Finish q) t = 0 /\ count (Panic q) t = 0) \/
  (rh (lookup st q) = Completed /\ count (Finish q) t = 1 /\ count (Panic q) t = 0) \/
  (rh (lookup st q) = Cancelled /\ count (Finish q) t = 0 /\ count (Panic q) t = 0 /\
   m = CancelOnDisconnect /\ In (Detect q) t) \/
  (rh (lookup st q) = Panicked /\ count (Finish q) t = 0 /\ count (Panic q) t = 1).
Proof. exact exactly_one_end. Qed.

Theorem C16_at_most_one_end : forall m t st q,
  run m init t = Some st -> count (Finish q) t + count (Panic q) t <= 1.
Proof. exact at_most_one_end. Qed.

Theorem C16_start_at_most_once : forall m t st q,
  run m init t = Some st -> count (Start q) t <= 1.
Proof. exact start_at_most_once. Qed.

(* terminal states are absorbing: whatever happens afterwards, to this or any
   other request *)
Theorem C16_terminal_absorbing : forall m q t st st',
  run m st t = Some st' -> terminal (rh (lookup st q)) = true ->
  rh (lookup st' q) = rh (lookup st q).
Proof. exact terminal_absorbing. Qed.

(* --- "A panic inside a handler fails only its own request and the server
       keeps serving others." --- *)

Theorem C16_panic_is_local : forall m st st' q q',
  step m st (Panic q) = Some st' -> q' <> q -> lookup st' q' = lookup st q'.
Proof. exact panic_is_local. Qed.

Theorem C16_panic_keeps_others_enabled : forall m st st' q e,
  step m st (Panic q) = Some st' -> ev_req e <> q ->
  (step m st' e = None <-> step m st e = None).
Proof. exact panic_keeps_others_enabled. Qed.

(* every step concerns one request only *)
Theorem C16_step_frame : forall m st e st' q,
  step m st e = Some st' -> q <> ev_req e -> lookup st' q = lookup st q.
Proof. exact step_frame. Qed.

(* --- the tie to observed executions: the labels an observed trace is read as
       (with the unobservable [Detect] steps placed) form an accepted trace, so
       all of the above applies to it --- *)
Theorem C16_observed_is_accepted : forall m os st ls,
  replay_obs m os = Some (st, ls) -> run m init ls = Some st /\ accepts m ls = true.
Proof. exact replay_obs_sound. Qed.

(* ---- non-vacuity: accepted, non-trivial traces ---- *)

(* cancel-on-disconnect: request 1's client leaves while its handler ticks,
   the handler is cancelled; request 2 stays, completes and is answered;
   request 3 panics; request 4 leaves while its response is being written *)
Example C16_ex_cancel :
  let t := [Start 1; Start 2; Tick 1; Tick 2; Disconnect 1; Tick 1; Start 3; Detect 1;
            Tick 2; Panic 3; Finish 2; Start 4; Deliver 2; Finish 4; Disconnect 4; Detect 4] in
  match run CancelOnDisconnect init t with
  | Some st => map (fun q => (rh (lookup st q), rr (lookup st q))) [1; 2; 3; 4; 5]
  | None => []
  end = [(Cancelled, Dropped); (Completed, Delivered); (Panicked, Dropped);
         (Completed, Dropped); (NotStarted, Unsent)].
Proof. vm_compute. reflexivity. Qed.

(* the same client behaviour in detached mode: the handler of 1 keeps ticking
   after hyper has dropped the waiter, and completes *)
Example C16_ex_detached :
  let t := [Start 1; Start 2; Tick 1; Disconnect 1; Tick 1; Detect 1; Tick 1; Tick 2;
            Finish 1; Finish 2; Deliver 2] in
  match run Detached init t with
  | Some st => map (fun q => (rh (lookup st q), rr (lookup st q))) [1; 2]
  | None => []
  end = [(Completed, Dropped); (Completed, Delivered)].
Proof. vm_compute. reflexivity. Qed.

(* and what the model refuses: progress after the cancellation; a second end;
   a response without a completed handler *)
Example C16_ex_rejected :
  accepts CancelOnDisconnect [Start 1; Disconnect 1; Detect 1; Tick 1] = false /\
  accepts CancelOnDisconnect [Start 1; Disconnect 1; Detect 1; Finish 1] = false /\
  accepts Detached [Start 1; Finish 1; Finish 1] = false /\
  accepts Detached [Start 1; Panic 1; Finish 1] = false /\
  accepts Detached [Start 1; Deliver 1] = false /\
  accepts Detached [Start 1; Disconnect 1; Detect 1; Finish 1; Deliver 1] = false /\
  accepts Detached [Start 1; Disconnect 1; Detect 1; Tick 1; Finish 1] = true.
Proof. vm_compute. repeat split. Qed.

(* an observed trace, read by the model *)
Example C16_ex_observed :
  option_map snd (replay_obs CancelOnDisconnect
     [OStart 1; OStart 2; OTick 1; ODisconnect 1; OTick 1; ODropped 1; OFinish 2; ODeliver 2 true;
      OStart 3; ODisconnect 3; OFinish 3])
  = Some [Start 1; Start 2; Tick 1; Disconnect 1; Tick 1; Detect 1; Finish 2; Deliver 2;
          Start 3; Disconnect 3; Finish 3; Detect 3].
Proof. vm_compute. reflexivity. Qed.

Print Assumptions C16_detached_never_cancelled.
Print Assumptions C16_detached_progress.
Print Assumptions C16_detached_runs_once.
Print Assumptions C16_cancel_detect_cancels.
Print Assumptions C16_cancel_stops.
Print Assumptions C16_connected_never_cancelled.
Print Assumptions C16_connected_progress.
Print Assumptions C16_connected_clients_served.
Print Assumptions C16_deliver_once.
Print Assumptions C16_exactly_one_end.
Print Assumptions C16_at_most_one_end.
Print Assumptions C16_start_at_most_once.
Print Assumptions C16_terminal_absorbing.
Print Assumptions C16_panic_is_local.
Print Assumptions C16_panic_keeps_others_enabled.
Print Assumptions C16_step_frame.
Print Assumptions C16_observed_is_accepted.
