(* C06 — The OpenAPI document for version v lists exactly what is served at v.
   Statements only (lemmas in theories/OpenApiGenProofs.v).  [doc_ops r v] is
   the list of operations gen_openapi emits for version v: the version-filtered
   pre-order walk of the trie (HttpRouterIter) after the visibility filter;
   [undoc t] is the template as the document shows it (a wildcard appears as
   {name}). *)
From DS Require Import Base Versions VersionsProofs Router RouterSpec RouterProofs OpenApiGen OpenApiGenProofs OpenApiOrder RefClosure.
From Coq Require Import Permutation.

Section C06.
  Variable V : Type.
  Variable cmp : V -> V -> comparison.
  Variable bot : V.
  Hypothesis TO : total_order V cmp bot.

  (* 1. one operation — under its method, path template and endpoint — for
     each published endpoint whose version range contains v, and nothing else *)
  Theorem C06_doc_exact : forall (eps : list (decl V)) r v t' m e,
    build V cmp eps = Ok r ->
    (In (t', m, e) (doc_ops V cmp r v) <->
     exists t, In (t, e) eps /\ e_visible e = true /\
               vmatches V cmp (e_versions e) (Some v) = true /\
               t' = undoc t /\ m = str_upper (e_method e)).
  Proof. exact (doc_ops_exact V cmp). Qed.

  (* ... exactly one: no two operations share a path template and method *)
  Theorem C06_doc_unique : forall (eps : list (decl V)) r v t' m e1 e2,
    build V cmp eps = Ok r ->
    (forall d, In d eps -> wf_range V cmp (e_versions (snd d))) ->
    In (t', m, e1) (doc_ops V cmp r v) -> In (t', m, e2) (doc_ops V cmp r v) -> e1 = e2.
  Proof. exact (doc_ops_unique V cmp bot TO). Qed.

  (* 2. unpublished endpoints are omitted yet still served *)
  Theorem C06_unpublished_omitted_yet_served : forall (eps : list (decl V)) r v t e,
    build V cmp eps = Ok r -> version_ok V cmp eps (Some v) ->
    In (t, e) eps -> e_visible e = false ->
    vmatches V cmp (e_versions e) (Some v) = true ->
    (forall t' m, ~ In (t', m, e) (doc_ops V cmp r v)) /\
    exists vars, lookup V cmp r (e_method e) (witness_segs t) (Some v) = Found e vars.
  Proof. exact (unpublished_omitted_yet_served V cmp bot TO). Qed.

  (* 3. the operations do not depend on the order of registration *)
  Theorem C06_doc_order_irrelevant : forall (eps eps' : list (decl V)) r r' v x,
    Permutation eps eps' -> build V cmp eps = Ok r -> build V cmp eps' = Ok r' ->
    (In x (doc_ops V cmp r v) <-> In x (doc_ops V cmp r' v)).
  Proof. exact (doc_ops_order_irrelevant V cmp). Qed.

  (* ... nor does their order: the walk of the trie is strictly sorted (own
     handlers before children, children and methods by key, at most one handler
     per method at a version), so the LIST of operations is the same whatever
     order the endpoints were registered in *)
  Theorem C06_doc_list_order_irrelevant : forall (eps eps' : list (decl V)) r r' v,
    Permutation eps eps' -> build V cmp eps = Ok r -> build V cmp eps' = Ok r' ->
    (forall d, In d eps -> wf_range V cmp (e_versions (snd d))) ->
    doc_ops V cmp r v = doc_ops V cmp r' v.
  Proof. exact (doc_ops_list_order_irrelevant V cmp bot TO). Qed.

  (* 4. what the document shows at v is what the router serves at v *)
  Theorem C06_documented_is_served : forall (eps : list (decl V)) r v t' m e,
    build V cmp eps = Ok r -> version_ok V cmp eps (Some v) ->
    In (t', m, e) (doc_ops V cmp r v) ->
    exists t vars, t' = undoc t /\ In (t, e) eps /\
                   lookup V cmp r (e_method e) (witness_segs t) (Some v) = Found e vars.
  Proof. exact (documented_is_served V cmp bot TO). Qed.
End C06.

(* 5. references resolve inside the document: the definitions gathered for a
   parameter / header / error schema (ReferenceVisitor: RefClosure.v) contain
   every reference of the schema itself, are closed under references — every
   name a gathered definition mentions is gathered too — contain only what is
   reachable, and the only failure is a reference to a name the generator
   does not define *)
Theorem C06_dependencies_closed : forall d roots out,
  dependencies d roots = Ok out ->
  incl roots out /\
  (forall n rs m, In n out -> refs_of d n = Some rs -> In m rs -> In m out) /\
  (forall n, In n out -> reach d roots n) /\
  (forall n, In n out -> refs_of d n <> None).
Proof. exact dependencies_closed. Qed.

Theorem C06_invalid_reference_only_if_undefined : forall d roots n,
  dependencies d roots = Err (CE_invalid_ref n) -> reach d roots n /\ refs_of d n = None.
Proof. exact dependencies_invalid_ref. Qed.

(* non-vacuity *)
Definition ex_ep (id m : str) (r : vrange N) (vis : bool) : endpoint N := mkEp id m r 0 None vis.
Definition ex_table : list (decl N) :=
  [ ([PLit [97]; PVar [120]], ex_ep [49] GETm (VUntil 2) true);
    ([PLit [97]; PVar [120]], ex_ep [50] GETm (VFrom 2) false);
    ([PLit [102]; PWild [112]], ex_ep [51] PUTm VAll true) ].
Example C06_nonvacuous :
  match build N N.compare ex_table with
  | Ok r =>
      map (fun x => (doc_path (fst (fst x)), snd (fst x), e_id (snd x))) (doc_ops N N.compare r 1)
      = [([47;97;47;123;120;125], GETm, [49]); ([47;102;47;123;112;125], PUTm, [51])] /\
      map (fun x => e_id (snd x)) (doc_ops N N.compare r 3) = [[51]]
  | Err _ => False
  end.
Proof. vm_compute. split; reflexivity. Qed.

Print Assumptions C06_doc_exact.
Print Assumptions C06_doc_unique.
Print Assumptions C06_unpublished_omitted_yet_served.
Print Assumptions C06_doc_order_irrelevant.
Print Assumptions C06_doc_list_order_irrelevant.
Print Assumptions C06_documented_is_served.
Print Assumptions C06_dependencies_closed.
Print Assumptions C06_invalid_reference_only_if_undefined.

(* 6. the top-level tag array (DocTags.v): strictly increasing in byte order —
   no name twice, one possible arrangement — with exactly the configured names
   and the tags of the endpoints whose range contains v (published or not: the
   visibility filter of gen_openapi comes after the tags are gathered); so it
   depends neither on the order of registration nor on the iteration order of
   the hash containers it is gathered in *)
From DS Require Import DocTags DocTagsProofs.
From Coq Require Import Sorted.

Theorem C06_tags_sorted : forall V cmp tags_of cfg (r : node V) v,
  StronglySorted str_lt (doc_tags V cmp tags_of cfg r v).
Proof. exact doc_tags_sorted. Qed.

Theorem C06_tags_exact : forall V cmp tags_of (eps : list (decl V)) r cfg v t,
  build V cmp eps = Ok r ->
  (In t (doc_tags V cmp tags_of cfg r v) <->
   In t cfg \/ exists tpl e, In (tpl, e) eps /\ vmatches V cmp (e_versions e) (Some v) = true /\ In t (tags_of e)).
Proof. exact doc_tags_exact. Qed.

Theorem C06_tags_order_irrelevant : forall V cmp tags_of (eps eps' : list (decl V)) r r' cfg v,
  Permutation eps eps' -> build V cmp eps = Ok r -> build V cmp eps' = Ok r' ->
  doc_tags V cmp tags_of cfg r v = doc_tags V cmp tags_of cfg r' v.
Proof. exact doc_tags_order_irrelevant. Qed.

Theorem C06_tags_cfg_order_irrelevant : forall V cmp tags_of (r : node V) cfg cfg' v,
  Permutation cfg cfg' -> doc_tags V cmp tags_of cfg r v = doc_tags V cmp tags_of cfg' r v.
Proof. exact doc_tags_cfg_order_irrelevant. Qed.
(* 7. from the walk to the document's [paths] map (OpenApiSlots.v): gen_openapi
   inserts each operation under (path string, method), a later one for an
   occupied slot replacing the earlier.  For templates registration can produce
   (what parse_template yields: [clean]) rendering a template as a path string
   is injective and the walk is strictly sorted, so no slot is ever occupied
   twice: the document holds exactly one operation per item of [doc_ops], in
   that order — every published endpoint served at v keeps its own slot, none is
   lost to a replacement. *)
From DS Require Import OpenApiSlots.

Theorem C06_parsed_templates_are_clean : forall path t, parse_template path = Ok t -> clean t.
Proof. exact parse_template_clean. Qed.

Theorem C06_path_rendering_injective : forall t1 t2, clean t1 -> clean t2 ->
  doc_path (undoc t1) = doc_path (undoc t2) -> undoc t1 = undoc t2.
Proof. exact doc_path_inj. Qed.

Theorem C06_one_slot_per_operation : forall V cmp bot, total_order V cmp bot ->
  forall (eps : list (decl V)) r v,
  build V cmp eps = Ok r ->
  (forall d, In d eps -> wf_range V cmp (e_versions (snd d))) ->
  (forall d, In d eps -> clean (fst d)) ->
  (forall x, In x (doc_ops V cmp r v) -> openapi_method (snd (fst x)) = true) ->
  doc V cmp r v = DocOk (map (slot_of V) (doc_ops V cmp r v)).
Proof. exact doc_slots_exact. Qed.

Theorem C06_every_served_endpoint_has_its_slot : forall V cmp bot, total_order V cmp bot ->
  forall (eps : list (decl V)) r v t e,
  build V cmp eps = Ok r ->
  (forall d, In d eps -> wf_range V cmp (e_versions (snd d))) ->
  (forall d, In d eps -> clean (fst d)) ->
  (forall x, In x (doc_ops V cmp r v) -> openapi_method (snd (fst x)) = true) ->
  In (t, e) eps -> e_visible e = true -> vmatches V cmp (e_versions e) (Some v) = true ->
  exists slots, doc V cmp r v = DocOk slots /\
                In ((doc_path (undoc t), str_upper (e_method e)), e) slots /\
                length slots = length (doc_ops V cmp r v).
Proof. exact doc_slot_of_each. Qed.

(* non-vacuity for the tag array: tags that differ only in letter case, a
   configured name that an endpoint also uses, a tag carried only by an
   unpublished endpoint (listed all the same: see the statement) and one carried
   only by an endpoint not served at the version *)
Definition ex_tags (e : endpoint N) : list str :=
  if str_eqb (e_id e) [49] then [[100]; [68]; [100]]        (* "d" "D" "d" *)
  else if str_eqb (e_id e) [50] then [[122]]                 (* "z": unpublished, from version 2 *)
  else [[99]; [100; 105]].                                   (* "c" (configured) "di" *)
Example C06_tags_nonvacuous :
  match build N N.compare ex_table, build N N.compare (rev ex_table) with
  | Ok r, Ok r' =>
      doc_tags N N.compare ex_tags [[99]; [98]] r 1 = [[68]; [98]; [99]; [100]; [100; 105]] /\
      doc_tags N N.compare ex_tags [[99]; [98]] r 3 = [[98]; [99]; [100; 105]; [122]] /\
      doc_tags N N.compare ex_tags [[98]; [99]] r' 3 = doc_tags N N.compare ex_tags [[99]; [98]] r 3
  | _, _ => False
  end.
Proof. vm_compute. repeat split. Qed.

Print Assumptions C06_parsed_templates_are_clean.
Print Assumptions C06_path_rendering_injective.
Print Assumptions C06_one_slot_per_operation.
Print Assumptions C06_every_served_endpoint_has_its_slot.
Print Assumptions C06_tags_sorted.
Print Assumptions C06_tags_exact.
Print Assumptions C06_tags_order_irrelevant.
Print Assumptions C06_tags_cfg_order_irrelevant.
