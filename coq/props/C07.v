(* C07 — The OpenAPI document tells the truth about requests and responses.
   Statements only; proofs are in DS.ParamsProofs / DS.DocTruthProofs.

   Model.  Params.v: a universe [pspec] of parameter structs (scalar leaves:
   String, bool, char, the integer widths, unit enums; plain, Option or
   #[serde(default)]; renamed; doc-commented; #[serde(flatten)] of a nested
   struct) with two views of one specification:
     [schema_view]  what schemars' derive emits for the struct (transcribed
                    from schemars 0.8.22 and confirmed by experiment),
     [serde_view]   what serde's derive accepts (an Extract.spec, the model of
                    C09/C10, plus the behaviour of serde's flatten buffer);
   dropshot's own steps are transcribed arm by arm: [schema2struct]
   (schema_util.rs), [doc_params] (extractor/metadata.rs get_metadata +
   api_description.rs gen_openapi), [j2oas] (C08's converter).
   DocTruth.v: what gen_openapi writes for each response type, the
   hand-written error schema, the request body content types.

   WHAT IS ASSUMED: that the two views describe the same Rust type - i.e. that
   schemars' derive and serde's derive agree with their transcriptions here
   for the types of the universe (library behaviour; sampled on every run by
   the correspondence harness, which builds requests from the real document
   and sends them to the real server).  WHAT IS PROVED: everything dropshot
   does in between - flattening, the required computation, the description
   extraction, the conversion of each member schema, the content types, the
   status table, the error schema. *)
From Coq Require Import String.
From DS Require Import Base Json Schema J2Oas SchemaSem Utf8 Pct Scalars Query QueryProofs
     Extract ExtractProofs Params ParamsProofs Response Errors DocTruth DocTruthProofs.
From DS Require J2OasSpec.
Open Scope N_scope.

(* ---- clause 1 (parameters): the document lists each field of the struct
   exactly once, at its location, with the schema of its type, its doc
   comment, and required = true exactly for the fields serde requires ---- *)

Theorem C07_documented_params_exact : forall loc title fs,
  names_ok fs ->
  exists ps, doc_params loc title fs = Ok ps /\
    names_distinct (map dp_name ps) = true /\
    (forall l, In l (leaves fs) -> In (leaf_param loc l) ps) /\
    (forall p, In p ps -> exists l, In l (leaves fs) /\ p = leaf_param loc l).
Proof. exact documented_params_exact. Qed.

Theorem C07_required_iff_serde_requires : forall loc title fs ps,
  names_ok fs -> doc_params loc title fs = Ok ps ->
  forall p, In p ps ->
    (dp_required p = true <-> exists t, In (dp_name p, KScalar t PReq) (serde_view fs)).
Proof. exact documented_required_iff. Qed.

(* the schema view is what the invariant says: a sorted property map holding
   exactly the leaves, a required set holding exactly the plain ones - for any
   nesting of flattened structs *)
Theorem C07_flattening_merges_every_leaf : forall fs, view_inv (struct_view fs) (leaves fs).
Proof. exact struct_view_leaves. Qed.

(* schema2struct on a struct's schema: one member per property, required =
   required && object.required.contains(name), description extracted *)
Theorem C07_schema2struct_of_struct : forall defs title fs n,
  schema2struct (S n) defs (schema_view title fs) true
  = Ok (map (member_of_prop (sv_req (struct_view fs))) (sv_props (struct_view fs))).
Proof. exact s2s_schema_view. Qed.

(* the member schema that is published: the scalar's schema, nullable for an
   Option, a bare reference for a named enum (whatever its presence) *)
Theorem C07_member_schema_published : forall t p,
  schema_extract_description (field_schema t p None) = (None, member_schema t p) /\
  j2oas None (member_schema t p) = Ok (member_oschema t p).
Proof. exact (fun t p => conj (sed_field t p None) (j2oas_member t p)). Qed.

(* ---- clause 1 (accepted): a value valid for a parameter's documented
   schema is a text the server's scalar parser accepts ... ---- *)

Theorem C07_doc_value_parses : forall env t p j w,
  wf_st t = true -> env_ok env t ->
  valid_oas env pat_doc fmt_doc (member_oschema t p) j = true ->
  is_null j = false -> wire_of_json j = Some w -> utf8_valid w = true ->
  exists v, parse_scalar (st_ty t) w = Some v.
Proof. exact doc_value_parses. Qed.

(* ... where references to enums are read through the document's own
   components *)
Theorem C07_components_interpret_enums : forall fs comps fuel,
  wf_pspec fs = true ->
  (forall k s o, assoc k (defs_view fs) = Some s -> j2oas None s = Ok o -> assoc k comps = Some o) ->
  forall l, In l (leaves fs) ->
    env_ok (J2OasSpec.env_oas pat_doc fmt_doc (S fuel) comps) (lf_ty l).
Proof. exact components_env_ok. Qed.

(* ... so a query carrying every parameter the document marks required and any
   of the others, each with a documented-valid value, in any legal encoding
   and order, is accepted: the extractor succeeds, the handler is entered.
   Excluded: the class of finding K7a ([flat_bad]) and 128-bit integers
   (finding K9a of C09). *)
Theorem C07_doc_request_accepted_query : forall title fs ps env entries e,
  wf_pspec fs = true -> flat_bad fs = [] -> no_128 fs = true ->
  doc_params LQuery title fs = Ok ps ->
  (forall l, In l (leaves fs) -> env_ok env (lf_ty l)) ->
  names_distinct (map fst entries) = true -> Forall kv_valid entries -> query_enc entries e ->
  (forall p, In p ps -> dp_required p = true -> has_key (dp_name p) entries = true) ->
  (forall k w, In (k, w) entries -> sends_valid env ps k w) ->
  exists vals, extract_query_p fs (Some e) = Ok vals /\
               entered (handle (extract_query_p fs (Some e))) = true.
Proof. exact doc_request_accepted_query. Qed.

Theorem C07_doc_request_accepted_path : forall title fs ps env entries,
  wf_pspec fs = true -> flat_bad fs = [] ->
  doc_params LPath title fs = Ok ps ->
  (forall l, In l (leaves fs) -> env_ok env (lf_ty l)) ->
  names_distinct (map fst entries) = true ->
  (forall p, In p ps -> has_key (dp_name p) entries = true) ->
  (forall k w, In (k, w) entries -> sends_valid env ps k w /\ deliverable w) ->
  let ws := map (fun kv => (fst kv, WOne (pct_encode (snd kv)))) entries in
  exists vals, extract_path_p fs ws = Ok vals /\ entered (handle (extract_path_p fs ws)) = true.
Proof. exact doc_request_accepted_path. Qed.

(* the full statement (no exclusion of flattened integer / bool leaves), kept
   visible; the faithful model refutes it: finding K7a *)
Definition C07_doc_request_accepted_full_statement : Prop := doc_request_accepted_full_statement.

Theorem C07_K7a_refuted : ~ C07_doc_request_accepted_full_statement.
Proof. exact doc_request_accepted_refuted. Qed.

Theorem C07_K7a_every_value_refused : forall fs q k w,
  In (k, w) (form_parse q) -> In k (flat_bad fs) ->
  exists e, extract_query_p fs (Some q) = Err e /\ xerr_status e = Some 400 /\
            entered (handle (extract_query_p fs (Some q))) = false.
Proof. exact flat_bad_always_refused. Qed.

(* the request body: a request carrying the documented content type passes
   the content-type check of a typed body (what remains is the size cap and
   the parse, i.e. the body's validity) *)
Theorem C07_doc_body_ctype_accepted : forall (V : Type) (json_de : str -> option V) c sp cap frames e,
  c = CtJson \/ c = CtForm ->
  extract_typed_body json_de c sp (HVal (doc_body_ctype (BxTyped c))) cap frames = Err e ->
  e = XBodyTooLarge \/ e = XJson \/ exists m, e = XForm m.
Proof. exact doc_body_ctype_accepted. Qed.

(* ---- clause 1 (refused): omitting a parameter the document marks required
   is answered with a 400 and no handler runs - whatever else is sent ---- *)

Theorem C07_missing_required_refused : forall title fs ps q p,
  wf_pspec fs = true -> doc_params LQuery title fs = Ok ps ->
  In p ps -> dp_required p = true -> assoc (dp_name p) (form_parse q) = None ->
  exists e, extract_query_p fs (Some q) = Err e /\ xerr_status e = Some 400 /\
            entered (handle (extract_query_p fs (Some q))) = false.
Proof. exact missing_required_refused. Qed.

(* ---- clause 2: every successful response has the status the document lists
   and a content type it lists; an empty-bodied kind documents no content ---- *)

Theorem C07_success_status_documented :
  forall (V : Type) (json_ser : V -> option str) (c : coded V) r,
  to_result_coded V json_ser c = Ok r ->
  let d := doc_response (ckind_of c) (bkind_of c) in
  body_kind_ok (ckind_of c) (bkind_of c) = true /\
  r_status r = rd_code d /\ content_fits (rd_content d) r = true.
Proof. exact success_status_documented. Qed.

Theorem C07_empty_iff_no_content :
  forall (V : Type) (json_ser : V -> option str) (c : coded V) r,
  to_result_coded V json_ser c = Ok r ->
  (rd_content (doc_response (ckind_of c) (bkind_of c)) = DcNone <-> r_body r = BEmpty).
Proof. exact empty_iff_no_content. Qed.

Theorem C07_headers_status_documented :
  forall (V : Type) (json_ser : V -> option str) (h : hresp V) r,
  to_result_headers V json_ser h = Ok r ->
  let d := doc_response (ckind_of (hr_body h)) (bkind_of (hr_body h)) in
  r_status r = rd_code d /\ (rd_content d = DcNone <-> r_body r = BEmpty).
Proof. exact headers_status_documented. Qed.

(* the body's validity against the documented schema is C08 (the published
   schema means what the type's own schema means) composed with the
   schemars/serde agreement.  The one site where dropshot itself decides: a
   body type Option<T> with T referenceable reaches the converter as
   {$ref, nullable: true}; the published schema keeps the marker, so the body
   of None, null, is valid, and any other body is valid exactly when it is
   valid for T's component (finding K7b, repaired in /repo by 16fe29f: the bare
   reference used to be published) *)
Theorem C07_optional_ref_published : forall name r,
  j2oas name (option_ref_schema r) = Ok (option_ref_oschema r).
Proof. exact option_ref_published. Qed.

Theorem C07_optional_ref_body_valid : forall env pat_ok fmt_ok name r o,
  j2oas name (option_ref_schema r) = Ok o ->
  valid_oas env pat_ok fmt_ok o JNull = true /\
  forall j, is_null j = false -> valid_oas env pat_ok fmt_ok o j = env r j.
Proof. exact option_ref_accepts. Qed.

(* ---- clause 3: framework error bodies are valid against the documented
   error schema, for every error, every request id, every interpretation of
   references, patterns and formats ---- *)

Theorem C07_error_schema_published : error_oschema = Ok error_oschema_term.
Proof. exact error_oschema_eq. Qed.

Theorem C07_framework_error_body_valid : forall env pat_ok fmt_ok id code msg,
  valid_oas env pat_ok fmt_ok error_oschema_term (err_body_json id code msg) = true /\
  valid_js env pat_ok fmt_ok error_schema (err_body_json id code msg) = true.
Proof. exact framework_error_body_valid. Qed.

Theorem C07_into_response_body_valid : forall env pat_ok fmt_ok e id r,
  into_response e id = Ok r ->
  exists j, body_json (r_body r) = Some j /\
            valid_oas env pat_ok fmt_ok error_oschema_term j = true /\
            error_documented (r_status r) = (is_client_error (e_status e) || is_server_error (e_status e)).
Proof. exact into_response_body_valid. Qed.

(* ---- non-vacuity: the hypotheses are satisfiable and the model computes ---- *)

(* struct Q { x: i64, #[serde(flatten)] inner: { s: String, o: Option<char> }, #[serde(default)] d: u8 } *)
Definition ex_spec : pspec :=
  [FLeaf (bs "x") (mkSt (TInt true 64) None) PReq None;
   FFlat [FLeaf (bs "s") (mkSt TStr None) PReq (Some (bs "doc")); FLeaf (bs "o") (mkSt TChar None) POpt None];
   FLeaf (bs "d") (mkSt (TInt false 8) None) (PDef (VInt 0)) None].

Example C07_ex_wf : wf_pspec ex_spec = true /\ flat_bad ex_spec = [] /\ no_128 ex_spec = true.
Proof. vm_compute. repeat split. Qed.

Example C07_ex_doc_params :
  option_map (map (fun p => (dp_name p, dp_required p, dp_description p)))
             (match doc_params LQuery (bs "Q") ex_spec with Ok ps => Some ps | Err _ => None end)
  = Some [(bs "d", false, None); (bs "o", false, None); (bs "s", true, Some (bs "doc")); (bs "x", true, None)].
Proof. vm_compute. reflexivity. Qed.

(* x=-5&s=a+b accepted; without s refused with 400 *)
Example C07_ex_requests :
  is_ok (extract_query_p ex_spec (Some (bs "x=-5&s=a+b"))) = true /\
  extract_query_p ex_spec (Some (bs "x=-5")) = Err (XBadQuery (MMissing (bs "s"))).
Proof. vm_compute. split; reflexivity. Qed.

(* 300 is not valid for {integer, uint8, minimum 0}; 255 is *)
Example C07_ex_format_bounds :
  valid_oas (fun _ _ => false) pat_doc fmt_doc (member_oschema (mkSt (TInt false 8) None) PReq) (JNum (NInt 300)) = false /\
  valid_oas (fun _ _ => false) pat_doc fmt_doc (member_oschema (mkSt (TInt false 8) None) PReq) (JNum (NInt 255)) = true.
Proof. vm_compute. split; reflexivity. Qed.

Example C07_ex_error_body :
  err_body_json (bs "id") None (bs "m") = JObj [(bs "request_id", JStr (bs "id")); (bs "message", JStr (bs "m"))].
Proof. vm_compute. reflexivity. Qed.

Print Assumptions C07_documented_params_exact.
Print Assumptions C07_required_iff_serde_requires.
Print Assumptions C07_flattening_merges_every_leaf.
Print Assumptions C07_schema2struct_of_struct.
Print Assumptions C07_member_schema_published.
Print Assumptions C07_doc_value_parses.
Print Assumptions C07_components_interpret_enums.
Print Assumptions C07_doc_request_accepted_query.
Print Assumptions C07_doc_request_accepted_path.
Print Assumptions C07_K7a_refuted.
Print Assumptions C07_K7a_every_value_refused.
Print Assumptions C07_doc_body_ctype_accepted.
Print Assumptions C07_missing_required_refused.
Print Assumptions C07_success_status_documented.
Print Assumptions C07_empty_iff_no_content.
Print Assumptions C07_headers_status_documented.
Print Assumptions C07_optional_ref_published.
Print Assumptions C07_optional_ref_body_valid.
Print Assumptions C07_error_schema_published.
Print Assumptions C07_framework_error_body_valid.
Print Assumptions C07_into_response_body_valid.
