(* C05 — Version ranges mean what they say; conflict means a shared version.
   Statements only; each closed by [exact] of a lemma proved in theories/. *)
From DS Require Import Base Versions VersionsProofs Semver SemverProofs Router RouterSpec RouterProofs Pct Utf8 PathNorm Route Pipeline PipelineProofs VersionsEmbed RankEmbed.

Section C05.
  (* any version type whose comparison is a total order with a least element:
     what Rust's [Ord for semver::Version] is (Semver.v proves these of the
     concrete order) *)
  Variable V : Type.
  Variable cmp : V -> V -> comparison.
  Variable bot : V.
  Hypothesis TO : total_order V cmp bot.

  (* 1. an endpoint is served at v iff v is in its declared range *)
  Theorem C05_matches_iff_in : forall r v,
    wf_range V cmp r -> (vmatches V cmp r (Some v) = true <-> vin V cmp r v).
  Proof. exact (matches_iff_in V cmp bot TO). Qed.

  Theorem C05_matches_one_version : forall a v,
    vmatches V cmp (VFromUntil a a) (Some v) = true <-> v = a.
  Proof. exact (matches_one_version V cmp bot TO). Qed.

  Theorem C05_unversioned_request_matches_all : forall r, vmatches V cmp r None = true.
  Proof. exact (matches_none V cmp). Qed.

  (* 2. from A until B is constructible iff A <= B *)
  Theorem C05_from_until_ok_iff : forall a b,
    is_ok (from_until V cmp a b) = true <-> le V cmp a b.
  Proof. exact (from_until_ok_iff V cmp bot TO). Qed.

  (* 3. conflict iff some version belongs to both — outside the known class
     K2 ([until <minimum version>] beside [all]/[until]) *)
  Theorem C05_overlaps_iff_shared : forall r1 r2,
    wf_range V cmp r1 -> wf_range V cmp r2 -> k2_class V cmp bot r1 r2 = false ->
    (overlaps V cmp r1 r2 = true <-> exists v, vin V cmp r1 v /\ vin V cmp r2 v).
  Proof. exact (overlaps_iff_shared V cmp bot TO). Qed.

  (* the full-strength statement, kept visible: false because of K2 *)
  Definition C05_overlaps_full_statement : Prop := forall r1 r2,
    wf_range V cmp r1 -> wf_range V cmp r2 ->
    (overlaps V cmp r1 r2 = true <-> exists v, vin V cmp r1 v /\ vin V cmp r2 v).
  Theorem C05_K2_refuted : forall b,
    overlaps V cmp (VUntil bot) (VUntil b) = true /\ ~ exists v, vin V cmp (VUntil bot) v.
  Proof. exact (k2_refuted V cmp bot TO). Qed.

  (* whichever is registered first *)
  Theorem C05_overlaps_sym : forall r1 r2, overlaps V cmp r1 r2 = overlaps V cmp r2 r1.
  Proof. exact (overlaps_sym V cmp). Qed.

  (* the decidable specification used to judge implementation runs is the
     existential one *)
  Theorem C05_sharedb_iff : forall r1 r2,
    wf_range V cmp r1 -> wf_range V cmp r2 ->
    (sharedb V cmp bot r1 r2 = true <-> exists v, vin V cmp r1 v /\ vin V cmp r2 v).
  Proof. exact (sharedb_iff V cmp bot TO). Qed.

  Theorem C05_vinb_iff : forall r v, vinb V cmp r v = true <-> vin V cmp r v.
  Proof. exact (vinb_iff V cmp bot TO). Qed.

  (* 5. header policy: routed at exactly the version named, else 400 *)
  Variable parse : str -> option V.
  Theorem C05_header_policy : forall max h v,
    extract_version V cmp parse max h = Ok v <->
    exists s, h = HStr s /\ parse s = Some v /\ le V cmp v max.
  Proof. exact (header_policy V cmp parse). Qed.

  Theorem C05_header_policy_total : forall max h,
    (exists v, extract_version V cmp parse max h = Ok v) \/
    extract_version V cmp parse max h = Err 400.
  Proof. exact (header_policy_total V cmp parse). Qed.

  (* 6. ... inside the request pipeline (Pipeline.v): a request the policy
     refuses — header missing, not visible ASCII, not a version, or newer than
     the maximum — is answered 400 whatever its path, its method and the
     table; nothing is looked up and no handler runs.  An endpoint that does
     run under the header policy runs at the version the header names, inside
     its own range and not above the maximum.  An unversioned server never
     looks at the header. *)
  Theorem C05_pipeline_bad_version_first : forall (p : policy V) (r : node V) m rawpath h c,
    request_version V cmp parse p h = Err c -> handle V cmp parse p r m rawpath h = HBadVersion.
  Proof. exact (handle_bad_version_first V cmp parse). Qed.

  Theorem C05_pipeline_bad_version_iff : forall (p : policy V) (r : node V) m rawpath h,
    handle V cmp parse p r m rawpath h = HBadVersion <-> exists c, request_version V cmp parse p h = Err c.
  Proof. exact (handle_bad_version_iff V cmp parse). Qed.

  Theorem C05_pipeline_refused_headers : forall max h,
    (exists c, request_version V cmp parse (PHeader max) h = Err c) <->
    match h with
    | HAbsent | HNotAscii => True
    | HStr s => match parse s with None => True | Some v => vle V cmp v max = false end
    end.
  Proof. exact (header_policy_refuses_iff V cmp parse). Qed.

  Theorem C05_pipeline_invoke_version : forall max (eps : list (decl V)) r m rawpath h e vars ov,
    build V cmp eps = Ok r ->
    (forall d, In d eps -> wf_range V cmp (e_versions (snd d))) ->
    handle V cmp parse (PHeader max) r m rawpath h = HInvoke e vars ov ->
    exists v, ov = Some v /\ vmatches V cmp (e_versions e) (Some v) = true /\ vle V cmp v max = true /\
              exists s, h = HStr s /\ parse s = Some v.
  Proof. exact (handle_invoke_version V cmp bot TO parse). Qed.

  (* a server that starts never asks a version-restricted table for "no
     version": the unversioned policy is refused at start when any endpoint is
     version-restricted (build_starter), and the header policy always yields a
     version *)
  Theorem C05_started_server_version_ok : forall (p : policy V) (eps : list (decl V)) h ov,
    (forall d, In d eps -> wf_range V cmp (e_versions (snd d))) ->
    starts V p eps = true -> request_version V cmp parse p h = Ok ov -> version_ok V cmp eps ov.
  Proof. exact (started_version_ok V cmp parse). Qed.

  Theorem C05_pipeline_unversioned_ignores_header : forall (r : node V) m rawpath h h',
    handle V cmp parse PUnversioned r m rawpath h = handle V cmp parse PUnversioned r m rawpath h'.
  Proof. exact (handle_unversioned_ignores_header V cmp parse). Qed.
End C05.

(* 7. ranges see versions only through comparisons with their own bounds:
   matching, overlap and the header policy are invariant under any map that
   preserves the comparisons in which at least one side is a known version (P),
   when every bound is known.  Hence deciding the range logic over a finite
   chain decides it for all versions that compare with the chain the same way;
   and ranking against a chain (2 * #{c < v} + [v in chain]) is such a map. *)
Theorem C05_matches_invariant : forall V W cmpV cmpW (f : V -> W) (P : V -> Prop),
  (forall a b, P a \/ P b -> cmpW (f a) (f b) = cmpV a b) ->
  forall r ov, bounds V P r -> vmatches W cmpW (map_range f r) (option_map f ov) = vmatches V cmpV r ov.
Proof. exact vmatches_embed. Qed.

Theorem C05_overlaps_invariant : forall V W cmpV cmpW (f : V -> W) (P : V -> Prop),
  (forall a b, P a \/ P b -> cmpW (f a) (f b) = cmpV a b) ->
  forall r1 r2, bounds V P r1 -> bounds V P r2 ->
  overlaps W cmpW (map_range f r1) (map_range f r2) = overlaps V cmpV r1 r2.
Proof. exact overlaps_embed. Qed.

Theorem C05_header_policy_invariant : forall V W cmpV cmpW (f : V -> W) (P : V -> Prop),
  (forall a b, P a \/ P b -> cmpW (f a) (f b) = cmpV a b) ->
  forall (parse : str -> option V) max h, P max ->
  extract_version W cmpW (fun s => option_map f (parse s)) (f max) h =
  match extract_version V cmpV parse max h with Ok v => Ok (f v) | Err c => Err c end.
Proof. exact extract_version_embed. Qed.

Theorem C05_rank_embeds : forall V cmp bot, total_order V cmp bot ->
  forall chain a b, In a chain \/ In b chain -> N.compare (rank V cmp chain a) (rank V cmp chain b) = cmp a b.
Proof. exact rank_embeds. Qed.

(* non-vacuity: the hypotheses hold of N.compare with least element 0, and a
   concrete table of ranges exercises every constructor *)
Example C05_instance_N : total_order N N.compare 0.
Proof.
  constructor.
  - apply N.compare_eq.
  - apply N.compare_refl.
  - apply N.compare_antisym.
  - intros a b c; rewrite !N.compare_lt_iff; lia.
  - intros v; destruct v; discriminate.
Qed.

(* 4. the concrete order of semver::Version (Semver.v, compared with the
   crate on every run) is such a total order, with least element 0.0.0-0, and
   is semver precedence refined by build metadata *)
Theorem C05_semver_total_order : total_order Semver.version Semver.cmp Semver.bot.
Proof.
  exact (Build_total_order _ _ _ cmp_eq_strong SemverProofs.cmp_refl SemverProofs.cmp_antisym
           SemverProofs.cmp_trans bot_min_strong).
Qed.

Theorem C05_semver_refines_precedence : forall a b,
  (Semver.prec_cmp a b = Lt -> Semver.cmp a b = Lt) /\
  (Semver.prec_cmp a b = Gt -> Semver.cmp a b = Gt) /\
  (Semver.prec_cmp a b = Eq -> Semver.build a = Semver.build b -> Semver.cmp a b = Eq).
Proof.
  exact (fun a b => conj (cmp_refines_precedence a b)
                      (conj (cmp_refines_precedence_gt a b) (cmp_precedence_eq a b))).
Qed.

(* the range theorems, instantiated at the concrete order *)
Theorem C05_semver_overlaps_iff_shared : forall r1 r2,
  wf_range _ Semver.cmp r1 -> wf_range _ Semver.cmp r2 ->
  k2_class _ Semver.cmp Semver.bot r1 r2 = false ->
  (overlaps _ Semver.cmp r1 r2 = true <->
   exists v, vin _ Semver.cmp r1 v /\ vin _ Semver.cmp r2 v).
Proof. exact (C05_overlaps_iff_shared _ _ _ C05_semver_total_order). Qed.

Example C05_nonvacuous :
  overlaps N N.compare (VFrom 3) (VFromUntil 3 3) = true /\
  overlaps N N.compare (VFromUntil 1 3) (VFrom 3) = false /\
  overlaps N N.compare (VUntil 2) (VFromUntil 2 5) = false /\
  vmatches N N.compare (VFromUntil 2 2) (Some 2) = true /\
  k2_class N N.compare 0 (VFrom 3) (VFromUntil 3 3) = false.
Proof. vm_compute. repeat split. Qed.

Print Assumptions C05_matches_iff_in.
Print Assumptions C05_matches_one_version.
Print Assumptions C05_unversioned_request_matches_all.
Print Assumptions C05_from_until_ok_iff.
Print Assumptions C05_overlaps_iff_shared.
Print Assumptions C05_K2_refuted.
Print Assumptions C05_overlaps_sym.
Print Assumptions C05_sharedb_iff.
Print Assumptions C05_vinb_iff.
Print Assumptions C05_header_policy.
Print Assumptions C05_header_policy_total.
Print Assumptions C05_semver_total_order.
Print Assumptions C05_semver_refines_precedence.
Print Assumptions C05_semver_overlaps_iff_shared.
Print Assumptions C05_pipeline_bad_version_first.
Print Assumptions C05_pipeline_bad_version_iff.
Print Assumptions C05_pipeline_refused_headers.
Print Assumptions C05_pipeline_invoke_version.
Print Assumptions C05_pipeline_unversioned_ignores_header.
Print Assumptions C05_started_server_version_ok.
Print Assumptions C05_matches_invariant.
Print Assumptions C05_overlaps_invariant.
Print Assumptions C05_header_policy_invariant.
Print Assumptions C05_rank_embeds.
