(* C12 — Typed responses are serialised faithfully with their declared status.
   Statements only; each closed by [exact] of a lemma proved in
   theories/ResponseProofs.v about the model theories/Response.v. *)
From Coq Require Import String.
From DS Require Import Base Response ResponseProofs.

Section C12.
  (* the handler's value type and serde_json for it: [json_ser] is
     serde_json::to_string (None: it failed), [json_de] serde_json::from_slice;
     the library contract is that what was written parses back to the value *)
  Variable V : Type.
  Variable json_ser : V -> option str.
  Variable json_de : str -> option V.
  Hypothesis json_roundtrip : forall v b, json_ser v = Some b -> json_de b = Some v.

  (* "sent with the status code its type declares (200, 201, 202, 204, 302,
     303, 307), with content type application/json and a body that parses back
     to exactly the returned value, or with an empty body for no-content and
     redirect responses" *)
  Theorem C12_status_and_body : forall c r,
    to_result_coded V json_ser c = Ok r ->
    r_status r = status_of c /\
    match payload_of V c with
    | Some (PJson v) =>
        exists b, r_body r = BBytes b /\ json_de b = Some v /\
                  hm_get (r_headers r) H_CONTENT_TYPE = Some [CT_JSON]
    | Some (PFreeform b) => r_body r = BBytes b
    | None => r_body r = BEmpty /\ r_headers r = []
    end.
  Proof. exact (status_and_body V json_ser json_de json_roundtrip). Qed.

  Theorem C12_status_constants :
    forall p : payload V,
    status_of (ROk p) = 200 /\ status_of (RCreated p) = 201 /\ status_of (RAccepted p) = 202 /\
    status_of (@RDeleted V) = 204 /\ status_of (@RUpdatedNoContent V) = 204 /\
    status_of (@RFoundStatus V) = 302 /\ status_of (@RSeeOtherStatus V) = 303 /\
    status_of (@RTemporaryRedirectStatus V) = 307.
  Proof. exact (fun _ => conj eq_refl (conj eq_refl (conj eq_refl (conj eq_refl
                  (conj eq_refl (conj eq_refl (conj eq_refl eq_refl))))))). Qed.

  (* the only way a typed value is not sent: serialisation failed (500) *)
  Theorem C12_only_serialisation_fails : forall c e,
    to_result_coded V json_ser c = Err e ->
    e = 500 /\ exists v, payload_of V c = Some (PJson v) /\ json_ser v = None.
  Proof. exact (to_result_coded_err V json_ser). Qed.

  (* HttpResponseHeaders changes neither status nor body *)
  Theorem C12_headers_keep_status_and_body : forall h r,
    to_result_headers V json_ser h = Ok r ->
    exists r0, to_result_coded V json_ser (hr_body h) = Ok r0 /\
               r_status r = status_of (hr_body h) /\ r_body r = r_body r0.
  Proof. exact (headers_keep_status_and_body V json_ser). Qed.

  (* "declared response headers are sent with the given values" — unless a
     header of the same name was added explicitly *)
  Theorem C12_declared_headers_sent : forall h r,
    to_result_headers V json_ser h = Ok r ->
    hm_wf (hr_explicit h) = true ->
    NoDup (map (fun f => header_name (fst f)) (hr_declared h)) ->
    forall k v, In (k, FStr v) (hr_declared h) ->
    exists n, header_name k = Some n /\
      hm_get (r_headers r) n =
      match hm_get (hr_explicit h) n with Some vs => Some vs | None => Some [v] end.
  Proof. exact (declared_headers_sent V json_ser). Qed.

  (* "headers added explicitly override declared ones of the same name":
     exactly the explicit values are present *)
  Theorem C12_explicit_overrides_declared : forall h r,
    to_result_headers V json_ser h = Ok r ->
    hm_wf (hr_explicit h) = true ->
    forall n vs, hm_get (hr_explicit h) n = Some vs -> hm_get (r_headers r) n = Some vs.
  Proof. exact (explicit_overrides_declared V json_ser). Qed.

  (* the whole header algebra, without the distinct-names premise: explicit
     values, else the declared value that comes last in key order, else what
     the body set *)
  Theorem C12_header_algebra : forall h r,
    to_result_headers V json_ser h = Ok r -> hm_wf (hr_explicit h) = true ->
    exists r0 m,
      to_result_coded V json_ser (hr_body h) = Ok r0 /\
      to_map (hr_declared h) [] = Ok m /\
      r_status r = r_status r0 /\ r_body r = r_body r0 /\
      forall n, hm_get (r_headers r) n =
                match hm_get (hr_explicit h) n with
                | Some vs => Some vs
                | None => match declared_value m n with
                          | Some v => Some [v]
                          | None => hm_get (r_headers r0) n
                          end
                end.
  Proof. exact (to_result_headers_get V json_ser). Qed.

  Theorem C12_other_headers_untouched : forall h r,
    to_result_headers V json_ser h = Ok r ->
    hm_wf (hr_explicit h) = true ->
    forall n, hm_get (hr_explicit h) n = None ->
    (forall k f, In (k, f) (hr_declared h) -> header_name k <> Some n) ->
    exists r0, to_result_coded V json_ser (hr_body h) = Ok r0 /\
               hm_get (r_headers r) n = hm_get (r_headers r0) n.
  Proof. exact (other_headers_untouched V json_ser). Qed.

  (* when it is sent at all: exactly when the body serialises, every field is
     a string, every name a legal header name and every value a legal header
     value; every refusal is a 500 *)
  Theorem C12_headers_sent_iff : forall h,
    (exists r, to_result_headers V json_ser h = Ok r) <->
    (exists r0 m, to_result_coded V json_ser (hr_body h) = Ok r0 /\
                  to_map (hr_declared h) [] = Ok m /\
                  forall k v, In (k, v) m -> header_name k <> None /\ header_legal v = true).
  Proof. exact (to_result_headers_ok_iff V json_ser). Qed.

  Theorem C12_headers_sent_if_valid : forall h r0,
    to_result_coded V json_ser (hr_body h) = Ok r0 ->
    (forall k f, In (k, f) (hr_declared h) ->
                 exists v, f = FStr v /\ header_name k <> None /\ header_legal v = true) ->
    exists r, to_result_headers V json_ser h = Ok r.
  Proof. exact (to_result_headers_ok V json_ser). Qed.

  Theorem C12_refusal_is_500 : forall h e, to_result_headers V json_ser h = Err e -> e = 500.
  Proof. exact (to_result_headers_err V json_ser). Qed.

  (* "redirects carry the given Location. A redirect location that is not a
     legal header value is refused with an error instead of being sent." *)
  Theorem C12_redirect_location : forall (st : coded V) loc,
    is_redirect_status V st = true ->
    (is_ok (redirect st loc) = header_legal loc) /\
    (header_legal loc = false -> redirect st loc = Err 500) /\
    (forall h, redirect st loc = Ok h ->
       to_result_headers V json_ser h =
       Ok (mkResponse (status_of st) [(H_LOCATION, [loc])] BEmpty)).
  Proof. exact (redirect_location V json_ser). Qed.

  Theorem C12_redirect_location_explicit : forall (st : coded V) loc h m r,
    is_redirect_status V st = true -> redirect st loc = Ok h -> hm_wf m = true ->
    to_result_headers V json_ser (with_explicit h m) = Ok r ->
    r_status r = status_of st /\ r_body r = BEmpty /\
    hm_get (r_headers r) H_LOCATION =
      match hm_get m H_LOCATION with Some vs => Some vs | None => Some [loc] end.
  Proof. exact (redirect_location_explicit V json_ser). Qed.
End C12.

(* the http::HeaderMap operations the above rests on *)
Theorem C12_headermap_insert : forall m n v k,
  hm_get (hm_insert m n v) k = if str_eqb n k then Some [v] else hm_get m k.
Proof. exact hm_get_insert. Qed.

Theorem C12_headermap_append : forall m n v k,
  hm_get (hm_append m n v) k =
  if str_eqb n k then Some (appended (hm_get m n) v) else hm_get m k.
Proof. exact hm_get_append. Qed.

Theorem C12_headermap_extend : forall other m k,
  hm_wf other = true ->
  hm_get (hm_extend m other) k =
  match hm_get other k with Some vs => Some vs | None => hm_get m k end.
Proof. exact hm_get_extend. Qed.

Theorem C12_headermap_wf : forall ops m m',
  hm_wf m = true -> hm_of_ops ops m = Some m' -> hm_wf m' = true.
Proof. exact hm_of_ops_wf. Qed.

(* ---------- non-vacuity ---------- *)

Definition ex_ser (v : str) : option str := Some (34 :: v ++ [34]).       (* "v" *)
Definition ex_de (b : str) : option str :=
  match b with
  | 34 :: t => match rev t with 34 :: r => Some (rev r) | _ => None end
  | _ => None
  end.

Example C12_contract_satisfiable : forall v b, ex_ser v = Some b -> ex_de b = Some v.
Proof.
  intros v b [= <-]. unfold ex_de. rewrite rev_app_distr. cbn [rev app].
  rewrite rev_involutive. reflexivity.
Qed.

Example C12_example_headers :
  to_result_headers str ex_ser
    (mkHresp (RCreated (PJson (bytes_of "x")))
             [(bytes_of "X-Two", FStr (bytes_of "declared-2")); (bytes_of "x-one", FStr (bytes_of "declared-1"))]
             [(bytes_of "x-one", [bytes_of "explicit-a"; bytes_of "explicit-b"]); (bytes_of "x-three", [bytes_of "3"])])
  = Ok (mkResponse 201
          [(H_CONTENT_TYPE, [CT_JSON]);
           (bytes_of "x-two", [bytes_of "declared-2"]);
           (bytes_of "x-one", [bytes_of "explicit-a"; bytes_of "explicit-b"]);
           (bytes_of "x-three", [bytes_of "3"])]
          (BBytes (bytes_of """x"""))).
Proof. vm_compute. reflexivity. Qed.

Example C12_example_redirect :
  (do h <- @http_response_see_other str (bytes_of "/next?a=1"); to_result_headers str ex_ser h)
  = Ok (mkResponse 303 [(H_LOCATION, [bytes_of "/next?a=1"])] BEmpty) /\
  @http_response_found str (bytes_of "/a" ++ [10] ++ bytes_of "b") = Err 500 /\
  is_ok (@http_response_temporary_redirect str [99; 97; 102; 195; 169; 9]) = true.
Proof. vm_compute. repeat split. Qed.

Example C12_example_refused :
  to_result_headers str ex_ser
    (mkHresp RDeleted [(bytes_of "x-n", FOther)] []) = Err 500 /\
  to_result_headers str ex_ser
    (mkHresp RDeleted [(bytes_of "bad name", FStr [])] []) = Err 500 /\
  to_result_headers str ex_ser
    (mkHresp RDeleted [(bytes_of "x-v", FStr [7])] []) = Err 500.
Proof. vm_compute. repeat split. Qed.

Print Assumptions C12_status_and_body.
Print Assumptions C12_status_constants.
Print Assumptions C12_only_serialisation_fails.
Print Assumptions C12_headers_keep_status_and_body.
Print Assumptions C12_declared_headers_sent.
Print Assumptions C12_explicit_overrides_declared.
Print Assumptions C12_header_algebra.
Print Assumptions C12_other_headers_untouched.
Print Assumptions C12_headers_sent_iff.
Print Assumptions C12_headers_sent_if_valid.
Print Assumptions C12_refusal_is_500.
Print Assumptions C12_redirect_location.
Print Assumptions C12_redirect_location_explicit.
Print Assumptions C12_headermap_insert.
Print Assumptions C12_headermap_append.
Print Assumptions C12_headermap_extend.
Print Assumptions C12_headermap_wf.
