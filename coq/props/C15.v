(* C15 — Following next-page tokens visits every item exactly once.
   Statements only; each closed by [exact] of a lemma proved in
   theories/PaginationProofs.v.

   Model: theories/Pagination.v — ResultsPage::new ([results_page]), the token
   codec of PageToken.v, RequestContext::page_limit, composed with the
   contract of a well-behaved handler over a strictly sorted collection
   ([page_items]: the first [limit] keys strictly after the marker, in the
   order of the scan).  [full_scan fuel o lim] is the client: first request
   without token, then each returned token, until a page carries none.

   Premises (all explicit): the serde_json envelope contract for the selector
   type; the collection is strictly sorted; the client limit, if any, is a
   NonZeroU32; 1 <= default <= max; and every token the scan has to issue fits
   under the 512-byte bound ([tokens_fit] — see C15_tokens_fit_sufficient for
   a sufficient condition and C15_instance for a concrete instance). *)
From DS Require Import Base Base64 PageToken PageTokenProofs Pagination PaginationProofs.

Section C15.
  Variable env_ser : sel -> option (list N).
  Variable env_de : list N -> option (pag_version * sel).
  Variable max default : N.          (* page_max_nitems, page_default_nitems *)
  Variable coll : list N.            (* the unchanging collection's keys *)
  Hypothesis env_round_trip : forall s bs, env_ser s = Some bs -> env_de bs = Some (V1, s).
  Hypothesis env_bytes : forall s bs, env_ser s = Some bs -> bytes_ok bs = true.
  Variable o : order.                (* every sort order *)
  Variable lim : option N.           (* every client limit, or none *)
  Hypothesis coll_sorted : sortedb coll = true.
  Hypothesis lim_nonzero : forall l, lim = Some l -> 1 <= l.
  Hypothesis cfg_default : 1 <= default.
  Hypothesis cfg_max : default <= max.
  Hypothesis tokens_fit :
    forall k, In k coll -> is_ok (serialize sel env_ser (o, k)) = true.

  (* "the scan terminates": |coll| + 2 requests always suffice, and the scan
     ends with a token-less page (it neither runs out of fuel nor meets an
     error response) *)
  Theorem C15_scan_terminates : forall fuel,
    (length coll + 2 <= fuel)%nat ->
    exists pages, full_scan env_ser env_de max default coll fuel o lim = Done pages.
  Proof.
    exact (scan_terminates env_ser env_de max default coll env_round_trip env_bytes o lim
             coll_sorted lim_nonzero cfg_default cfg_max tokens_fit).
  Qed.

  (* "yields every item exactly once and in order, for every collection size
     (including empty) and every page size" *)
  Theorem C15_scan_complete_exact : forall fuel pages,
    full_scan env_ser env_de max default coll fuel o lim = Done pages ->
    concat (map items pages) = view o coll.
  Proof.
    exact (scan_complete_exact env_ser env_de max default coll env_round_trip env_bytes o lim
             coll_sorted lim_nonzero cfg_default cfg_max tokens_fit).
  Qed.

  (* the same with multiplicities spelled out *)
  Theorem C15_scan_each_item_once : forall fuel pages k,
    full_scan env_ser env_de max default coll fuel o lim = Done pages ->
    count_occ N.eq_dec (concat (map items pages)) k =
    if in_dec N.eq_dec k coll then 1%nat else 0%nat.
  Proof.
    exact (scan_each_item_once env_ser env_de max default coll env_round_trip env_bytes o lim
             coll_sorted lim_nonzero cfg_default cfg_max tokens_fit).
  Qed.

  (* "No page holds more items than the effective limit" *)
  Theorem C15_page_bounded : forall fuel pages p,
    full_scan env_ser env_de max default coll fuel o lim = Done pages -> In p pages ->
    N.of_nat (length (items p)) <= page_limit lim max default.
  Proof.
    exact (page_bounded env_ser env_de max default coll env_round_trip env_bytes o lim
             coll_sorted lim_nonzero cfg_default cfg_max tokens_fit).
  Qed.

  (* "a token is returned exactly when the page is non-empty" *)
  Theorem C15_token_iff_nonempty : forall fuel pages p,
    full_scan env_ser env_de max default coll fuel o lim = Done pages -> In p pages ->
    (next_page p = None <-> items p = []).
  Proof.
    exact (token_iff_nonempty env_ser env_de max default coll env_round_trip env_bytes o lim
             coll_sorted lim_nonzero cfg_default cfg_max tokens_fit).
  Qed.

  (* the scan takes ceil(|coll| / eff) + 1 requests (the last page is empty) *)
  Theorem C15_scan_request_count : forall fuel pages,
    full_scan env_ser env_de max default coll fuel o lim = Done pages ->
    N.of_nat (length pages) =
    expected_requests (N.of_nat (length coll)) (page_limit lim max default).
  Proof.
    exact (scan_request_count env_ser env_de max default coll env_round_trip env_bytes o lim
             coll_sorted lim_nonzero cfg_default cfg_max tokens_fit).
  Qed.

  (* Without the premise [tokens_fit] (an item's selector may be too large for
     a token): a scan that ends — a page without token — has still delivered
     every item exactly once and in order, within the page bound, tokens on
     exactly the non-empty pages.  A scan is never cut short silently. *)
  Theorem C15_scan_done_is_complete : forall fuel pages,
    full_scan env_ser env_de max default coll fuel o lim = Done pages ->
    concat (map items pages) = view o coll /\
    (forall p, In p pages ->
       N.of_nat (length (items p)) <= page_limit lim max default /\
       (next_page p = None <-> items p = [])).
  Proof.
    exact (scan_done_is_complete env_ser env_de max default coll env_round_trip env_bytes o lim
             coll_sorted lim_nonzero cfg_default cfg_max).
  Qed.

  (* ... the only other way it stops is an explicit failure (500) of the
     request whose page would end on an item whose token cannot be issued;
     all earlier pages were delivered, non-empty, each with its token *)
  Theorem C15_scan_failure_is_explicit : forall fuel e pages,
    full_scan env_ser env_de max default coll fuel o lim = Failed e pages ->
    status_of e = 500 /\
    (forall p, In p pages ->
       N.of_nat (length (items p)) <= page_limit lim max default /\
       items p <> [] /\ next_page p <> None) /\
    exists its' k' tail,
      view o coll = concat (map items pages) ++ its' ++ k' :: tail /\
      N.of_nat (length (its' ++ [k'])) <= page_limit lim max default /\
      serialize sel env_ser (o, k') = Err e.
  Proof.
    exact (scan_failure_is_explicit env_ser env_de max default coll env_round_trip env_bytes o lim
             coll_sorted lim_nonzero cfg_default cfg_max).
  Qed.

  (* the threaded evaluation of the scan used for very long scans in the
     correspondence runs is the scan itself *)
  Theorem C15_fast_scan_is_scan : forall fuel,
    full_scan env_ser env_de max default coll fuel o lim =
    fast_scan env_ser max default coll fuel o lim.
  Proof.
    exact (fast_scan_is_scan env_ser env_de max default coll env_round_trip env_bytes o lim
             coll_sorted lim_nonzero cfg_default cfg_max).
  Qed.
End C15.

(* ResultsPage::new by itself, for any item list (no contract on the handler):
   token present iff items non-empty; items returned unchanged *)
Theorem C15_results_page_token_iff : forall env_ser its sp get p,
  results_page env_ser its sp get = Ok p ->
  items p = its /\ (next_page p = None <-> its = []).
Proof. exact results_page_token_iff. Qed.

(* the premise [tokens_fit] follows from a size bound on the envelope: an
   envelope of at most 384 bytes always yields a token *)
Theorem C15_tokens_fit_sufficient : forall env_ser (s : sel) bs,
  env_ser s = Some bs -> slen bs <= 384 -> is_ok (serialize sel env_ser s) = true.
Proof. exact tokens_fit_sufficient. Qed.

(* ---------- non-vacuity: a concrete instance of every premise ---------- *)

Definition ex_ser (s : sel) : option (list N) :=
  let (o, k) := s in
  if k <? 256 then Some [match o with Asc => 97 | Desc => 100 end; k] else None.
Definition ex_de (bs : list N) : option (pag_version * sel) :=
  match bs with
  | [97; k] => Some (V1, (Asc, k))
  | [100; k] => Some (V1, (Desc, k))
  | _ => None
  end.
Definition ex_coll : list N := [1; 2; 3; 5; 8; 13; 21].

Example C15_premises_satisfiable :
  (forall s bs, ex_ser s = Some bs -> ex_de bs = Some (V1, s)) /\
  (forall s bs, ex_ser s = Some bs -> bytes_ok bs = true) /\
  sortedb ex_coll = true /\
  (forall o k, In k ex_coll -> is_ok (serialize sel ex_ser (o, k)) = true).
Proof.
  split; [|split; [|split]].
  - intros [o k] bs. unfold ex_ser. destruct (N.ltb_spec k 256); [|discriminate].
    intros [= <-]. destruct o; reflexivity.
  - intros [o k] bs. unfold ex_ser. destruct (N.ltb_spec k 256); [|discriminate].
    intros [= <-]. cbn [bytes_ok forallb]. unfold byte_ok. destruct o; lia.
  - reflexivity.
  - intros o k Hin. cbn [ex_coll In] in Hin.
    destruct o; repeat (destruct Hin as [<-|Hin]; [vm_compute; reflexivity|]); destruct Hin.
Qed.

Example C15_instance :
  (* limit 3 of max 5: pages of 3, 3, 1, then the empty page *)
  (exists ps, full_scan ex_ser ex_de 5 2 ex_coll 9 Asc (Some 3) = Done ps /\
              map items ps = [[1;2;3]; [5;8;13]; [21]; []] /\
              map (fun p => match next_page p with Some _ => true | None => false end) ps
              = [true; true; true; false]) /\
  (* limit 100 clamped to max 5, descending *)
  (exists ps, full_scan ex_ser ex_de 5 2 ex_coll 9 Desc (Some 100) = Done ps /\
              map items ps = [[21;13;8;5;3]; [2;1]; []]) /\
  (* no limit: default 2 *)
  (exists ps, full_scan ex_ser ex_de 5 2 ex_coll 9 Asc None = Done ps /\
              map items ps = [[1;2]; [3;5]; [8;13]; [21]; []]) /\
  (* empty collection: one request, one empty page *)
  (exists ps, full_scan ex_ser ex_de 5 2 [] 2 Asc (Some 1) = Done ps /\ map items ps = [[]]) /\
  (* too little fuel is reported, not hidden *)
  (exists ps, full_scan ex_ser ex_de 5 2 ex_coll 2 Asc (Some 1) = OutOfFuel ps) /\
  (* a key whose token cannot be issued: the request fails (500), the scan
     reports it *)
  (exists ps, full_scan ex_ser ex_de 5 2 [1; 300] 9 Asc (Some 2) = Failed ESerJson ps) /\
  (* ... after the pages before it were delivered; with a page size that does
     not end a page on that key the scan completes *)
  (exists ps, full_scan ex_ser ex_de 5 2 [1; 2; 300; 301] 9 Asc (Some 2) = Failed ESerJson ps /\
              map items ps = [[1; 2]]) /\
  (exists ps, full_scan ex_ser ex_de 5 2 [1; 4; 300] 9 Desc (Some 3) = Done ps /\
              map items ps = [[300; 4; 1]; []]).
Proof. vm_compute. repeat split; eexists; repeat split. Qed.

Print Assumptions C15_scan_terminates.
Print Assumptions C15_scan_complete_exact.
Print Assumptions C15_scan_each_item_once.
Print Assumptions C15_page_bounded.
Print Assumptions C15_token_iff_nonempty.
Print Assumptions C15_scan_request_count.
Print Assumptions C15_scan_done_is_complete.
Print Assumptions C15_scan_failure_is_explicit.
Print Assumptions C15_fast_scan_is_scan.
Print Assumptions C15_results_page_token_iff.
Print Assumptions C15_tokens_fit_sufficient.
