(* C13 — Error responses follow one contract and never leak internal detail.
   Statements only; each closed by [exact] of a lemma proved in
   theories/ErrorsProofs.v about the model theories/Errors.v. *)
From Coq Require Import String.
From DS Require Import Base Response ResponseProofs Errors ErrorsProofs.

(* "only codes 400-599 can ever be represented as an error status": for every
   natural number c (not only u16), ErrorStatusCode::from_u16 / from_status
   accept exactly 400..599, ClientErrorStatusCode exactly 400..499, and what
   is wrapped is c itself *)
Theorem C13_status_boundary : forall c : N,
  (is_ok (err_from_u16 c) = true <-> 400 <= c <= 599) /\
  (is_ok (client_from_u16 c) = true <-> 400 <= c <= 499) /\
  (forall s, err_from_u16 c = Ok s -> s = c) /\
  (forall s, client_from_u16 c = Ok s -> s = c) /\
  (is_ok (err_from_status c) = true <-> 400 <= c <= 599) /\
  (is_ok (client_from_status c) = true <-> 400 <= c <= 499) /\
  (forall s, err_from_status c = Ok s -> s = c) /\
  (forall s, client_from_status c = Ok s -> s = c).
Proof. exact status_boundary. Qed.

(* which error each out-of-range number gets *)
Theorem C13_status_error_kinds : forall c : N,
  (err_from_u16 c = Err InvalidStatus <-> ~ 100 <= c <= 999) /\
  (err_from_u16 c = Err NotAnError <-> 100 <= c <= 399 \/ 600 <= c <= 999) /\
  err_from_u16 c <> Err NotAClientError.
Proof. exact err_from_u16_error. Qed.

Theorem C13_client_status_error_kinds : forall c : N,
  (client_from_u16 c = Err InvalidStatus <-> ~ 100 <= c <= 999) /\
  (client_from_u16 c = Err NotAClientError <-> 100 <= c <= 399 \/ 500 <= c <= 999) /\
  client_from_u16 c <> Err NotAnError.
Proof. exact client_from_u16_error. Qed.

(* as_client_error / TryFrom<ErrorStatusCode>, and the way back *)
Theorem C13_as_client_error : forall s : N,
  (400 <= s <= 499 -> as_client_error s = Ok s) /\
  (~ 400 <= s <= 499 -> as_client_error s = Err NotAClientError).
Proof. exact as_client_error_spec. Qed.

Theorem C13_client_is_error : forall c s,
  client_from_u16 c = Ok s -> err_from_u16 (client_into_error s) = Ok s.
Proof. exact client_is_error. Qed.

(* "a response with exactly that status and a JSON body carrying the external
   message, the optional error code and the request id, plus any headers
   attached to the error" *)
Theorem C13_response_contract : forall e id r,
  into_response e id = Ok r ->
  r_status r = e_status e /\
  r_body r = BErrJson id (e_code e) (e_external e) /\
  hm_get (r_headers r) H_CONTENT_TYPE =
    Some (appended (hm_get (headers_or_empty e) H_CONTENT_TYPE) CT_JSON) /\
  hm_get (r_headers r) H_REQUEST_ID =
    Some (appended (hm_get (headers_or_empty e) H_REQUEST_ID) id) /\
  (forall n vs, hm_get (headers_or_empty e) n = Some vs ->
                exists post, hm_get (r_headers r) n = Some (vs ++ post)) /\
  (forall n, n <> H_CONTENT_TYPE -> n <> H_REQUEST_ID ->
             hm_get (r_headers r) n = hm_get (headers_or_empty e) n).
Proof. exact response_contract. Qed.

Theorem C13_response_contract_plain : forall e id r,
  into_response e id = Ok r ->
  hm_get (headers_or_empty e) H_CONTENT_TYPE = None ->
  hm_get (headers_or_empty e) H_REQUEST_ID = None ->
  hm_get (r_headers r) H_CONTENT_TYPE = Some [CT_JSON] /\
  hm_get (r_headers r) H_REQUEST_ID = Some [id].
Proof. exact response_contract_plain. Qed.

(* a response is produced exactly when the request id is a legal header value
   (otherwise the builder's unwrap panics) *)
Theorem C13_into_response_defined : forall e id,
  (exists r, into_response e id = Ok r) <-> header_legal id = true.
Proof. exact into_response_ok_iff. Qed.

(* add_header / with_header: what is attached, and when it is refused *)
Theorem C13_add_header : forall e n v,
  ((exists e', add_header e n v = Ok e') <-> header_name n <> None /\ header_legal v = true) /\
  (forall e', add_header e n v = Ok e' ->
     e_status e' = e_status e /\ e_code e' = e_code e /\ e_external e' = e_external e /\
     e_internal e' = e_internal e /\
     exists k, header_name n = Some k /\ header_legal v = true /\
               e_headers e' = Some (hm_append (headers_or_empty e) k v)).
Proof. exact (fun e n v => conj (add_header_ok_iff e n v) (add_header_fields e n v)). Qed.

(* "the internal message of an error is never sent to the client", as
   non-interference: errors that agree on everything but the internal message
   produce equal responses *)
Theorem C13_no_internal_leak : forall e1 e2 id,
  e_status e1 = e_status e2 -> e_code e1 = e_code e2 ->
  e_external e1 = e_external e2 -> e_headers e1 = e_headers e2 ->
  into_response e1 id = into_response e2 id.
Proof. exact no_internal_leak. Qed.

(* ... and for the constructors that take the internal message separately the
   response does not depend on that argument (for any wording of the reason
   phrases) *)
Theorem C13_constructors_hide_internal : forall (reason_text : N -> str) id code m1 m2,
  respond (for_internal_error reason_text m1) id = respond (for_internal_error reason_text m2) id /\
  respond (for_unavail reason_text code m1) id = respond (for_unavail reason_text code m2) id /\
  respond (for_not_found reason_text code m1) id = respond (for_not_found reason_text code m2) id.
Proof. exact constructors_hide_internal. Qed.

Theorem C13_custom_error_message_hidden : forall m1 m2 rsp id,
  herr_into_response (HEHandler m1 rsp) id = herr_into_response (HEHandler m2 rsp) id.
Proof. exact custom_error_message_hidden. Qed.

(* "every error, built with any public constructor and any representable
   status, produces a response with exactly that status ...": every
   constructor, every status it can be given (for_client_error_with_status
   included: a status without a standard label gets the message
   "Client Error") *)
Theorem C13_constructors_contract : forall (reason_text : N -> str) id,
  header_legal id = true ->
  forall code m status,
  (exists r, into_response (for_client_error code status m) id = Ok r /\
             r_status r = status /\ r_body r = BErrJson id code m) /\
  (exists r, respond (for_internal_error reason_text m) id = Ok r /\
             r_status r = 500 /\
             r_body r = BErrJson id (Some (bytes_of "Internal")) (reason_text 500)) /\
  (exists r, respond (for_unavail reason_text code m) id = Ok r /\
             r_status r = 503 /\ r_body r = BErrJson id code (reason_text 503)) /\
  (exists r, into_response (for_bad_request code m) id = Ok r /\
             r_status r = 400 /\ r_body r = BErrJson id code m) /\
  (exists r, respond (for_not_found reason_text code m) id = Ok r /\
             r_status r = 404 /\ r_body r = BErrJson id code (reason_text 404)) /\
  (exists r, into_response (for_client_error_with_status reason_text code status) id = Ok r /\
             r_status r = status /\
             r_body r = BErrJson id code (with_status_message reason_text status)).
Proof. exact constructors_contract. Qed.

(* for_client_error_with_status is total: the standard label when the status
   has one, "Client Error" otherwise, as both messages *)
Theorem C13_with_status_total : forall (reason_text : N -> str) code status,
  for_client_error_with_status reason_text code status =
    mkErr status code (with_status_message reason_text status)
          (with_status_message reason_text status) None /\
  (has_reason status = true -> with_status_message reason_text status = reason_text status) /\
  (has_reason status = false -> with_status_message reason_text status = bytes_of "Client Error").
Proof.
  exact (fun rt code status =>
           conj (for_client_error_with_status_eq rt code status)
                (with_status_message_spec rt status)).
Qed.

(* "every response to a well-formed HTTP request, success or error, carries an
   x-request-id header ... equal both to the request id the handler was given
   and to the one inside a framework-format error body": for the wrapper
   http_request_handle_wrap, over every outcome class *)
Theorem C13_request_id_everywhere : forall rq id r,
  handle_wrap rq id = Ok r ->
  response_request_id r = Some id /\
  (forall e, framework_error (outcome_of rq id) = Some e ->
             r_status r = e_status e /\
             r_body r = BErrJson id (e_code e) (e_external e) /\
             (hm_get (headers_or_empty e) H_REQUEST_ID = None ->
              hm_get (r_headers r) H_REQUEST_ID = Some [id])) /\
  (framework_error (outcome_of rq id) = None ->
   hm_get (r_headers r) H_REQUEST_ID = Some [id] /\
   exists rsp, (outcome_of rq id = OSuccess rsp \/ exists m, outcome_of rq id = OCustomError m rsp) /\
               r = stamped rsp id).
Proof. exact request_id_everywhere. Qed.

(* a response is produced whenever the generated id is a legal header value *)
Theorem C13_handle_wrap_defined : forall rq id,
  (exists r, handle_wrap rq id = Ok r) <-> header_legal id = true.
Proof. exact handle_wrap_ok_iff. Qed.

(* "unique per request": over any request sequence, given the generator's
   contract (uuid::Uuid::new_v4: pairwise distinct, and printed as a legal
   header value) *)
Theorem C13_ids_unique : forall (fresh : nat -> str),
  (forall i j, fresh i = fresh j -> i = j) ->
  (forall k, header_legal (fresh k) = true) ->
  forall rqs k, NoDup (map carried_id (serve fresh k rqs)).
Proof. exact ids_unique. Qed.

Theorem C13_every_request_answered : forall (fresh : nat -> str),
  (forall k, header_legal (fresh k) = true) ->
  forall rqs k x, In x (serve fresh k rqs) ->
  exists r id, x = Ok r /\ response_request_id r = Some id.
Proof. exact every_request_answered. Qed.

Theorem C13_serve_ids : forall (fresh : nat -> str),
  (forall k, header_legal (fresh k) = true) ->
  forall rqs k,
  map carried_id (serve fresh k rqs) = map (fun i => Some (fresh i)) (seq k (List.length rqs)).
Proof. exact serve_ids. Qed.

(* ---------- non-vacuity ---------- *)

Definition ex_id : str := bytes_of "9cbeebca-539c-46f6-9756-36707d4685b3".
Definition ex_fresh (k : nat) : str := bytes_of "id-" ++ repeat 97 k.

Example C13_uuid_shape : uuid_shaped ex_id = true /\ header_legal ex_id = true /\
                         uuid_shaped (bytes_of "9cbeebca-539c-46f6-9756-36707d4685b") = false.
Proof. vm_compute. repeat split. Qed.

Example C13_example_response :
  into_response (mkErr 404 (Some (bytes_of "NotHere")) (bytes_of "Not Found") (bytes_of "db row 17 missing")
                       (Some [(bytes_of "retry-after", [bytes_of "3"])]))
                ex_id
  = Ok (mkResponse 404
          [(bytes_of "retry-after", [bytes_of "3"]); (H_CONTENT_TYPE, [CT_JSON]); (H_REQUEST_ID, [ex_id])]
          (BErrJson ex_id (Some (bytes_of "NotHere")) (bytes_of "Not Found"))).
Proof. vm_compute. reflexivity. Qed.

Example C13_example_boundary :
  map (fun c => (is_ok (err_from_u16 c), is_ok (client_from_u16 c))) [99; 100; 399; 400; 499; 500; 599; 600; 999; 1000; 65535]
  = [(false,false); (false,false); (false,false); (true,true); (true,true); (true,false); (true,false);
     (false,false); (false,false); (false,false); (false,false)].
Proof. vm_compute. reflexivity. Qed.

Example C13_fresh_contract_satisfiable :
  (forall i j, ex_fresh i = ex_fresh j -> i = j) /\ (forall k, header_legal (ex_fresh k) = true).
Proof.
  split.
  - intros i j H. unfold ex_fresh in H. apply app_inv_head in H.
    apply (f_equal (@List.length N)) in H. rewrite !repeat_length in H. exact H.
  - intros k. unfold ex_fresh, header_legal. rewrite forallb_app.
    replace (forallb hv_byte_ok (bytes_of "id-")) with true by (vm_compute; reflexivity).
    cbn [andb]. induction k as [|k IH]; cbn [repeat forallb]; [reflexivity|].
    rewrite IH. reflexivity.
Qed.

Example C13_example_wrapper :
  let rq := mkRq None (Some (mkErr 404 None (bytes_of "Not Found") (bytes_of "no route") None))
                 (fun id => Ok (mkResponse 200 [] BEmpty)) in
  handle_wrap rq ex_id
  = Ok (mkResponse 404 [(H_CONTENT_TYPE, [CT_JSON]); (H_REQUEST_ID, [ex_id])]
                   (BErrJson ex_id None (bytes_of "Not Found"))).
Proof. vm_compute. reflexivity. Qed.

Print Assumptions C13_status_boundary.
Print Assumptions C13_status_error_kinds.
Print Assumptions C13_client_status_error_kinds.
Print Assumptions C13_as_client_error.
Print Assumptions C13_client_is_error.
Print Assumptions C13_response_contract.
Print Assumptions C13_response_contract_plain.
Print Assumptions C13_into_response_defined.
Print Assumptions C13_add_header.
Print Assumptions C13_no_internal_leak.
Print Assumptions C13_constructors_hide_internal.
Print Assumptions C13_custom_error_message_hidden.
Print Assumptions C13_constructors_contract.
Print Assumptions C13_with_status_total.
Print Assumptions C13_request_id_everywhere.
Print Assumptions C13_handle_wrap_defined.
Print Assumptions C13_ids_unique.
Print Assumptions C13_every_request_answered.
Print Assumptions C13_serve_ids.
