(* C14 — Page tokens round-trip, malformed tokens are refused, limits are
   clamped.  Statements only; each closed by [exact] of a lemma proved in
   theories/PageTokenProofs.v (base64 facts: theories/Base64Proofs.v).

   Model: theories/PageToken.v (serialize_page_token, deserialize_page_token,
   deserialize_whichpage, PaginationParams, page_limit, u32::from_str) over
   theories/Base64.v.  The JSON envelope {"v":"v1","page_start":..} written
   and read by serde_json for the consumer's selector type is a library: it
   enters as [env_ser]/[env_de] with the round-trip contract as a hypothesis
   of exactly the theorems that need it (C14_token_round_trip,
   C14_issued_token_selects_page); the other theorems hold for every
   [env_ser]/[env_de]. *)
From DS Require Import Base Base64 Base64Proofs PageToken PageTokenProofs.

Section C14.
  Variable Sel : Type.                               (* consumer's PageSelector *)
  Variable Scan : Type.                              (* consumer's ScanParams *)
  Variable env_ser : Sel -> option (list N).         (* serde_json::to_vec of the envelope *)
  Variable env_de : list N -> option (pag_version * Sel).  (* serde_json::from_slice *)
  Variable scan_de : list (str * str) -> option Scan.      (* from_map::<ScanParams> *)

  (* --- "Any page token the framework issues is accepted back and yields the
         same page selector" --- *)
  Theorem C14_token_round_trip :
    (forall s bs, env_ser s = Some bs -> env_de bs = Some (V1, s)) ->
    (forall s bs, env_ser s = Some bs -> bytes_ok bs = true) ->
    forall s t, serialize Sel env_ser s = Ok t -> deserialize Sel env_de t = Ok s.
  Proof. exact (token_round_trip Sel env_ser env_de). Qed.

  (* ... also when it comes back inside a query with other parameters *)
  Theorem C14_issued_token_selects_page :
    (forall s bs, env_ser s = Some bs -> env_de bs = Some (V1, s)) ->
    (forall s bs, env_ser s = Some bs -> bytes_ok bs = true) ->
    forall s t kvs p,
      serialize Sel env_ser s = Ok t ->
      lookup_last K_PAGE_TOKEN kvs = Some t ->
      parse_params Sel Scan env_de scan_de kvs = Ok p -> pp_page p = Next s.
  Proof. exact (issued_token_selects_page Sel Scan env_ser env_de scan_de). Qed.

  (* --- the size bound is the same on both sides: an issued token is at most
         512 bytes and is not refused by the length check; a token over 512
         bytes is refused --- *)
  Theorem C14_bound_symmetric :
    (forall s t, serialize Sel env_ser s = Ok t ->
                 slen t <= MAX_TOKEN_LENGTH /\ deserialize Sel env_de t <> Err ETooLarge) /\
    (forall t, MAX_TOKEN_LENGTH < slen t -> deserialize Sel env_de t = Err ETooLarge).
  Proof. exact (bound_symmetric Sel env_ser env_de). Qed.

  (* issuing succeeds exactly when the envelope can be written and its
     encoding is at most 512 bytes (envelope at most 384 bytes) ... *)
  Theorem C14_issue_iff : forall s t,
    serialize Sel env_ser s = Ok t <->
    exists bs, env_ser s = Some bs /\ t = b64_encode UrlSafe bs /\
               4 * ((slen bs + 2) / 3) <= MAX_TOKEN_LENGTH.
  Proof. exact (serialize_ok_iff Sel env_ser). Qed.

  Theorem C14_issue_small : forall s bs,
    env_ser s = Some bs -> slen bs <= 384 ->
    serialize Sel env_ser s = Ok (b64_encode UrlSafe bs).
  Proof. exact (serialize_ok_small Sel env_ser). Qed.

  Theorem C14_issue_too_large : forall s bs,
    env_ser s = Some bs -> 384 < slen bs -> serialize Sel env_ser s = Err ESerTooLarge.
  Proof. exact (serialize_too_large Sel env_ser). Qed.

  (* ... and a failure to issue is a 500 (the only 5xx in this model: it is on
     the issuing side, never caused by what a client sends) *)
  Theorem C14_issue_failure_500 : forall s e,
    serialize Sel env_ser s = Err e -> status_of e = 500.
  Proof. exact (serialize_failure_500 Sel env_ser). Qed.

  (* --- "a token that is over-long, not valid base64 or JSON, or of the wrong
         shape or version is refused": accepted iff length ok, decodes as
         canonical url-safe base64, and the bytes read as a V1 envelope --- *)
  Theorem C14_refusal_complete : forall t s,
    deserialize Sel env_de t = Ok s <->
    slen t <= MAX_TOKEN_LENGTH /\
    exists bs, b64_decode UrlSafe t = Some bs /\ env_de bs = Some (V1, s).
  Proof. exact (refusal_complete Sel env_de). Qed.

  Theorem C14_refusal_reasons : forall t,
    (MAX_TOKEN_LENGTH < slen t -> deserialize Sel env_de t = Err ETooLarge) /\
    (slen t <= MAX_TOKEN_LENGTH -> b64_decode UrlSafe t = None ->
     deserialize Sel env_de t = Err EBase64) /\
    (forall bs, slen t <= MAX_TOKEN_LENGTH -> b64_decode UrlSafe t = Some bs ->
                env_de bs = None -> deserialize Sel env_de t = Err ECorrupt) /\
    (forall bs s, slen t <= MAX_TOKEN_LENGTH -> b64_decode UrlSafe t = Some bs ->
                  env_de bs = Some (VOther, s) -> deserialize Sel env_de t = Err EVersion).
  Proof. exact (refusal_reasons Sel env_de). Qed.

  (* every byte-level mutation of a valid token that is accepted is itself the
     canonical encoding of a V1 envelope of at most 384 bytes *)
  Theorem C14_accepted_is_canonical : forall t s,
    deserialize Sel env_de t = Ok s ->
    exists bs, t = b64_encode UrlSafe bs /\ bytes_ok bs = true /\
               env_de bs = Some (V1, s) /\ slen bs <= 384.
  Proof. exact (accepted_is_canonical Sel env_de). Qed.

  (* --- "refused with a 400-level error, never a panic or 5xx": the decoder is
         total and each of its refusals, and each refusal of the whole
         parameter struct, maps to 400 --- *)
  Theorem C14_token_total_400 : forall t,
    (exists s, deserialize Sel env_de t = Ok s) \/
    (exists e, deserialize Sel env_de t = Err e /\ status_of e = 400).
  Proof. exact (deserialize_total_400 Sel env_de). Qed.

  Theorem C14_query_refusal_400 : forall kvs e,
    parse_params Sel Scan env_de scan_de kvs = Err e -> status_of e = 400.
  Proof. exact (parse_params_refusal_400 Sel Scan env_de scan_de). Qed.

  (* --- "When a token is present it alone determines the page and other scan
         parameters are ignored" --- *)
  Theorem C14_token_present_next : forall raw t,
    lookup_last K_PAGE_TOKEN raw = Some t ->
    deserialize_whichpage Sel Scan env_de scan_de raw =
    match deserialize Sel env_de t with Ok s => Ok (Next s) | Err e => Err e end.
  Proof. exact (token_present_next Sel Scan env_de scan_de). Qed.

  Theorem C14_params_token_alone_decides : forall kvs t p,
    lookup_last K_PAGE_TOKEN kvs = Some t ->
    parse_params Sel Scan env_de scan_de kvs = Ok p ->
    exists s, deserialize Sel env_de t = Ok s /\ pp_page p = Next s.
  Proof. exact (params_token_alone_decides Sel Scan env_de scan_de). Qed.

  Theorem C14_params_bad_token_refused : forall kvs t e,
    lookup_last K_PAGE_TOKEN kvs = Some t ->
    deserialize Sel env_de t = Err e ->
    exists e', parse_params Sel Scan env_de scan_de kvs = Err e' /\ status_of e' = 400.
  Proof. exact (params_bad_token_refused Sel Scan env_de scan_de). Qed.

  (* without a token the scan parameters decide *)
  Theorem C14_token_absent_first : forall raw,
    lookup_last K_PAGE_TOKEN raw = None ->
    deserialize_whichpage Sel Scan env_de scan_de raw =
    match scan_de raw with Some sp => Ok (First sp) | None => Err EScan end.
  Proof. exact (token_absent_first Sel Scan env_de scan_de). Qed.

  (* the limit a handler receives is the value of the single [limit] entry,
     between 1 and 2^32-1 *)
  Theorem C14_params_limit : forall kvs p,
    parse_params Sel Scan env_de scan_de kvs = Ok p ->
    match pp_limit p with
    | None => forall v, ~ In (K_LIMIT, v) kvs
    | Some l => exists pre v post, kvs = pre ++ (K_LIMIT, v) :: post /\
                                   parse_limit v = Ok l /\ 1 <= l /\ l <= U32_MAX
    end.
  Proof. exact (params_limit Sel Scan env_de scan_de). Qed.
End C14.

(* the same token decides the same page across requests and across consumers'
   scan-parameter readers *)
Theorem C14_token_alone_decides : forall Sel Scan env_de scan_de1 scan_de2 raw1 raw2 t,
  lookup_last K_PAGE_TOKEN raw1 = Some t ->
  lookup_last K_PAGE_TOKEN raw2 = Some t ->
  deserialize_whichpage Sel Scan env_de scan_de1 raw1 =
  deserialize_whichpage Sel Scan env_de scan_de2 raw2.
Proof. exact token_alone_decides. Qed.

(* the page_token a handler sees is the last one given (BTreeMap) *)
Theorem C14_lookup_last_spec : forall k kvs v,
  lookup_last k kvs = Some v <->
  exists pre post, kvs = pre ++ (k, v) :: post /\ lookup_last k post = None.
Proof. exact lookup_last_spec. Qed.

(* --- "The effective page size is the client's limit capped at the server
       maximum, the default when absent" --- *)
Theorem C14_limit_clamp_some : forall l max default,
  page_limit (Some l) max default = N.min l max.
Proof. exact page_limit_some. Qed.

Theorem C14_limit_clamp_none : forall max default, page_limit None max default = default.
Proof. exact page_limit_none. Qed.

Theorem C14_limit_clamp_range : forall lim max default,
  1 <= default -> default <= max -> (forall l, lim = Some l -> 1 <= l) ->
  1 <= page_limit lim max default /\ page_limit lim max default <= max.
Proof. exact page_limit_range. Qed.

(* --- "a zero, negative or non-numeric limit is refused": the accept set of
       limit strings, exactly --- *)
Theorem C14_limit_accepts_iff : forall s l,
  parse_limit s = Ok l <->
  exists ds, (s = ds \/ s = 43 :: ds) /\ ds <> [] /\
             forallb is_digit ds = true /\ dec_value ds = l /\ 1 <= l /\ l <= U32_MAX.
Proof. exact parse_limit_accepts_iff. Qed.

Theorem C14_u32_from_str_accepts_iff : forall s n,
  parse_u32 s = Some n <->
  exists ds, (s = ds \/ s = 43 :: ds) /\ ds <> [] /\
             forallb is_digit ds = true /\ dec_value ds = n /\ n <= U32_MAX.
Proof. exact parse_u32_spec. Qed.

Theorem C14_limit_zero_refused : forall s ds,
  (s = ds \/ s = 43 :: ds) -> forallb is_digit ds = true -> dec_value ds = 0 ->
  exists e, parse_limit s = Err e /\ status_of e = 400.
Proof. exact limit_zero_refused. Qed.

Theorem C14_limit_negative_refused : forall r,
  exists e, parse_limit (45 :: r) = Err e /\ status_of e = 400.
Proof. exact limit_negative_refused. Qed.

Theorem C14_limit_non_numeric_refused : forall s,
  (forall ds, (s = ds \/ s = 43 :: ds) -> forallb is_digit ds = false) ->
  exists e, parse_limit s = Err e /\ status_of e = 400.
Proof. exact limit_non_numeric_refused. Qed.

Theorem C14_limit_overflow_refused : forall s ds,
  (s = ds \/ s = 43 :: ds) -> forallb is_digit ds = true -> U32_MAX < dec_value ds ->
  exists e, parse_limit s = Err e /\ status_of e = 400.
Proof. exact limit_overflow_refused. Qed.

Theorem C14_limit_refusal_400 : forall s e, parse_limit s = Err e -> status_of e = 400.
Proof. exact parse_limit_refusal_400. Qed.

(* --- base64 layer (Base64Proofs.v), restated for the url-safe engine --- *)
Theorem C14_b64_round_trip : forall bs,
  bytes_ok bs = true -> b64_decode UrlSafe (b64_encode UrlSafe bs) = Some bs.
Proof. exact (b64_round_trip UrlSafe). Qed.

Theorem C14_b64_canonical : forall t bs,
  b64_decode UrlSafe t = Some bs -> t = b64_encode UrlSafe bs /\ bytes_ok bs = true.
Proof. exact (b64_canonical UrlSafe). Qed.

Theorem C14_b64_length : forall bs,
  N.of_nat (length (b64_encode UrlSafe bs)) = 4 * ((N.of_nat (length bs) + 2) / 3).
Proof. exact (b64_length UrlSafe). Qed.

(* ---------- non-vacuity ---------- *)

(* a concrete envelope codec satisfying the contract: selectors are bytes *)
Definition ex_ser (k : N) : option (list N) := if k <? 256 then Some [123; k; 125] else None.
Definition ex_de (bs : list N) : option (pag_version * N) :=
  match bs with
  | [123; k; 125] => Some (V1, k)
  | [91; k; 93] => Some (VOther, k)
  | _ => None
  end.

Example C14_contract_satisfiable :
  (forall s bs, ex_ser s = Some bs -> ex_de bs = Some (V1, s)) /\
  (forall s bs, ex_ser s = Some bs -> bytes_ok bs = true).
Proof.
  unfold ex_ser. split; intros s bs; destruct (N.ltb_spec s 256); try discriminate;
    intros [= <-]; [reflexivity|].
  cbn [bytes_ok forallb]. unfold byte_ok. lia.
Qed.

Example C14_round_trip_instance :
  serialize N ex_ser 7 = Ok [101; 119; 100; 57] /\               (* "ewd9" *)
  deserialize N ex_de [101; 119; 100; 57] = Ok 7 /\
  serialize N ex_ser 300 = Err ESerJson /\
  (* wrong version / not base64 / trailing bits / standard alphabet / truncated *)
  deserialize N ex_de (b64_encode UrlSafe [91; 7; 93]) = Err EVersion /\
  deserialize N ex_de (b64_encode UrlSafe [123; 7]) = Err ECorrupt /\
  deserialize N ex_de [101; 119; 100; 33] = Err EBase64 /\
  deserialize N ex_de [101; 119; 100] = Err EBase64 /\
  deserialize N ex_de [] = Err ECorrupt /\
  deserialize N ex_de (repeat 65 513) = Err ETooLarge /\
  deserialize N ex_de (repeat 65 512) = Err ECorrupt.
Proof. vm_compute. repeat split. Qed.

Example C14_limit_instances :
  parse_limit [49] = Ok 1 /\                                     (* "1" *)
  parse_limit [43; 53] = Ok 5 /\                                 (* "+5" *)
  parse_limit [48; 49] = Ok 1 /\                                 (* "01" *)
  parse_limit [52;50;57;52;57;54;55;50;57;53] = Ok 4294967295 /\
  parse_limit [52;50;57;52;57;54;55;50;57;54] = Err ELimitSyntax /\  (* 2^32 *)
  parse_limit [48] = Err ELimitZero /\                           (* "0" *)
  parse_limit [45; 49] = Err ELimitSyntax /\                     (* "-1" *)
  parse_limit [] = Err ELimitSyntax /\
  parse_limit [32; 49] = Err ELimitSyntax /\                     (* " 1" *)
  parse_limit [49; 101; 51] = Err ELimitSyntax /\                (* "1e3" *)
  parse_limit [43] = Err ELimitSyntax /\                         (* "+" *)
  parse_limit [43; 43; 49] = Err ELimitSyntax /\                 (* "++1" *)
  page_limit (Some 20000) 10000 100 = 10000 /\
  page_limit (Some 7) 10000 100 = 7 /\
  page_limit None 10000 100 = 100.
Proof. vm_compute. repeat split. Qed.

Example C14_query_instances :
  let K_A := [97] in
  let sd := fun raw : list (str * str) => lookup_last K_A raw in
  (* token present: scan parameters (missing here) are not consulted *)
  (exists p, parse_params N str ex_de sd [(K_PAGE_TOKEN, [101;119;100;57]); (K_LIMIT, [51])] = Ok p
             /\ pp_page p = Next 7 /\ pp_limit p = Some 3) /\
  (* last page_token wins *)
  (exists p, parse_params N str ex_de sd [(K_PAGE_TOKEN, [33]); (K_A, [120]); (K_PAGE_TOKEN, [101;119;100;57])] = Ok p
             /\ pp_page p = Next 7 /\ pp_limit p = None) /\
  parse_params N str ex_de sd [(K_PAGE_TOKEN, [101;119;100;57]); (K_PAGE_TOKEN, [33])] = Err EBase64 /\
  (* no token: scan parameters decide *)
  (exists p, parse_params N str ex_de sd [(K_A, [120])] = Ok p /\ pp_page p = First [120]) /\
  parse_params N str ex_de sd [] = Err EScan /\
  parse_params N str ex_de sd [(K_A, [120]); (K_LIMIT, [49]); (K_LIMIT, [49])] = Err ELimitDup /\
  parse_params N str ex_de sd [(K_A, [120]); (K_LIMIT, [48])] = Err ELimitZero.
Proof. vm_compute. repeat split; eexists; repeat split. Qed.

Print Assumptions C14_token_round_trip.
Print Assumptions C14_issued_token_selects_page.
Print Assumptions C14_bound_symmetric.
Print Assumptions C14_issue_iff.
Print Assumptions C14_issue_small.
Print Assumptions C14_issue_too_large.
Print Assumptions C14_issue_failure_500.
Print Assumptions C14_refusal_complete.
Print Assumptions C14_refusal_reasons.
Print Assumptions C14_accepted_is_canonical.
Print Assumptions C14_token_total_400.
Print Assumptions C14_query_refusal_400.
Print Assumptions C14_token_present_next.
Print Assumptions C14_params_token_alone_decides.
Print Assumptions C14_params_bad_token_refused.
Print Assumptions C14_token_absent_first.
Print Assumptions C14_params_limit.
Print Assumptions C14_token_alone_decides.
Print Assumptions C14_lookup_last_spec.
Print Assumptions C14_limit_clamp_some.
Print Assumptions C14_limit_clamp_none.
Print Assumptions C14_limit_clamp_range.
Print Assumptions C14_limit_accepts_iff.
Print Assumptions C14_u32_from_str_accepts_iff.
Print Assumptions C14_limit_zero_refused.
Print Assumptions C14_limit_negative_refused.
Print Assumptions C14_limit_non_numeric_refused.
Print Assumptions C14_limit_overflow_refused.
Print Assumptions C14_limit_refusal_400.
Print Assumptions C14_b64_round_trip.
Print Assumptions C14_b64_canonical.
Print Assumptions C14_b64_length.
