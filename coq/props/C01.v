(* C01 — Every request is dispatched to the one endpoint registered for it.
   Statements only; each closed by [exact] of a lemma proved in
   theories/RouterProofs.v.  [build eps] is registration of the declarations
   [eps] one after the other (Router.v: the trie of router.rs); [lookup] the
   trie walk of lookup_route; [serves]/[tmatch] the declarative reading of a
   declaration (RouterSpec.v: method equal, template matches, version in
   range). *)
From DS Require Import Base Versions VersionsProofs Router RouterSpec RouterProofs Pct PathNorm Route RouteProofs Pipeline PipelineProofs VersionsEmbed RankEmbed RouterEmbed PipelineEmbed.
From Coq Require Import Permutation.

Section C01.
  Variable V : Type.
  Variable cmp : V -> V -> comparison.
  Variable bot : V.
  Hypothesis TO : total_order V cmp bot.

  (* 1. a request is handled by endpoint e, with variables vars, exactly when
     e is a registered endpoint whose method, template and version range match
     the request and vars are the template's bindings *)
  Theorem C01_dispatch_exact : forall (eps : list (decl V)) r m segs v e vars,
    build V cmp eps = Ok r -> version_ok V cmp eps v ->
    (lookup V cmp r m segs v = Found e vars <->
     exists t b, In (t, e) eps /\ serves V cmp (t, e) m segs v = Some b /\ vars = bm_of b).
  Proof. exact (dispatch_exact V cmp bot TO). Qed.

  (* 2. ... and by no other: no request matches two registered endpoints *)
  Theorem C01_dispatch_unique : forall (eps : list (decl V)) d1 d2 m segs v b1 b2,
    table_ok V cmp eps -> version_ok V cmp eps v ->
    In d1 eps -> In d2 eps ->
    serves V cmp d1 m segs v = Some b1 -> serves V cmp d2 m segs v = Some b2 -> d1 = d2.
  Proof. exact (dispatch_unique V cmp bot TO). Qed.

  (* 3. each path variable equals the corresponding request segment; a
     trailing wildcard receives all remaining segments (possibly none); the
     handler gets exactly the template's variables *)
  Theorem C01_bindings_keys : forall t segs b, tmatch t segs = Some b -> map fst b = vars_of t.
  Proof. exact tmatch_keys. Qed.

  Theorem C01_bindings_values : forall t segs b i x,
    tmatch t segs = Some b ->
    (nth_error t i = Some (PVar x) -> exists s, nth_error segs i = Some s /\ In (x, Single s) b) /\
    (nth_error t i = Some (PWild x) -> In (x, Multi (skipn i segs)) b) /\
    (forall a, nth_error t i = Some (PLit a) -> nth_error segs i = Some a).
  Proof. exact tmatch_values. Qed.

  (* 4. the outcome depends only on the set of registered endpoints and the
     request, never on the order of registration *)
  Theorem C01_order_irrelevant_accept : forall eps eps' : list (decl V),
    Permutation eps eps' -> is_ok (build V cmp eps) = is_ok (build V cmp eps').
  Proof. exact (order_irrelevant_accept V cmp). Qed.

  Theorem C01_order_irrelevant_lookup : forall (eps eps' : list (decl V)) r r' m segs v,
    Permutation eps eps' -> build V cmp eps = Ok r -> build V cmp eps' = Ok r' ->
    version_ok V cmp eps v ->
    lookup V cmp r m segs v = lookup V cmp r' m segs v.
  Proof. exact (order_irrelevant_lookup V cmp bot TO). Qed.

  (* the trie built by registration stands for exactly the declared table *)
  Theorem C01_trie_is_table : forall eps : list (decl V),
    match build V cmp eps with
    | Ok r => table_ok V cmp eps /\ wfn V r /\ (forall d, In d (routes V r) <-> In d eps)
    | Err _ => ~ table_ok V cmp eps
    end.
  Proof. exact (build_spec V cmp). Qed.

  (* the internal assertions of lookup_route never fire on a registered table *)
  Theorem C01_lookup_never_panics : forall (r : node V) m segs v,
    wfn V r -> lookup V cmp r m segs v <> EPanic.
  Proof. exact (lookup_no_panic V cmp). Qed.

  (* 5. end to end, from the raw request path: the endpoint found is a
     declared one that serves the once-percent-decoded pieces between the
     slashes of the path, and its variables are those decoded pieces; a path
     that fails normalisation (C03) reaches no handler *)
  Theorem C01_route_end_to_end : forall (eps : list (decl V)) r m rawpath v e vars,
    build V cmp eps = Ok r -> version_ok V cmp eps v ->
    (route V cmp r m rawpath v = RLookup (Found e vars) <->
     exists t b, In (t, e) eps /\
                 input_segments rawpath = Ok (map pct_decode (raw_segments rawpath)) /\
                 serves V cmp (t, e) m (map pct_decode (raw_segments rawpath)) v = Some b /\
                 vars = bm_of b).
  Proof. exact (route_end_to_end V cmp bot TO). Qed.

  (* 6. through the whole request pipeline (Pipeline.v: version policy, path
     normalisation, trie): the handler of e runs with variables vars exactly
     when the policy yields a version for the request, the raw path normalises,
     and e is the declaration serving the decoded segments under the request's
     method at that version *)
  Theorem C01_pipeline_invoke_iff : forall (parse : str -> option V) (p : policy V) (eps : list (decl V)) r
                                           m rawpath h e vars ov,
    build V cmp eps = Ok r ->
    (forall d, In d eps -> wf_range V cmp (e_versions (snd d))) ->
    starts V p eps = true ->
    (handle V cmp parse p r m rawpath h = HInvoke e vars ov <->
     request_version V cmp parse p h = Ok ov /\
     exists t b, In (t, e) eps /\
                 input_segments rawpath = Ok (map pct_decode (raw_segments rawpath)) /\
                 serves V cmp (t, e) m (map pct_decode (raw_segments rawpath)) ov = Some b /\
                 vars = bm_of b).
  Proof. exact (handle_invoke_iff V cmp bot TO). Qed.

  Theorem C01_pipeline_never_panics : forall (parse : str -> option V) (p : policy V) (eps : list (decl V)) r m rawpath h,
    build V cmp eps = Ok r -> handle V cmp parse p r m rawpath h <> HPanic.
  Proof. exact (handle_no_panic V cmp). Qed.
End C01.

(* 7. the router and the whole pipeline see versions only through comparisons
   with range bounds and the policy's maximum: under any map of the version
   type that preserves the comparisons involving a known version (every bound
   known), registration of the mapped table succeeds iff registration of the
   table does, every lookup has the corresponding outcome (same endpoint and
   bindings, same 404, same 405 with the same Allow list), and the pipeline
   commutes with the map.  Instance: ranking semver against a chain that holds
   every bound — what the correspondence relies on when it carries chain
   indices / ranks instead of semver values. *)
Theorem C01_registration_invariant : forall V W cmpV cmpW (f : V -> W) (P : V -> Prop),
  (forall a b, P a \/ P b -> cmpW (f a) (f b) = cmpV a b) ->
  forall eps, known V P eps ->
  ((exists r, build V cmpV eps = Ok r) <-> (exists r', build W cmpW (map (map_decl V W f) eps) = Ok r')).
Proof. exact build_embed_accepts. Qed.

Theorem C01_lookup_invariant : forall V W cmpV cmpW botV botW,
  total_order V cmpV botV -> total_order W cmpW botW ->
  forall (f : V -> W) (P : V -> Prop), (forall a b, P a \/ P b -> cmpW (f a) (f b) = cmpV a b) ->
  forall eps r r', known V P eps -> build V cmpV eps = Ok r -> build W cmpW (map (map_decl V W f) eps) = Ok r' ->
  forall m segs ov, version_ok V cmpV eps ov ->
  lookup W cmpW r' m segs (option_map f ov) = map_outcome V W f (lookup V cmpV r m segs ov).
Proof. exact lookup_embed. Qed.

Theorem C01_pipeline_by_rank : forall V cmp bot, total_order V cmp bot ->
  forall (chain : list V) (parse : str -> option V) (p : policy V) (eps : list (decl V)) r r' m rawpath h,
  known V (fun v => In v chain) eps -> policy_known V (fun v => In v chain) p ->
  (forall d, In d eps -> wf_range V cmp (e_versions (snd d))) ->
  starts V p eps = true ->
  build V cmp eps = Ok r -> build N N.compare (map (map_decl V N (rank V cmp chain)) eps) = Ok r' ->
  handle N N.compare (fun s => option_map (rank V cmp chain) (parse s)) (map_policy V N (rank V cmp chain) p) r' m rawpath h =
  map_handled V N (rank V cmp chain) (handle V cmp parse p r m rawpath h).
Proof. exact handle_by_rank. Qed.

(* non-vacuity: a table with siblings, a variable chain, a wildcard and three
   version ranges on one path is accepted and exercises every outcome *)
Definition ex_ep (id m : str) (r : vrange N) : endpoint N := mkEp id m r 0 None true.
Definition GET : str := [71;69;84].
Definition PUT : str := [80;85;84].
Definition ex_table : list (decl N) :=
  [ ([PLit [97]; PVar [120]], ex_ep [49] GET (VUntil 2));
    ([PLit [97]; PVar [120]], ex_ep [50] GET (VFromUntil 2 4));
    ([PLit [97]; PVar [120]], ex_ep [51] PUT (VFrom 4));
    ([PLit [97]; PVar [120]; PLit [98]], ex_ep [52] GET VAll);
    ([PLit [102]; PWild [112]], ex_ep [53] GET VAll) ].

Example C01_nonvacuous :
  match build N N.compare ex_table with
  | Ok r =>
      (match lookup N N.compare r GET [[97];[122]] (Some 3) with Found e v => e_id e = [50] /\ v = [([120], Single [122])] | _ => False end) /\
      (match lookup N N.compare r GET [[102]] (Some 0) with Found e v => e_id e = [53] /\ v = [([112], Multi [])] | _ => False end) /\
      (match lookup N N.compare r GET [[102];[1];[2]] (Some 9) with Found e v => v = [([112], Multi [[1];[2]])] | _ => False end) /\
      lookup N N.compare r GET [[97];[122]] (Some 5) = E405 [PUT] /\
      lookup N N.compare r GET [[98]] (Some 5) = E404
  | Err _ => False
  end.
Proof. vm_compute. repeat split. Qed.

Example C01_version_ok_nonvacuous : version_ok N N.compare ex_table (Some 3).
Proof. split; [|exact I]. intros d Hd. cbn in Hd.
  repeat (destruct Hd as [<-|Hd]; [cbn; try exact I; discriminate|]). destruct Hd. Qed.

(* non-vacuity for the pipeline: the header policy with maximum 5 over the
   table above (a one-digit toy version syntax), every outcome *)
Definition toy_parse (s : str) : option N :=
  match s with [d] => if (48 <=? d) && (d <=? 57) then Some (d - 48) else None | _ => None end.
Example C01_pipeline_nonvacuous :
  match build N N.compare ex_table with
  | Ok r =>
      let h := handle N N.compare toy_parse (PHeader 5) r in
      (match h GET [47;97;47;122] (HStr [51]) with
       | HInvoke e v ov => e_id e = [50] /\ v = [([120], Single [122])] /\ ov = Some 3 | _ => False end) /\
      (match h GET [47;97;47;37;55;65] (HStr [48]) with           (* /a/%7A at version 0 *)
       | HInvoke e v ov => e_id e = [49] /\ v = [([120], Single [122])] | _ => False end) /\
      h GET [47;97;47;122] (HStr [55]) = HBadVersion /\             (* newer than the maximum *)
      h GET [47;110;111] HAbsent = HBadVersion /\                   (* no header, although the path does not exist *)
      h GET [47;97;47;122] (HStr [120]) = HBadVersion /\
      h GET [47;97;47;37;50;101;37;50;101] (HStr [51]) = HBadPath /\  (* /a/%2e%2e *)
      h GET [47;97;47;122] (HStr [53]) = HNotAllowed [PUT] /\
      h GET [47;98] (HStr [53]) = HNotFound /\
      starts N (PHeader 5) ex_table = true /\ starts N PUnversioned ex_table = false
  | Err _ => False
  end.
Proof. vm_compute. repeat split. Qed.

Print Assumptions C01_dispatch_exact.
Print Assumptions C01_dispatch_unique.
Print Assumptions C01_bindings_keys.
Print Assumptions C01_bindings_values.
Print Assumptions C01_order_irrelevant_accept.
Print Assumptions C01_order_irrelevant_lookup.
Print Assumptions C01_trie_is_table.
Print Assumptions C01_lookup_never_panics.
Print Assumptions C01_route_end_to_end.
Print Assumptions C01_pipeline_invoke_iff.
Print Assumptions C01_pipeline_never_panics.
Print Assumptions C01_registration_invariant.
Print Assumptions C01_lookup_invariant.
Print Assumptions C01_pipeline_by_rank.
