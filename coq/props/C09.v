(* C09 — Handlers receive exactly what the client sent.
   Statements only; each closed by [exact] of a lemma proved in theories/.
   Model: Scalars.v (Rust FromStr/Display), Query.v (form_urlencoded),
   Extract.v (from_map.rs, http_util.rs, extractor/{path,query,body}.rs,
   handler.rs; mime/multer boundary parsing).  serde_json and multer's body
   parser enter as Section variables (library contracts). *)
From DS Require Import Base Utf8 Pct PctProofs Scalars ScalarsProofs Query QueryProofs
     Extract ExtractProofs.

(* ---- clause 1: scalar values survive print-then-parse; what is accepted is
   a value of the type ---- *)

(* every value of every integer width (in range), bool, char (any Unicode
   scalar value, as UTF-8), String, unit-variant enum *)
Theorem C09_scalar_round_trip : forall ty v,
  sval_ok ty v = true -> parse_scalar ty (print_scalar v) = Some v.
Proof. exact scalar_round_trip. Qed.

Theorem C09_parse_scalar_sound : forall ty s v,
  parse_scalar ty s = Some v -> sval_ok ty v = true.
Proof. exact parse_scalar_sound. Qed.

(* the accepted integer spellings are exactly [+-]?digits+ with the value in
   range ('-' for signed types only) *)
Theorem C09_int_accept_set : forall sg bits s z,
  parse_int sg bits s = Some z <-> int_literal sg bits s z.
Proof. exact parse_int_accepts. Qed.

Theorem C09_char_accept_set : forall s c,
  parse_char s = Some c <-> is_scalar c = true /\ s = utf8_encode c.
Proof. exact parse_char_accepts. Qed.

Theorem C09_bool_accept_set : forall s b, parse_bool s = Some b <-> s = print_bool b.
Proof. exact parse_bool_accepts. Qed.

Theorem C09_char_encoding_is_utf8 : forall c, is_scalar c = true -> utf8_valid (utf8_encode c) = true.
Proof. exact utf8_encode_valid. Qed.

(* f32 / f64 (parsed by [parse_f32] / [parse_f64], outside the [sty] universe):
   CORRECT ROUNDING.  For a positive decimal num/den the significand m and
   exponent k the parser settles on satisfy: A/B is exactly (num/den)/2^k; m is
   the integer nearest to A/B, ties to the even one; and k is the exponent of
   the binade of num/den (2^(p-1) <= m <= 2^p) or the least exponent of the
   format (subnormals).  The bit pattern is (k - emin) * 2^(p-1) + m, saturated
   at infinity.  (Not proved: the grammar's agreement with dec2flt::parse and
   parse (print v) = v; both are compared on every run.) *)
Theorem C09_float_nearest_ties_to_even : forall fm num den,
  (0 < num)%Z -> (0 < den)%Z -> (1 <= f_p fm)%Z ->
  let '(k, A, B) := scaled fm num den in
  let m := rne A B in
  (0 <= A)%Z /\ (0 < B)%Z /\
  (if (0 <=? k)%Z then A = num /\ B = (den * 2 ^ k)%Z else A = (num * 2 ^ (- k))%Z /\ B = den) /\
  (2 * Z.abs (A - m * B) <= B)%Z /\ ((2 * Z.abs (A - m * B))%Z = B -> Z.even m = true) /\
  (k = f_emin fm \/ (2 ^ (f_p fm - 1) <= m <= 2 ^ f_p fm)%Z).
Proof. exact round_ratio_correct. Qed.

Theorem C09_float_bits : forall fm num den,
  round_ratio fm num den =
  let '(k, A, B) := scaled fm num den in
  Z.min ((k - f_emin fm) * 2 ^ (f_p fm - 1) + rne A B) ((2 ^ f_w fm - 1) * 2 ^ (f_p fm - 1)).
Proof. exact round_ratio_scaled. Qed.

(* ---- clause 2: path segments ---- *)

(* any legal percent-encoding of any deliverable text is decoded back to it *)
Theorem C09_segment_decoded : forall s e,
  seg_enc s e -> deliverable s -> decode_segment e = Ok s.
Proof. exact decode_segment_enc. Qed.

(* every field of a path struct equals what the client encoded at its
   variable's position *)
Theorem C09_path_value_delivered : forall sp ws vals,
  wf_spec sp = true ->
  names_distinct (map fst ws) = true ->
  (forall x w, In (x, w) ws -> assoc x sp <> None) ->
  Forall2 (fun f v => exists w, assoc (fst f) ws = Some w /\ wire_delivers (snd f) v w) sp vals ->
  extract_path sp ws = Ok vals.
Proof. exact path_value_delivered. Qed.

(* a wildcard variable of type Vec<T> (T: String, unit enum, Uuid, char ..):
   delivered iff EVERY decoded segment parses as a T, and then the handler's
   Vec is exactly the list of parsed elements - same order, same count *)
Theorem C09_typed_sequence_delivered_iff : forall t l xs,
  from_map_elems t l = Ok xs <-> Forall2 (fun s x => parse_scalar t s = Some x) l xs.
Proof. exact from_map_elems_ok_iff. Qed.

(* any UTF-8 string other than "", "." and ".." reaches a String variable *)
Theorem C09_path_string_delivered : forall x s,
  deliverable s ->
  extract_path [(x, KScalar TStr PReq)] [(x, WOne (pct_encode s))] = Ok [FvOne (VStr s)].
Proof. exact path_string_delivered_pct. Qed.

Theorem C09_path_typed_delivered : forall name t x,
  sval_ok t x = true -> deliverable (print_scalar x) ->
  extract_path [(name, KScalar t PReq)] [(name, WOne (pct_encode (print_scalar x)))]
  = Ok [FvOne x].
Proof. exact path_typed_delivered. Qed.

(* numbers and booleans always print to deliverable text; a char does unless
   it is '.' (a dot segment, refused by design: C03) *)
Theorem C09_print_int_deliverable : forall z, deliverable (print_int z).
Proof. exact print_int_deliverable. Qed.
Theorem C09_print_char_deliverable : forall c,
  is_scalar c = true -> c <> 46 -> deliverable (utf8_encode c).
Proof. exact utf8_encode_deliverable. Qed.

(* ---- clause 3: query strings ---- *)

(* parsing inverts EVERY legal encoding of a list of name/value strings *)
Theorem C09_form_parse_inverts_every_encoding : forall kvs e,
  query_enc kvs e -> Forall kv_valid kvs -> form_parse e = kvs.
Proof. exact form_parse_enc. Qed.

Theorem C09_form_round_trip : forall kvs,
  Forall kv_valid kvs -> form_parse (form_encode kvs) = kvs.
Proof. exact form_parse_encode. Qed.

(* lossy UTF-8 decoding never alters well-formed text *)
Theorem C09_lossy_is_identity_on_utf8 : forall s, utf8_valid s = true -> utf8_lossy s = s.
Proof. exact utf8_lossy_valid. Qed.

(* whatever legal encoding of whatever list of pairs carrying the fields: any
   order, unknown names, absent Options, omitted defaults *)
Theorem C09_extract_query_delivered : forall sp entries vals e,
  wf_spec sp = true -> names_distinct (map fst entries) = true ->
  Forall kv_valid entries -> query_enc entries e ->
  Forall2 (fun f v => q_delivers (snd f) v (assoc (fst f) entries)) sp vals ->
  extract_query sp (Some e) = Ok vals.
Proof. exact extract_query_delivered. Qed.

(* the canonical client, fields of 128-bit integer type excluded (K-Q128) *)
Theorem C09_extract_query_client : forall sp vals,
  wf_spec sp = true -> Forall2 (fun f v => q_typed (snd f) v) sp vals ->
  Forall kv_valid (client_fields sp vals) ->
  extract_query sp (Some (form_encode (client_fields sp vals))) = Ok vals.
Proof. exact extract_query_client. Qed.

(* the full-strength statement, kept visible: false because of K-Q128 *)
Definition C09_extract_query_full_statement : Prop := extract_query_client_full_statement.
Theorem C09_K_Q128_refuted : ~ C09_extract_query_full_statement.
Proof. exact extract_query_client_refuted. Qed.
Theorem C09_K_Q128_every_value_refused : forall sp q k s t p,
  wf_spec sp = true -> In (k, s) (form_parse q) -> assoc k sp = Some (KScalar t p) ->
  is_128 t = true -> exists e, extract_query sp (Some q) = Err e.
Proof. exact query_128_always_refused. Qed.

(* ---- clause 4: bodies, for every chunking and every content-type spelling ---- *)

Theorem C09_chunking_irrelevant : forall cap frames,
  buffer_body cap frames =
  if total frames <=? cap then Ok (concat frames) else Err XBodyTooLarge.
Proof. exact buffer_body_spec. Qed.

Theorem C09_raw_body_delivered : forall cap frames,
  total frames <= cap ->
  extract_untyped_body cap frames = Ok (concat frames) /\
  stream_yield cap 0 frames = (frames, true).
Proof. exact raw_body_delivered. Qed.

Section C09_typed_bodies.
  (* LIBRARY CONTRACT (serde_json for the endpoint's body type) *)
  Variable V : Type.
  Variable json_de : str -> option V.
  Variable json_ser : V -> str.
  Hypothesis json_round_trip : forall v, json_de (json_ser v) = Some v.

  Theorem C09_json_body_delivered : forall sp h cap frames v,
    (h = HAbsent \/ exists ct, h = HVal ct /\ ct_spelling CT_JSON ct) ->
    concat frames = json_ser v -> total frames <= cap ->
    extract_typed_body json_de CtJson sp h cap frames = Ok (TJson v).
  Proof. exact (json_body_delivered V json_de json_ser json_round_trip). Qed.

  Theorem C09_form_body_delivered : forall sp ct cap frames entries vals,
    ct_spelling CT_FORM ct ->
    wf_spec sp = true -> names_distinct (map fst entries) = true ->
    Forall kv_valid entries -> query_enc entries (concat frames) ->
    Forall2 (fun f v => q_delivers (snd f) v (assoc (fst f) entries)) sp vals ->
    total frames <= cap ->
    extract_typed_body json_de CtForm sp (HVal ct) cap frames = Ok (TForm vals).
  Proof. exact (form_body_delivered V json_de). Qed.
End C09_typed_bodies.

(* ---- clause 5: the multipart boundary ---- *)

(* the media-type parser behind multer::parse_boundary, on a header in
   normalised form ("; " before every parameter) *)
Theorem C09_multipart_boundary_normalised : forall T S ps b,
  str_lower T = S_MULTIPART -> str_lower S = S_FORM_DATA ->
  Forall cparam_ok ps ->
  assoc S_BOUNDARY (map (fun p => (str_lower (cp_name p), cp_value p)) ps) = Some b ->
  parse_boundary (T ++ 47 :: S ++ render_params ps) = BOk b.
Proof. exact multipart_boundary. Qed.

(* full strength: any letter case of the media type and of the parameter
   names; optional blanks (SP / HTAB, RFC 9110 OWS) before and after every ';'
   and at the end; values as token or quoted-string; the boundary parameter
   before or after any others *)
Theorem C09_multipart_boundary : forall T S h0 os b,
  str_lower T = S_MULTIPART -> str_lower S = S_FORM_DATA ->
  forallb blank h0 = true -> Forall oparam_ok os ->
  assoc S_BOUNDARY (map (fun o => (str_lower (cp_name (snd (fst o))), cp_value (snd (fst o)))) os) = Some b ->
  header_is_str (T ++ 47 :: S ++ h0 ++ render_ows os) = true ->
  extract_multipart (HVal (T ++ 47 :: S ++ h0 ++ render_ows os)) = Ok b.
Proof. exact multipart_boundary_extracted. Qed.

(* ---- clause 6: isolation ---- *)

Section C09_isolation.
  Variables Req Args Resp : Type.
  Variable extract : Req -> res xerr Args.
  Variable handler : Args -> Resp.
  Variable respond_err : xerr -> Resp.

  (* frame property: the fate of request q under any schedule depends on q's
     own stage and on how often q was scheduled only *)
  Theorem C09_isolation : forall q sched sched' st st',
    lookup Req Args Resp q st = lookup Req Args Resp q st' ->
    count q sched = count q sched' ->
    lookup Req Args Resp q (run Req Args Resp extract handler respond_err sched st)
    = lookup Req Args Resp q (run Req Args Resp extract handler respond_err sched' st').
  Proof. exact (isolation Req Args Resp extract handler respond_err). Qed.

  Theorem C09_handler_sees_own_request : forall q sched reqs s a,
    lookup Req Args Resp q
           (run Req Args Resp extract handler respond_err sched (init Req Args Resp reqs)) = Some s ->
    delivered Req Args Resp s = Some a ->
    exists r, In (q, r) reqs /\ extract r = Ok a.
  Proof. exact (handler_sees_own_request Req Args Resp extract handler respond_err). Qed.
End C09_isolation.

Theorem C09_request_info_own : forall r,
  ri_method (request_info_of r) = rq_method r /\ ri_uri (request_info_of r) = rq_target r /\
  ri_headers (request_info_of r) = rq_headers r /\ ri_peer (request_info_of r) = rq_peer r.
Proof. exact request_info_own. Qed.

(* ---- non-vacuity: the hypotheses are satisfiable and the model computes ---- *)

(* "/a%20b+%C3%A9" delivers "a b+é" to a String variable *)
Example C09_ex_path :
  extract_path [([115], KScalar TStr PReq)] [([115], WOne [97; 37; 50; 48; 98; 43; 37; 67; 51; 37; 65; 57])]
  = Ok [FvOne (VStr [97; 32; 98; 43; 195; 169])].
Proof. vm_compute. reflexivity. Qed.

(* /colors/Red/dark-blue/green for {rest: Vec<Color>}; a uuid in two spellings *)
Example C09_ex_typed_wildcard :
  let colors := [[82;101;100]; [103;114;101;101;110]; [100;97;114;107;45;98;108;117;101]] in
  extract_path [([114], KSeq (TEnum colors))]
               [([114], WMany [[82;101;100]; [100;97;114;107;37;50;68;98;108;117;101]; [103;114;101;101;110]])]
  = Ok [FvSeq [VEnum [82;101;100]; VEnum [100;97;114;107;45;98;108;117;101]; VEnum [103;114;101;101;110]]] /\
  parse_uuid [48;48;49;49;50;50;51;51;45;52;52;53;53;45;54;54;55;55;45;56;56;57;57;45;65;65;66;66;67;67;68;68;69;69;70;70]
  = Some [0;17;34;51;68;85;102;119;136;153;170;187;204;221;238;255] /\
  parse_uuid [123;48;48;49;49;50;50;51;51;45;52;52;53;53;45;54;54;55;55;45;56;56;57;57;45;97;97;98;98;99;99;100;100;101;101;102;102;125]
  = Some [0;17;34;51;68;85;102;119;136;153;170;187;204;221;238;255] /\
  print_uuid [0;17;34;51;68;85;102;119;136;153;170;187;204;221;238;255]
  = [48;48;49;49;50;50;51;51;45;52;52;53;53;45;54;54;55;55;45;56;56;57;57;45;97;97;98;98;99;99;100;100;101;101;102;102].
Proof. vm_compute. repeat split. Qed.

(* f32: 1.0; the tie 16777217 -> 16777216 (even); just above the midpoint between 1 and 1+2^-23
   (1.000000059604644775390625000000000001) -> 1+2^-23, the double-rounding trap; -0.0; 1e-45; 4e38 -> inf;
   f64: 0.1 *)
Example C09_ex_floats :
  parse_f32 [49;46;48] = Some 1065353216%N /\
  parse_f32 [49;54;55;55;55;50;49;55] = Some 1266679808%N /\
  parse_f32 [49;46;48;48;48;48;48;48;48;53;57;54;48;52;54;52;52;55;55;53;51;57;48;54;50;53;
             48;48;48;48;48;48;48;48;48;48;48;49] = Some 1065353217%N /\
  parse_f32 [49;46;48;48;48;48;48;48;48;53;57;54;48;52;54;52;52;55;55;53;51;57;48;54;50;53] = Some 1065353216%N /\
  parse_f32 [45;48;46;48] = Some 2147483648%N /\
  parse_f32 [49;101;45;52;53] = Some 1%N /\
  parse_f32 [52;101;51;56] = Some 2139095040%N /\
  parse_f64 [48;46;49] = Some 4591870180066957722%N /\
  parse_f32 [46] = None /\ parse_f32 [49;101] = None.
Proof. vm_compute. repeat split. Qed.

(* u8 extremes and one past; "+255", "0255" accepted; "-0" refused for u8, accepted for i8 *)
Example C09_ex_ints :
  parse_int false 8 [50; 53; 53] = Some 255%Z /\ parse_int false 8 [50; 53; 54] = None /\
  parse_int false 8 [43; 50; 53; 53] = Some 255%Z /\ parse_int false 8 [48; 50; 53; 53] = Some 255%Z /\
  parse_int false 8 [45; 48] = None /\ parse_int true 8 [45; 48] = Some 0%Z /\
  parse_int true 8 [45; 49; 50; 56] = Some (-128)%Z /\ parse_int true 8 [45; 49; 50; 57] = None /\
  print_int (-128) = [45; 49; 50; 56] /\
  parse_int false 128 (print_int (2 ^ 128 - 1)) = Some (2 ^ 128 - 1)%Z.
Proof. vm_compute. repeat split. Qed.

(* "v=%2B5&o=a+b%26&zz=1" for {v: i32, o: Option<String>, d: bool = false} *)
Example C09_ex_query :
  extract_query [([118], KScalar (TInt true 32) PReq); ([111], KScalar TStr POpt);
                 ([100], KScalar TBool (PDef (VBool false)))]
    (Some [118; 61; 37; 50; 66; 53; 38; 111; 61; 97; 43; 98; 37; 50; 54; 38; 122; 122; 61; 49])
  = Ok [FvOne (VInt 5); FvOpt (Some (VStr [97; 32; 98; 38])); FvOne (VBool false)].
Proof. vm_compute. reflexivity. Qed.

(* multipart/form-data; charset=utf-8; BOUNDARY="X B" *)
Example C09_ex_boundary :
  parse_boundary (normalize_ct [109;117;108;116;105;112;97;114;116;47;102;111;114;109;45;100;97;116;97;59;32;
                  99;104;97;114;115;101;116;61;117;116;102;45;56;59;32;
                  66;79;85;78;68;65;82;89;61;34;88;32;66;34]) = BOk [88; 32; 66].
Proof. vm_compute. reflexivity. Qed.

(* multipart/form-data ;<TAB>boundary=XB<SP>   (K9b, repaired) *)
Example C09_ex_boundary_ows :
  extract_multipart (HVal [109;117;108;116;105;112;97;114;116;47;102;111;114;109;45;100;97;116;97;32;59;9;
                           98;111;117;110;100;97;114;121;61;88;66;32]) = Ok [88; 66].
Proof. vm_compute. reflexivity. Qed.

(* outside the grammar of C09_multipart_boundary, and still refused (by the
   media-type parser, mime 0.3.16): an empty parameter (two semicolons in a row, RFC 9110 only),
   and ANOTHER parameter whose quoted-string is empty, contains a quoted-pair,
   or an HTAB.  None concerns the boundary parameter (RFC 2046 bchars) *)
Example C09_ex_boundary_residual :
  (* multipart/form-data;; boundary=XB *)
  extract_multipart (HVal [109;117;108;116;105;112;97;114;116;47;102;111;114;109;45;100;97;116;97;59;59;32;
                           98;111;117;110;100;97;114;121;61;88;66]) = Err XMimeParse /\
  (* multipart/form-data; x=<empty quoted-string>; boundary=XB *)
  extract_multipart (HVal [109;117;108;116;105;112;97;114;116;47;102;111;114;109;45;100;97;116;97;59;32;
                           120;61;34;34;59;32;98;111;117;110;100;97;114;121;61;88;66]) = Err XMimeParse /\
  (* multipart/form-data; x=<quoted-string a backslash dquote b>; boundary=XB *)
  extract_multipart (HVal [109;117;108;116;105;112;97;114;116;47;102;111;114;109;45;100;97;116;97;59;32;
                           120;61;34;97;92;34;98;34;59;32;98;111;117;110;100;97;114;121;61;88;66]) = Err XMimeParse.
Proof. vm_compute. repeat split. Qed.

Print Assumptions C09_scalar_round_trip.
Print Assumptions C09_parse_scalar_sound.
Print Assumptions C09_int_accept_set.
Print Assumptions C09_char_accept_set.
Print Assumptions C09_bool_accept_set.
Print Assumptions C09_char_encoding_is_utf8.
Print Assumptions C09_float_nearest_ties_to_even.
Print Assumptions C09_float_bits.
Print Assumptions C09_segment_decoded.
Print Assumptions C09_path_value_delivered.
Print Assumptions C09_typed_sequence_delivered_iff.
Print Assumptions C09_path_string_delivered.
Print Assumptions C09_path_typed_delivered.
Print Assumptions C09_print_int_deliverable.
Print Assumptions C09_print_char_deliverable.
Print Assumptions C09_form_parse_inverts_every_encoding.
Print Assumptions C09_form_round_trip.
Print Assumptions C09_lossy_is_identity_on_utf8.
Print Assumptions C09_extract_query_delivered.
Print Assumptions C09_extract_query_client.
Print Assumptions C09_K_Q128_refuted.
Print Assumptions C09_K_Q128_every_value_refused.
Print Assumptions C09_chunking_irrelevant.
Print Assumptions C09_raw_body_delivered.
Print Assumptions C09_json_body_delivered.
Print Assumptions C09_form_body_delivered.
Print Assumptions C09_multipart_boundary_normalised.
Print Assumptions C09_multipart_boundary.
Print Assumptions C09_isolation.
Print Assumptions C09_handler_sees_own_request.
Print Assumptions C09_request_info_own.
