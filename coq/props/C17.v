(* C17 — Shutdown is graceful and complete.
   Statements only; each closed by [exact] of a lemma proved in
   theories/ShutdownProofs.v.  They quantify over every trace the shutdown
   model (theories/Shutdown.v) accepts: any number of connections in any
   states when shutdown is requested, any interleaving afterwards, both task
   modes.  hyper-util's GracefulShutdown, the waitgroup crate and futures'
   Shared enter as the guards of the steps ConnsDrained, WaitgroupDone and
   Release (contracts, listed in the trusted base).  PARTIAL: that the live
   server's executions are among these traces is checked on sampled
   executions only (coq/run/Run_C17.v, harness/src/bin/c17.rs). *)
From DS Require Import Base Shutdown ShutdownProofs.

(* --- "When shutdown is requested, every request whose handler had already
       started still receives its complete response if its client stays
       connected" --- *)
Theorem C17_started_requests_answered : forall m t1 t2 s1 s c,
  run m init t1 = Some s1 ->
  (find (conns s1) c = Some (InRequest true) \/ find (conns s1) c = Some Responding) ->
  run m s1 (Signal :: t2) = Some s -> ph s = Finished true ->
  ~ In (ClientGone c) t2 -> In (Deliver c) t2.
Proof. exact started_requests_answered. Qed.

(* the same for a handler that starts while shutdown is under way *)
Theorem C17_entered_requests_answered : forall m t1 t2 s c,
  run m init (t1 ++ Enter c :: t2) = Some s -> ph s = Finished true ->
  ~ In (ClientGone c) t2 -> In (Deliver c) t2.
Proof. exact entered_requests_answered. Qed.

(* --- "and shutdown does not finish until all such requests and all detached
       handlers have finished" --- *)
Theorem C17_finish_waits : forall m t s,
  run m init t = Some s -> ph s = Finished true ->
  all_closed (conns s) = true /\ detached s = [] /\ listening s = false /\
  (forall c b, find (conns s) c <> Some (InRequest b)) /\
  (forall c, find (conns s) c <> Some Responding).
Proof. exact finish_waits. Qed.

Theorem C17_finish_waits_for_detached : forall t1 t2 s c,
  run Detached init (t1 ++ Enter c :: t2) = Some s -> ph s = Finished true ->
  In (Complete c) t2.
Proof. exact finish_waits_for_detached. Qed.

(* once the result is published nothing but releases of waiters happens: no
   handler starts, runs or answers afterwards *)
Theorem C17_nothing_after_finish : forall m t1 t2 s,
  run m init (t1 ++ Publish :: t2) = Some s ->
  forall e, In e t2 -> exists j, e = Release j true.
Proof. exact nothing_after_finish. Qed.

(* --- "Once shutdown has finished the listening port no longer accepts
       connections" --- *)
Theorem C17_port_closed_after : forall m t1 t2 s c,
  run m init (t1 ++ StopAccept :: t2) = Some s -> ~ In (Accept c) t2.
Proof. exact port_closed_after. Qed.

Theorem C17_listener_dropped_at_finish : forall m t s r,
  run m init t = Some s -> ph s = Finished r -> listening s = false.
Proof. exact listener_dropped_at_finish. Qed.

(* --- "and every waiter for shutdown is released with the same result" --- *)
Theorem C17_waiters_agree : forall m t s j a k b,
  run m init t = Some s -> In (Release j a) t -> In (Release k b) t -> a = b.
Proof. exact waiters_agree. Qed.

Theorem C17_release_only_when_finished : forall m t s j a,
  run m init t = Some s -> In (Release j a) t -> ph s = Finished a.
Proof. exact release_only_when_finished. Qed.

(* --- the tie to observed executions: the labels an observed log is read as
       (with the unobservable server-internal steps placed) form an accepted
       trace --- *)
Theorem C17_observed_is_accepted : forall m os s ls,
  replay_obs m os = Some (s, ls) -> run m init ls = Some s /\ accepts m ls = true.
Proof. exact replay_obs_sound. Qed.

(* ---- non-vacuity ---- *)

(* detached: request 1 in flight with its client staying, request 2's client
   gone with the handler still running, an idle keep-alive connection 3, a
   half-sent request 4 completed during shutdown, two waiters *)
Example C17_ex_detached :
  let t := [Accept 1; Accept 2; Accept 3; Accept 4; ReqBegin 1; Enter 1; ReqBegin 2; Enter 2;
            ClientGone 2; ReqBegin 4; Signal; StopAccept; CloseIdle 3; Enter 4; Complete 1;
            Deliver 1; Complete 4; Deliver 4; ConnsDrained; Complete 2; WaitgroupDone; Publish;
            Release 0 true; Release 1 true; Release 2 true] in
  option_map (fun s => (ph s, detached s, listening s, answered s)) (run Detached init t)
  = Some (Finished true, [], false, [4; 1]).
Proof. vm_compute. reflexivity. Qed.

(* what the model refuses: finishing with a request in flight, with a detached
   handler running, accepting after the loop has left, waiters disagreeing,
   a handler running after the end *)
Example C17_ex_rejected :
  accepts CancelOnDisconnect [Accept 1; ReqBegin 1; Enter 1; Signal; StopAccept; ConnsDrained] = false /\
  accepts Detached [Accept 1; ReqBegin 1; Enter 1; ClientGone 1; Signal; StopAccept; ConnsDrained;
                    WaitgroupDone] = false /\
  accepts Detached [Accept 1; ReqBegin 1; Enter 1; ClientGone 1; Signal; StopAccept; ConnsDrained;
                    Complete 1; WaitgroupDone; Publish; Release 0 true] = true /\
  accepts CancelOnDisconnect [Signal; StopAccept; Accept 1] = false /\
  accepts CancelOnDisconnect [Signal; Accept 1; StopAccept; CloseIdle 1; ConnsDrained] = true /\
  accepts CancelOnDisconnect [Signal; StopAccept; ConnsDrained; WaitgroupDone; Publish;
                              Release 0 true; Release 1 false] = false /\
  accepts CancelOnDisconnect [Signal; StopAccept; ConnsDrained; Publish] = false /\
  accepts CancelOnDisconnect [Release 0 true] = false.
Proof. vm_compute. repeat split. Qed.

(* an observed log, read by the model: the response of connection 1 is read by
   its client only after close() has returned; the departure of client 2 is
   placed where the server can no longer be unaware of it *)
Example C17_ex_observed :
  option_map snd (replay_obs Detached
     [OConn 1; OConn 2; OEntered 1; OEntered 2; OClientGone 2; OCloseCalled; OCompleted 2; OCompleted 1;
      OWaiter 1 true; OCloseReturned true; ORespRead 1 true; OConnectAfter 0])
  = Some [Accept 1; Accept 2; ReqBegin 1; Enter 1; ReqBegin 2; Enter 2; Signal;
          Complete 2; ClientGone 2; Complete 1; StopAccept; Deliver 1; ConnsDrained; WaitgroupDone;
          Publish; Release 1 true; Release 0 true].
Proof. vm_compute. reflexivity. Qed.

Print Assumptions C17_started_requests_answered.
Print Assumptions C17_entered_requests_answered.
Print Assumptions C17_finish_waits.
Print Assumptions C17_finish_waits_for_detached.
Print Assumptions C17_nothing_after_finish.
Print Assumptions C17_port_closed_after.
Print Assumptions C17_listener_dropped_at_finish.
Print Assumptions C17_waiters_agree.
Print Assumptions C17_release_only_when_finished.
Print Assumptions C17_observed_is_accepted.
