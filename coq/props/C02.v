(* C02 — Accepted registrations are unambiguous and reachable; conflicts are
   rejected.  Statements only (lemmas in theories/RouterProofs.v and
   RegisterProofs.v).  [conflicts d d'] (RouterSpec.v) is the property's list
   of route conflicts: two different kinds of segment (literal, variable,
   wildcard — or the end of the path against a wildcard, which also matches
   the empty remainder) or two differently named variables at the same
   position, or the same template and method with version ranges that overlap;
   [wf_template]: no repeated variable name, nothing after a wildcard. *)
From DS Require Import Base Versions VersionsProofs Router RouterSpec RouterProofs Register RegisterProofs RegisterTermination.

Section C02.
  Variable V : Type.
  Variable cmp : V -> V -> comparison.
  Variable bot : V.
  Hypothesis TO : total_order V cmp bot.

  (* 1. on top of any accepted table, a declaration is accepted exactly when
     its template is well formed and it conflicts with no accepted declaration:
     every listed conflict is refused, and a declaration with none of them is
     always accepted (the accepted table then grows by exactly it) *)
  Theorem C02_accept_iff : forall (eps : list (decl V)) r d,
    build V cmp eps = Ok r ->
    match insert V cmp r d with
    | Ok r' => acceptable V cmp eps d = true /\ build V cmp (eps ++ [d]) = Ok r'
    | Err _ => acceptable V cmp eps d = false
    end.
  Proof. exact (register_spec V cmp). Qed.

  (* the same for whole tables: registration of a table succeeds exactly when
     it is conflict-free *)
  Theorem C02_table_accept_iff : forall eps : list (decl V),
    match build V cmp eps with
    | Ok r => table_ok V cmp eps /\ wfn V r /\ (forall d, In d (routes V r) <-> In d eps)
    | Err _ => ~ table_ok V cmp eps
    end.
  Proof. exact (build_spec V cmp). Qed.

  (* one lemma per conflict kind named in the property *)
  Theorem C02_overlap_rejected : forall t (e e' : endpoint V) v,
    wf_range V cmp (e_versions e) -> wf_range V cmp (e_versions e') ->
    same_method (e_method e) (e_method e') = true ->
    vmatches V cmp (e_versions e) (Some v) = true ->
    vmatches V cmp (e_versions e') (Some v) = true ->
    conflicts V cmp (t, e) (t, e') = true.
  Proof. exact (overlap_conflicts V cmp bot TO). Qed.

  Theorem C02_kind_clash_rejected : forall pre p1 p2 t1 t2 (e e' : endpoint V),
    no_wild pre = true -> kind_clash p1 p2 = true ->
    conflicts V cmp (pre ++ p1 :: t1, e) (pre ++ p2 :: t2, e') = true.
  Proof. exact (kind_clash_conflicts V cmp). Qed.

  Theorem C02_end_vs_wildcard_rejected : forall pre x t (e e' : endpoint V),
    no_wild pre = true ->
    conflicts V cmp (pre, e) (pre ++ PWild x :: t, e') = true /\
    conflicts V cmp (pre ++ PWild x :: t, e) (pre, e') = true.
  Proof. exact (end_wild_conflicts V cmp). Qed.

  Theorem C02_repeated_variable_rejected : forall t x,
    (count_var x t >= 2)%nat -> wf_template t = false.
  Proof. exact repeated_var_not_wf. Qed.

  Theorem C02_after_wildcard_rejected : forall pre x p t,
    wf_template (pre ++ PWild x :: p :: t) = false.
  Proof. exact after_wild_not_wf. Qed.

  (* 2. whenever registration succeeds no request can match two endpoints *)
  Theorem C02_accepted_unambiguous : forall (eps : list (decl V)) r d1 d2 m segs v b1 b2,
    build V cmp eps = Ok r -> version_ok V cmp eps v ->
    In d1 eps -> In d2 eps ->
    serves V cmp d1 m segs v = Some b1 -> serves V cmp d2 m segs v = Some b2 -> d1 = d2.
  Proof. exact (accepted_unambiguous V cmp bot TO). Qed.

  (* 3. ... and every registered endpoint is reachable by at least one
     request, at every version of its range (an empty range — finding K2 —
     has none) *)
  Theorem C02_accepted_reachable : forall (eps : list (decl V)) r t e v,
    build V cmp eps = Ok r -> version_ok V cmp eps v -> In (t, e) eps ->
    vmatches V cmp (e_versions e) v = true ->
    exists vars, lookup V cmp r (e_method e) (witness_segs t) v = Found e vars.
  Proof. exact (accepted_reachable V cmp bot TO). Qed.

  (* 4. over any history of registrations in which refused ones are skipped,
     the accepted declarations always form a conflict-free table *)
  Theorem C02_history_invariant : forall (hist : list (decl V)),
    let st := register_history V cmp hist in
    build V cmp (fst st) = Ok (snd st) /\ table_ok V cmp (fst st).
  Proof. exact (history_invariant V cmp). Qed.

  (* 5. the whole of [ApiDescription::register] — tag policy, parameter
     validation, then the router: a declaration is accepted exactly when its
     tags respect the policy, its path variables are exactly the handler's
     path parameters, no name is both a path and a query parameter, every
     path / query parameter is scalar (the wildcard's an array of strings), and
     it conflicts with no accepted declaration *)
  Theorem C02_register_accept_iff : forall tc (eps : list (decl V)) r (d : full_decl V) t,
    build V cmp eps = Ok r -> parse_template (d_path d) = Ok t ->
    ((exists r', register V cmp tc r d = RAccepted r') <->
     tags_ok tc (e_visible (d_ep d)) (d_tags d) = true /\
     params_valid t (d_defs d) (d_params d) /\
     acceptable V cmp eps (t, d_ep d) = true).
  Proof. exact (register_accept_iff V cmp). Qed.

  Theorem C02_tag_policy_rejected : forall tc r (d : full_decl V),
    tags_ok tc (e_visible (d_ep d)) (d_tags d) = false -> register V cmp tc r d = RRefused.
  Proof. exact (tag_policy_rejected V cmp). Qed.

  Theorem C02_param_mismatch_rejected : forall tc r (d : full_decl V) t x,
    parse_template (d_path d) = Ok t ->
    (In x (vars_of t) /\ ~ In x (path_names (d_params d)) \/
     ~ In x (vars_of t) /\ In x (path_names (d_params d))) ->
    forall r', register V cmp tc r d <> RAccepted r'.
  Proof. exact (param_mismatch_rejected V cmp). Qed.

  Theorem C02_path_and_query_rejected : forall tc r (d : full_decl V) t p,
    parse_template (d_path d) = Ok t -> In p (d_params d) ->
    p_loc p = LQuery -> In (p_name p) (vars_of t) ->
    forall r', register V cmp tc r d <> RAccepted r'.
  Proof. exact (path_and_query_rejected V cmp). Qed.

  Theorem C02_nonscalar_rejected : forall tc r (d : full_decl V) t p,
    parse_template (d_path d) = Ok t -> In p (d_params d) ->
    match p_loc p, seg_kind (p_name p) (seg_vars t) with
    | LPath, Some true => is_string_array FUEL (d_defs d) (flatten_top (p_schema p)) <> Ok true
    | LPath, None => False
    | _, _ => is_scalar FUEL (d_defs d) scalar_ty (flatten_top (p_schema p)) <> Ok true
    end ->
    forall r', register V cmp tc r d <> RAccepted r'.
  Proof. exact (nonscalar_rejected V cmp). Qed.

  (* a registration that is not accepted stores nothing; an accepted one is
     exactly the router's insert of the parsed template *)
  Theorem C02_register_accepted_is_insert : forall tc (r r' : node V) (d : full_decl V),
    register V cmp tc r d = RAccepted r' ->
    exists t, parse_template (d_path d) = Ok t /\ insert V cmp r (t, d_ep d) = Ok r'.
  Proof. exact (register_accepted_is_insert V cmp). Qed.
End C02.

(* 6. the scalar test of registration terminates (RegisterTermination.v): the
   model's fuel is never what stops it once it exceeds a bound computed from
   the definition table and the schema — the recursion is well founded (each
   step either enters a definition not yet on the path or descends into a
   strictly smaller inline schema).  Before fix 97a0ad7 the real function had
   no such bound: a parameter type containing itself through allOf / anyOf /
   oneOf overflowed the stack (F10). *)
Theorem C02_scalar_test_terminates : forall d chk s,
  exists bound, forall fuel, (bound < fuel)%nat -> is_scalar fuel d chk s <> Err VE_fuel.
Proof. exact is_scalar_terminates. Qed.

Theorem C02_string_array_test_terminates : forall d s,
  exists bound, forall fuel, (bound < fuel)%nat -> is_string_array fuel d s <> Err VE_fuel.
Proof. exact is_string_array_terminates. Qed.

Theorem C02_self_containing_type_refused : forall n d chk f body,
  lookup_def n d = Some body -> body = SAny [SRef n] \/ body = SAll [SRef n] ->
  is_scalar (S (S f)) d chk (SRef n) = Ok false.
Proof. exact direct_self_reference_refused. Qed.

(* non-vacuity: a concrete accepted table (siblings, a variable chain, three
   ranges on one path and method, a wildcard) on which each kind of conflicting
   declaration is refused and a compatible one is accepted; a registration
   history with refusals in the middle keeps exactly the accepted ones *)
Definition ex_ep (id m : str) (r : vrange N) : endpoint N := mkEp id m r 0 None true.
Definition GET : str := [71;69;84].
Definition PUT : str := [80;85;84].
Definition ex_table : list (decl N) :=
  [ ([PLit [97]; PVar [120]], ex_ep [49] GET (VUntil 2));
    ([PLit [97]; PVar [120]], ex_ep [50] GET (VFromUntil 2 4));
    ([PLit [97]; PVar [120]], ex_ep [51] PUT (VFrom 4));
    ([PLit [97]; PVar [120]; PLit [98]], ex_ep [52] GET VAll);
    ([PLit [102]; PWild [112]], ex_ep [53] GET VAll) ].
Definition refused (d : decl N) : Prop :=
  acceptable N N.compare ex_table d = false /\
  match build N N.compare ex_table with
  | Ok r => match insert N N.compare r d with Err _ => True | Ok _ => False end
  | Err _ => False
  end.

Example C02_nonvacuous :
  (match build N N.compare ex_table with Ok _ => True | Err _ => False end) /\
  (* a shared version on the same path and method *)
  refused ([PLit [97]; PVar [120]], ex_ep [54] GET (VFromUntil 3 9)) /\
  (* a literal beside a variable; a variable of another name; a wildcard beside a variable *)
  refused ([PLit [97]; PLit [99]], ex_ep [54] GET VAll) /\
  refused ([PLit [97]; PVar [121]], ex_ep [54] PUT VAll) /\
  refused ([PLit [97]; PWild [120]], ex_ep [54] PUT VAll) /\
  (* a path that ends where a wildcard starts; anything beside the wildcard *)
  refused ([PLit [102]], ex_ep [54] PUT VAll) /\
  refused ([PLit [102]; PLit [103]], ex_ep [54] PUT VAll) /\
  (* a repeated variable name; a segment after a wildcard *)
  refused ([PLit [122]; PVar [120]; PVar [120]], ex_ep [54] GET VAll) /\
  refused ([PLit [122]; PWild [120]; PLit [97]], ex_ep [54] GET VAll) /\
  (* a disjoint range on the same path and method, and a new method, are accepted *)
  acceptable N N.compare ex_table ([PLit [97]; PVar [120]], ex_ep [54] GET (VFrom 4)) = true /\
  acceptable N N.compare ex_table ([PLit [102]; PWild [112]], ex_ep [54] PUT VAll) = true /\
  (* a history: the refused declarations leave no trace *)
  fst (register_history N N.compare
         (ex_table ++ [([PLit [97]; PLit [99]], ex_ep [54] GET VAll);
                       ([PLit [103]], ex_ep [55] GET VAll);
                       ([PLit [97]; PVar [120]], ex_ep [56] GET (VFromUntil 3 9))]))
  = ex_table ++ [([PLit [103]], ex_ep [55] GET VAll)].
Proof. vm_compute. repeat split. Qed.

Print Assumptions C02_accept_iff.
Print Assumptions C02_table_accept_iff.
Print Assumptions C02_overlap_rejected.
Print Assumptions C02_kind_clash_rejected.
Print Assumptions C02_end_vs_wildcard_rejected.
Print Assumptions C02_repeated_variable_rejected.
Print Assumptions C02_after_wildcard_rejected.
Print Assumptions C02_accepted_unambiguous.
Print Assumptions C02_accepted_reachable.
Print Assumptions C02_history_invariant.
Print Assumptions C02_register_accept_iff.
Print Assumptions C02_tag_policy_rejected.
Print Assumptions C02_param_mismatch_rejected.
Print Assumptions C02_path_and_query_rejected.
Print Assumptions C02_nonscalar_rejected.
Print Assumptions C02_register_accepted_is_insert.
Print Assumptions C02_scalar_test_terminates.
Print Assumptions C02_string_array_test_terminates.
Print Assumptions C02_self_containing_type_refused.
