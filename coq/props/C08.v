(* C08 — converting a type's JSON Schema to OpenAPI preserves its meaning.
   Statements only; proofs are in DS.J2OasProofs / DS.J2OasTheorems.

   Model: J2Oas.j2oas is dropshot/src/schema_util.rs j2oas_schema (and the
   functions it calls) transcribed; SchemaSem.valid_js / valid_oas say what a
   JSON Schema (schemars' openapi3 dialect) / an OpenAPI 3.0 schema accepts,
   for ANY interpretation [env] of $ref and ANY interpretation of
   pattern/format (universally quantified below). *)
From DS Require Import Base Json Schema J2Oas SchemaSem J2OasSpec J2OasProofs J2OasTheorems.
Open Scope N_scope.

(* (1) every supported type has a published schema: the converter does not
   panic on a supported schema ... *)
Theorem C08_supported_converts :
  forall s name, supported s = true -> exists o, j2oas name s = Ok o.
Proof. exact supported_converts. Qed.

(* ... and it fails exactly on the enumerated shapes: [convertible] is the
   conjunction of "not one of the panic shapes" over the visited nodes (a
   [false] schema, a type array, a type beside subschemas, an enum value of
   the wrong kind / an integer enum value outside i64, none or several of
   allOf/anyOf/oneOf/not, a bound given both inclusively and exclusively, an
   array type without array keywords, tuple items) *)
Theorem C08_converter_fails_exactly_on_unsupported_shapes :
  forall s name, is_ok (j2oas name s) = convertible s.
Proof. exact j2oas_ok_iff_convertible. Qed.

Theorem C08_error_implies_unsupported :
  forall s name e, j2oas name s = Err e -> supported s = false.
Proof. exact j2oas_err_unsupported. Qed.

(* (2) the published schema accepts exactly the JSON values the type's own
   schema accepts.  Full statement of the clause: *)
Definition C08_meaning_preserved_full_statement : Prop :=
  forall env pat_ok fmt_ok s name o,
    supported s = true -> j2oas name s = Ok o ->
    forall j, valid_oas env pat_ok fmt_ok o j = valid_js env pat_ok fmt_ok s j.

(* The faithful model refutes it (known finding K4): the null instance type
   (Rust [()], unit structs, unit variants of untagged enums) is published as
   {type: string, enum: [null]}, which accepts nothing, while the type's
   schema accepts null. *)
Theorem C08_meaning_preserved_refuted : ~ C08_meaning_preserved_full_statement.
Proof. exact meaning_preserved_full_refuted. Qed.

(* Independently of the null type (known finding K6): an integer schema whose
   minimum/maximum/multipleOf is not an integer inside i64 (reachable with
   #[schemars(range(min = 0.5))] on an integer field) is altered by the
   converter's [f64 as i64]: {type: integer, minimum: 0.5} is published with
   minimum 0 and accepts 0. *)
Definition C08_meaning_preserved_nonull_statement : Prop :=
  forall env pat_ok fmt_ok s name o,
    supported_with false true s = true -> j2oas name s = Ok o ->
    forall j, valid_oas env pat_ok fmt_ok o j = valid_js env pat_ok fmt_ok s j.

Theorem C08_fractional_integer_bound_refuted : ~ C08_meaning_preserved_nonull_statement.
Proof. exact fractional_integer_bound_refuted. Qed.

(* With the known classes excluded ([supported_faithful]: supported, no visited
   node has the null instance type, and integer bounds are integers inside
   i64) the clause holds, for every schema, every
   instance, every interpretation of references, patterns and formats. *)
Theorem C08_meaning_preserved :
  forall env pat_ok fmt_ok s name o,
    supported_faithful s = true -> j2oas name s = Ok o ->
    forall j, valid_oas env pat_ok fmt_ok o j = valid_js env pat_ok fmt_ok s j.
Proof. exact meaning_preserved. Qed.

Theorem C08_faithful_is_supported : forall s, supported_faithful s = true -> supported s = true.
Proof. exact supported_faithful_supported. Qed.

(* in particular the shape schemars emits for [Option<T>] of a referenceable
   [T] used as a whole body or response type, {$ref: r, nullable: true}, is
   published with the meaning "null, or what r accepts" *)
Theorem C08_nullable_reference_kept :
  forall env pat_ok fmt_ok so name o r,
    so_reference so = Some r -> ext_nullable (so_extensions so) = true ->
    j2oas name (SObj so) = Ok o ->
    forall j, valid_oas env pat_ok fmt_ok o j = is_null j || env r j.
Proof. exact nullable_reference_kept. Qed.

(* the same for a whole document: the schema at a site read with the published
   components against the type's schema read with its definitions ("nested and
   recursive references") *)
Theorem C08_document_meaning_preserved :
  forall pat_ok fmt_ok defs comps s name o fuel,
    comps_of_defs defs comps ->
    supported_faithful s = true -> j2oas name s = Ok o ->
    forall j, valid_oas (env_oas pat_ok fmt_ok fuel comps) pat_ok fmt_ok o j
              = valid_js (env_js pat_ok fmt_ok fuel defs) pat_ok fmt_ok s j.
Proof. exact document_meaning_preserved. Qed.

(* "No constraint is dropped or altered": each named constraint of the type's
   schema is enforced by the published schema ... *)
Corollary C08_required_kept :
  forall env pat_ok fmt_ok so name o, supported_faithful (SObj so) = true -> j2oas name (SObj so) = Ok o ->
    so_reference so = None ->
    forall ov kvs k, so_object so = Some ov -> valid_oas env pat_ok fmt_ok o (JObj kvs) = true ->
                     In k (ov_required ov) -> has_key k kvs = true.
Proof. exact required_enforced. Qed.

Corollary C08_enum_kept :
  forall env pat_ok fmt_ok so name o, supported_faithful (SObj so) = true -> j2oas name (SObj so) = Ok o ->
    so_reference so = None ->
    forall l j, so_enum_values so = Some l -> valid_oas env pat_ok fmt_ok o j = true ->
                is_null j = false -> json_mem j l = true.
Proof. exact enum_enforced. Qed.

Corollary C08_numeric_bounds_kept :
  forall env pat_ok fmt_ok so name o, supported_faithful (SObj so) = true -> j2oas name (SObj so) = Ok o ->
    so_reference so = None ->
    forall nv n, so_number so = Some nv -> valid_oas env pat_ok fmt_ok o (JNum n) = true ->
                 valid_numval nv (JNum n) = true.
Proof. exact numeric_bounds_enforced. Qed.

Corollary C08_length_limits_kept :
  forall env pat_ok fmt_ok so name o, supported_faithful (SObj so) = true -> j2oas name (SObj so) = Ok o ->
    so_reference so = None ->
    forall sv s, so_string so = Some sv -> valid_oas env pat_ok fmt_ok o (JStr s) = true ->
                 valid_strval pat_ok sv (JStr s) = true.
Proof. exact length_limits_enforced. Qed.

Corollary C08_item_limits_and_item_schemas_kept :
  forall env pat_ok fmt_ok so name o, supported_faithful (SObj so) = true -> j2oas name (SObj so) = Ok o ->
    so_reference so = None ->
    forall av l, so_array so = Some av -> valid_oas env pat_ok fmt_ok o (JArr l) = true ->
                 valid_arrval (valid_js env pat_ok fmt_ok) av (JArr l) = true.
Proof. exact items_enforced. Qed.

Corollary C08_property_schemas_and_additional_properties_kept :
  forall env pat_ok fmt_ok so name o, supported_faithful (SObj so) = true -> j2oas name (SObj so) = Ok o ->
    so_reference so = None ->
    forall ov kvs, so_object so = Some ov -> valid_oas env pat_ok fmt_ok o (JObj kvs) = true ->
                   valid_objval pat_ok (valid_js env pat_ok fmt_ok) ov (JObj kvs) = true.
Proof. exact properties_enforced. Qed.

Corollary C08_all_any_one_of_not_kept :
  forall env pat_ok fmt_ok so name o, supported_faithful (SObj so) = true -> j2oas name (SObj so) = Ok o ->
    so_reference so = None ->
    forall sb j, so_subschemas so = Some sb -> valid_oas env pat_ok fmt_ok o j = true ->
                 is_null j = false -> valid_subs (valid_js env pat_ok fmt_ok) sb j = true.
Proof. exact subschemas_enforced. Qed.

(* ... and none is added or tightened *)
Corollary C08_nothing_added :
  forall env pat_ok fmt_ok so name o, supported_faithful (SObj so) = true -> j2oas name (SObj so) = Ok o ->
    forall j, valid_js env pat_ok fmt_ok (SObj so) j = true -> valid_oas env pat_ok fmt_ok o j = true.
Proof. exact nothing_added. Qed.

(* (3) annotations: title (or the supplied name), description, format,
   default, nullable, deprecated, read/write-only, x- extensions, example of a
   converted schema object are those of the source (this includes the null
   type).  Beside a [$ref] only [nullable: true] is an annotation (published on
   a wrapper {allOf: [$ref], nullable: true}); that case is part of
   [C08_annotations_kept_everywhere]. *)
Theorem C08_annotations_kept :
  forall b b2 name so d k,
    so_reference so = None ->
    supported_with b b2 (SObj so) = true -> j2oas name (SObj so) = Ok (OItem d k) ->
    annot_oas d k = annot_js name so.
Proof. exact annotations_kept_top. Qed.

(* ... and so for every node of the schema tree, in traversal order (a [$ref]
   node and the [true] schema carry no annotations) *)
Theorem C08_annotations_kept_everywhere :
  forall s name o,
    supported s = true -> j2oas name s = Ok o ->
    map annot_norm (annots_oas o) = map annot_norm (annots_js name s).
Proof. exact annotations_kept_everywhere. Qed.

(* Parameters (path/query): the member schema passes through
   schema_extract_description before it is converted.  Full statement: *)
Definition C08_parameter_annotations_kept_full_statement : Prop :=
  forall so d k,
    supported (SObj so) = true ->
    j2oas None (snd (schema_extract_description (SObj so))) = Ok (OItem d k) ->
    an_default (annot_oas d k) = an_default (annot_js None so).

(* refuted (known finding K5): the member's metadata is replaced by None, so
   its default (and title, deprecated, read/write-only) is not published *)
Theorem C08_parameter_annotations_refuted : ~ C08_parameter_annotations_kept_full_statement.
Proof. exact parameter_annotations_full_refuted. Qed.

(* the hypotheses are satisfiable and the model evaluates *)
Definition ex_schema : schema :=
  SObj (mkSObj None (Some (Single TObject)) None None None None None None None
               (Some (mkObjVal None None [[110]]
                       [([110], SObj (mkSObj None (Some (Single TInteger)) (Some s_int32) None None None
                                             (Some (mkNumVal None (Some (Q 10 1)) None (Some (Q 0 1)) None))
                                             None None None None []))]
                       [] (Some (SBool false)) None))
               None []).

Example ex_supported : supported_faithful ex_schema = true.
Proof. vm_compute. reflexivity. Qed.

Example ex_converts :
  j2oas (Some [84]) ex_schema
  = Ok (OItem (mkSData false false false false None (Some [84]) None None [])
              (KType (OTObject (mkOObject
                 [([110], OItem sdata_default
                     (KType (OTInteger (mkOInteger (VItem IFInt32) None false false
                                                   (Some 0%Z) (Some 10%Z) []))))]
                 [[110]] (Some (AAny false)) None None)))).
Proof. vm_compute. reflexivity. Qed.

Example ex_accepts_and_rejects :
  let env := fun _ _ => false in
  let pat := fun _ _ => true in
  let fmt := fun _ _ => true in
  match j2oas None ex_schema with
  | Ok o =>
      map (valid_oas env pat fmt o)
          [JObj [([110], JNum (NInt 5))]; JObj [([110], JNum (NInt 11))]; JObj [];
           JObj [([110], JNum (NInt 5)); ([120], JNull)]; JObj [([110], JNum (NFlt 1 2))]]
  | Err _ => []
  end = [true; false; false; false; false].
Proof. vm_compute. reflexivity. Qed.

Print Assumptions C08_supported_converts.
Print Assumptions C08_converter_fails_exactly_on_unsupported_shapes.
Print Assumptions C08_error_implies_unsupported.
Print Assumptions C08_meaning_preserved_refuted.
Print Assumptions C08_meaning_preserved.
Print Assumptions C08_faithful_is_supported.
Print Assumptions C08_fractional_integer_bound_refuted.
Print Assumptions C08_nullable_reference_kept.
Print Assumptions C08_document_meaning_preserved.
Print Assumptions C08_required_kept.
Print Assumptions C08_enum_kept.
Print Assumptions C08_numeric_bounds_kept.
Print Assumptions C08_length_limits_kept.
Print Assumptions C08_item_limits_and_item_schemas_kept.
Print Assumptions C08_property_schemas_and_additional_properties_kept.
Print Assumptions C08_all_any_one_of_not_kept.
Print Assumptions C08_nothing_added.
Print Assumptions C08_annotations_kept.
Print Assumptions C08_annotations_kept_everywhere.
Print Assumptions C08_parameter_annotations_refuted.
