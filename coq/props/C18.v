(* C18 — Hostile or broken traffic cannot take the server down.
   "Arbitrary bytes, truncated or oversized requests, invalid header values,
    abrupt disconnects at any point of a request, or a panicking handler never
    crash or wedge the server: it keeps answering well-formed requests on other
    connections.  Anything the server does answer is a syntactically valid HTTP
    response, and its status is 4xx or 5xx whenever the request was malformed."

   Statements only; each closed by [exact] of a lemma proved in theories/.
   PARTIAL: hyper's parser and connection state machine, tokio and TCP are not
   modelled; they enter as the oracle [parse_all].  What is proved is about
   dropshot's own part: the response function, the per-connection isolation
   structure and the accept loop (Conn.v), and about the response-syntax
   specification the judge applies to the live server's raw bytes
   (HttpSyntax.v). *)
From DS Require Import Base Conn ConnProofs HttpSyntax HttpSyntaxProofs.

(* ------------------------------------------------------------------ *)
(* the status-class half: dropshot's response function                  *)
(* ------------------------------------------------------------------ *)

(* For every request hyper hands over — whatever the version policy, the path
   normaliser, the router, the extractors and the handler make of it — dropshot
   produces a response with a status in 100..599 or the handler panicked; a
   response dropshot made itself is 4xx; a malformed request (bad version
   header, bad path, bad parameters, bad body) always gets one of those. *)
Theorem C18_respond_total : forall m a,
  handler_wf (a_handler a) = true ->
  (exists s fw, respond m a = Resp s fw /\ 100 <= s < 600 /\
                (fw = true -> 400 <= s < 500) /\
                (malformed a = true -> fw = true)) \/
  (respond m a = ConnPanic /\ a_handler a = HPanic /\ malformed a = false
   /\ a_route a = RouteFound).
Proof. exact respond_total. Qed.

(* "its status is 4xx or 5xx whenever the request was malformed", and no
   handler runs *)
Theorem C18_malformed_is_refused : forall m a,
  malformed a = true -> exists s, respond m a = Resp s true /\ 400 <= s < 500.
Proof. exact malformed_is_refused. Qed.

(* Known finding K18.  On the wire a request can also be malformed in the
   framing of its body; hyper decodes a body lazily, so dropshot notices only
   if its extractor reads the body.  The full-strength statement — every
   request that is malformed on the wire is refused — is FALSE of the code and
   of its model: *)
Definition C18_wire_malformed_full_statement : Prop := forall m fr a,
  framing_consistent fr a = true -> handler_wf (a_handler a) = true ->
  wire_malformed fr a = true ->
  exists s fw, respond m a = Resp s fw /\ 400 <= s < 600.

Theorem C18_K18_refuted : forall m,
  exists fr a, framing_consistent fr a = true /\ handler_wf (a_handler a) = true /\
               wire_malformed fr a = true /\ respond m a = Resp 200 false.
Proof. exact k18_refuted. Qed.

(* ... and it holds outside the class (invalid body framing on a request whose
   endpoint does not read the body) *)
Theorem C18_wire_malformed_refused_outside_K18 : forall m fr a,
  framing_consistent fr a = true -> k18_class fr a = false ->
  wire_malformed fr a = true ->
  exists s, respond m a = Resp s true /\ 400 <= s < 500.
Proof. exact wire_malformed_refused_outside_k18. Qed.

(* a well-formed, routed request gets exactly what its handler produces *)
Theorem C18_wellformed_reaches_handler : forall m a,
  malformed a = false -> a_route a = RouteFound ->
  respond m a = run_handler m (a_handler a).
Proof. exact wellformed_reaches_handler. Qed.

(* a panicking handler ends in the same way in both task modes: the panic is
   re-raised in the connection's task, no 500 is written *)
Theorem C18_respond_mode_independent : forall a,
  respond Detached a = respond CancelOnDisconnect a.
Proof. exact respond_mode_independent. Qed.

Section C18.
  (* hyper's request type and parser (an oracle), and any response function *)
  Variable req : Type.
  Variable parse_all : list N -> list req * tail.
  Variable respond_req : req -> outcome.

  (* ---------------------------------------------------------------- *)
  (* faults are local                                                   *)
  (* ---------------------------------------------------------------- *)

  (* Any event on connection a — arbitrary bytes, truncation, abort, whatever
     the parser and the handler make of them, a panic included — leaves every
     other connection's state, the accept loop and the TLS negotiations in
     flight unchanged. *)
  Theorem C18_faults_are_local : forall s a e b,
    a <> b ->
    let s' := srv_step req parse_all respond_req s (OnConn a e) in
    lookup b (s_conns s') = lookup b (s_conns s) /\
    s_loop s' = s_loop s /\ s_pending s' = s_pending s /\ s_tls s' = s_tls s.
  Proof. exact (faults_are_local req parse_all respond_req). Qed.

  (* "it keeps answering well-formed requests on other connections": after ANY
     finite sequence of events that do not concern connection c (faults of
     every kind on other connections, accept errors, failed TLS negotiations),
     opening c and sending bs is served exactly as on an idle server ... *)
  Theorem C18_fresh_connection_unaffected : forall tls fs c bs,
    forallb (foreign c) fs = true ->
    lookup c (s_conns (srv_run req parse_all respond_req
                               (fs ++ open_and_send tls c bs) (srv_init tls)))
    = lookup c (s_conns (srv_run req parse_all respond_req
                                 (open_and_send tls c bs) (srv_init tls))).
  Proof. exact (fresh_connection_unaffected req parse_all respond_req). Qed.

  (* ... hence a well-formed request is answered *)
  Theorem C18_wellformed_request_answered_after_faults : forall tls fs c bs r st fw,
    forallb (foreign c) fs = true ->
    parse_all bs = ([r], TIncomplete []) -> respond_req r = Resp st fw ->
    lookup c (s_conns (srv_run req parse_all respond_req
                               (fs ++ open_and_send tls c bs) (srv_init tls)))
    = Some (Open [] [st]).
  Proof. exact (wellformed_request_answered_after_faults req parse_all respond_req). Qed.

  (* a panicking handler: the connection's task ends, what was already written
     stands, nothing else is written (and, by locality, nothing else happens) *)
  Theorem C18_panic_closes_its_connection : forall buf sent bs r t,
    parse_all (buf ++ bs) = ([r], t) -> respond_req r = ConnPanic ->
    conn_step req parse_all respond_req (Open buf sent) (Bytes bs) = Closed sent.
  Proof. exact (panic_closes_connection req parse_all respond_req). Qed.

  (* what has been written on a connection is never retracted *)
  Theorem C18_sent_is_never_retracted : forall c e,
    exists more,
      sent_of (conn_step req parse_all respond_req c e) = sent_of c ++ more.
  Proof. exact (conn_step_extends req parse_all respond_req). Qed.

  (* ---------------------------------------------------------------- *)
  (* the accept loop                                                    *)
  (* ---------------------------------------------------------------- *)

  (* For every sequence of accept results (sockets, the three ignored error
     kinds, any other error: sleep and retry), TLS negotiation outcomes and
     connection events, the loop keeps accepting; only the shutdown signal
     ends it. *)
  Theorem C18_accept_loop_total : forall es s,
    s_loop s = Accepting -> forallb (fun e => negb (is_shutdown e)) es = true ->
    s_loop (srv_run req parse_all respond_req es s) = Accepting.
  Proof. exact (accept_loop_total req parse_all respond_req). Qed.

  (* and every socket accept(2) hands over gets its connection task, whatever
     errors surround it *)
  Theorem C18_every_accepted_socket_is_served : forall (rs : list (res errkind cid)) c,
    In (Ok c) rs ->
    has c (s_conns (srv_run req parse_all respond_req
                            (map (fun r => Loop (AcceptResult r)) rs) (srv_init false))) = true.
  Proof. exact (every_accepted_socket_is_served req parse_all respond_req). Qed.
End C18.

(* ------------------------------------------------------------------ *)
(* the response-syntax specification                                    *)
(* ------------------------------------------------------------------ *)

(* round trip: any sequence of well-formed responses (any status 100..999 but
   101, any reason phrase, any header fields, a body framed by Content-Length
   or in chunks, or none for 1xx/204/304), rendered one after the other, is
   recognised as exactly these responses *)
Theorem C18_render_parse_answer : forall rs closed,
  forallb wf_resp rs = true ->
  parse_answer false closed (concat (map render rs)) = AComplete (map rs_status rs).
Proof. exact render_parse_answer. Qed.

Theorem C18_render_valid : forall r, wf_resp r = true -> valid_response (render r) = true.
Proof. exact render_valid. Qed.

Theorem C18_render_valid_many : forall rs,
  rs <> [] -> forallb wf_resp rs = true -> valid_response (concat (map render rs)) = true.
Proof. exact render_valid_many. Qed.

(* the recogniser's recursion budget always suffices *)
Theorem C18_parse_answer_no_fuel : forall ho closed bs, parse_answer ho closed bs <> AFuel.
Proof. exact parse_answer_no_fuel. Qed.

(* ------------------------------------------------------------------ *)
(* non-vacuity                                                          *)
(* ------------------------------------------------------------------ *)

(* "HTTP/1.1 400 Bad Request\r\ncontent-length: 0\r\n\r\n" — what hyper writes
   for an unparsable request — followed by a chunked 200 *)
Example C18_recogniser_accepts :
  parse_answer false true
    ([72;84;84;80;47;49;46;49;32;52;48;48;32;66;97;100;32;82;101;113;117;101;115;116;13;10;
      99;111;110;116;101;110;116;45;108;101;110;103;116;104;58;32;48;13;10;13;10]
     ++ [72;84;84;80;47;49;46;49;32;50;48;48;32;79;75;13;10;
         116;114;97;110;115;102;101;114;45;101;110;99;111;100;105;110;103;58;32;99;104;117;110;107;101;100;13;10;13;10;
         51;13;10;97;98;99;13;10;48;13;10;13;10])
  = AComplete [400; 200].
Proof. vm_compute. reflexivity. Qed.

(* not responses: no reason-phrase separator; a bare LF; a body shorter than
   announced although the server closed; garbage after a response *)
Example C18_recogniser_rejects :
  valid_response [72;84;84;80;47;49;46;49;32;50;48;48;13;10;13;10] = false /\
  valid_response [72;84;84;80;47;49;46;49;32;50;48;48;32;79;75;10;10] = false /\
  parse_answer false true
    [72;84;84;80;47;49;46;49;32;50;48;48;32;79;75;13;10;
     99;111;110;116;101;110;116;45;108;101;110;103;116;104;58;32;53;13;10;13;10;97;98]
  = APartial [] /\
  parse_answer false true
    [72;84;84;80;47;49;46;49;32;50;48;52;32;78;13;10;13;10;0;1;2;13;10;13;10]
  = AInvalid [204].
Proof. vm_compute. repeat split. Qed.

Example C18_render_example :
  let r := {| rs_minor := true; rs_status := 404; rs_reason := [78;111];
              rs_headers := [([120;45;97], [49])]; rs_body := RChunked [[1;2;3];[13;10]] |} in
  wf_resp r = true /\ valid_response (render r) = true.
Proof. vm_compute. split; reflexivity. Qed.

(* the response function on the taxonomy *)
Example C18_respond_examples :
  respond Detached (AR true true RouteFound [true] BNone (HOk 200)) = Resp 200 false /\
  respond Detached (AR false true RouteFound [] BNone (HOk 200)) = Resp 400 true /\
  respond Detached (AR true false RouteFound [] BNone (HOk 200)) = Resp 400 true /\
  respond Detached (AR true true RouteNotFound [] BNone (HOk 200)) = Resp 404 true /\
  respond Detached (AR true true RouteMethodNotAllowed [] BNone (HOk 200)) = Resp 405 true /\
  respond Detached (AR true true RouteFound [true; false] BNone (HOk 200)) = Resp 400 true /\
  respond Detached (AR true true RouteFound [] (BTyped true false true true true true) (HOk 200))
    = Resp 400 true /\
  respond Detached (AR true true RouteFound [] BNone (HErr 503)) = Resp 503 false /\
  respond Detached (AR true true RouteFound [] BNone HPanic) = ConnPanic /\
  respond CancelOnDisconnect (AR true true RouteFound [] BNone HPanic) = ConnPanic.
Proof. vm_compute. repeat split. Qed.

(* a run: connection 1 gets a request whose handler panics, connection 2 is
   aborted, accept fails with EMFILE-like and ECONNABORTED errors, then
   connection 3 asks for /health: 1 is closed with nothing written, 3 is
   answered 200, the loop is accepting and slept once *)
Example C18_server_run :
  let parse (bs : list N) : list areq * tail :=
      match bs with
      | [1] => ([AR true true RouteFound [] BNone HPanic], TIncomplete [])
      | [2] => ([AR true true RouteFound [] BNone (HOk 200)], TIncomplete [])
      | [] => ([], TIncomplete [])
      | _ => ([], TMalformed (Some 400))
      end in
  let s := srv_run areq parse (respond Detached)
             [Loop (AcceptResult (Ok 1)); Loop (AcceptResult (Ok 2));
              OnConn 1 (Bytes [1]); OnConn 2 Abort;
              Loop (AcceptResult (Err (OtherKind 24))); Loop (AcceptResult (Err ConnectionAborted));
              Loop (AcceptResult (Ok 3)); OnConn 3 (Bytes [2]);
              Loop (AcceptResult (Ok 4)); OnConn 4 (Bytes [9;9;9])]
             (srv_init false) in
  lookup 1 (s_conns s) = Some (Closed []) /\
  lookup 2 (s_conns s) = Some (Closed []) /\
  lookup 3 (s_conns s) = Some (Open [] [200]) /\
  lookup 4 (s_conns s) = Some (Closed [400]) /\
  s_loop s = Accepting /\ s_slept s = 1.
Proof. vm_compute. repeat split. Qed.

Print Assumptions C18_respond_total.
Print Assumptions C18_malformed_is_refused.
Print Assumptions C18_K18_refuted.
Print Assumptions C18_wire_malformed_refused_outside_K18.
Print Assumptions C18_wellformed_reaches_handler.
Print Assumptions C18_respond_mode_independent.
Print Assumptions C18_faults_are_local.
Print Assumptions C18_fresh_connection_unaffected.
Print Assumptions C18_wellformed_request_answered_after_faults.
Print Assumptions C18_panic_closes_its_connection.
Print Assumptions C18_sent_is_never_retracted.
Print Assumptions C18_accept_loop_total.
Print Assumptions C18_every_accepted_socket_is_served.
Print Assumptions C18_render_parse_answer.
Print Assumptions C18_render_valid.
Print Assumptions C18_render_valid_many.
Print Assumptions C18_parse_answer_no_fuel.
