(* C19 — An endpoint is registered, served and documented exactly as declared.

   "The method, path, version range, tags, operation id, content type, body
   limit, deprecated and unpublished flags and doc comment written on an
   endpoint or channel declaration are what the server routes by and what the
   OpenAPI document shows, and no doc-comment text is lost between summary and
   description.  Declaring the same API as free functions or as an API trait,
   whether backed by an implementation or by the generated stub, yields
   identical documents and identical routing."

   Statements only; each closed by [exact] of a lemma proved in theories/.
   [attr] is what a declaration says, [expand st a] what the macro form [st]
   makes of it (Macro.v), [extract] the doc-comment algorithm (DocComment.v).
   All statements quantify over every declaration (no bound). *)
From DS Require Import Base Versions VersionsProofs Semver DocComment DocCommentProofs
  Macro MacroProofs.

(* ---- 1. every field of the registered endpoint is the declared one ---- *)

(* whenever a form of the macro yields an endpoint, it is [expected]: method
   (GET for a channel), path, operation id (default: the function's name),
   tags in order, deprecated, visible = not unpublished, body limit, content
   type (default application/json), the declared version range, summary and
   description of the doc comment; nothing else *)
Theorem C19_fields_as_declared : forall st a e,
  expand st a = Ok e ->
  exists r c, declared_range (a_versions a) = Some r /\ declared_ctype a = Some c /\
    e = mkEndpoint (declared_opid a)
          (handler_of st (is_channel a) (a_name a) (declared_opid a))
          (declared_method a) (a_path a) (body_param c (declared_body a)) c
          (declared_maxbytes a) (summary (extract (a_docs a)))
          (description (extract (a_docs a))) (a_tags a) (is_channel a)
          (negb (a_unpublished a)) (a_deprecated a) r.
Proof. exact fields_as_declared. Qed.

(* an endpoint results exactly for the accepted declarations: the version
   argument denotes a range (literals are plain MAJOR.MINOR.PATCH, from <=
   until), the content type is one of the three supported, a wildcard path is
   unpublished (and absent from a channel) *)
Theorem C19_endpoint_iff_accepted : forall st a, is_ok (expand st a) = accepted a.
Proof. exact expand_ok_iff. Qed.

(* the only other outcomes: a compile error (exactly when [compiles a] is
   false), or the from_until(..).unwrap() panic for a pair written with a
   constant and in the wrong order; from_mime_type(..).expect(..) and the
   assert_eq! in semver_parts never fire *)
Theorem C19_error_classes : forall st a,
  match expand st a with
  | Ok _ => accepted a = true
  | Err (CompileErrors l) => compiles a = false /\ l <> []
  | Err PanicFromUntil => compiles a = true /\ accepted a = false
  | Err PanicMime => False
  | Err PanicSemverParts => False
  end.
Proof. exact expand_error_classes. Qed.

(* ---- 2. the three forms agree (up to the handler) ---- *)

Theorem C19_styles_agree : forall st st' a,
  match expand st a with Ok e => Ok (erase_handler e) | Err x => Err x end =
  match expand st' a with Ok e => Ok (erase_handler e) | Err x => Err x end.
Proof. exact styles_agree. Qed.

(* hence identical routing and identical documents *)
Theorem C19_styles_same_routing_and_documents : forall st st' a e e',
  expand st a = Ok e -> expand st' a = Ok e' ->
  (forall v, route_view e v = route_view e' v) /\ (forall v, doc_view e v = doc_view e' v) /\
  e_method e = e_method e' /\ e_path e = e_path e'.
Proof. exact styles_route_doc. Qed.

(* ---- served and documented as declared ---- *)

(* the endpoint answers a request for version v iff v lies in the declared
   range (from A: v >= A; until B: v < B; A..B: A <= v < B, exactly A when
   A = B), carrying the declared operation id, content type and body limit;
   an unversioned request is always answered *)
Theorem C19_served_as_declared : forall st a e r c,
  expand st a = Ok e -> declared_range (a_versions a) = Some r -> declared_ctype a = Some c ->
  (forall v, route_view e (Some v) = Some (declared_opid a, c, declared_maxbytes a) <->
             vin version Semver.cmp r v) /\
  (forall v, route_view e (Some v) = None <-> ~ vin version Semver.cmp r v) /\
  route_view e None = Some (declared_opid a, c, declared_maxbytes a).
Proof. exact served_as_declared. Qed.

(* the document for version v shows the operation iff the declaration is not
   unpublished and v is in the declared range, with the declared fields *)
Theorem C19_documented_as_declared : forall st a e r c,
  expand st a = Ok e -> declared_range (a_versions a) = Some r -> declared_ctype a = Some c ->
  forall v,
    doc_view e v =
      (if negb (a_unpublished a) && vmatches version Semver.cmp r (Some v)
       then Some (mkDocop (declared_opid a) (summary (extract (a_docs a)))
                    (description (extract (a_docs a))) (a_tags a) (a_deprecated a)
                    (body_param c (declared_body a)) (is_channel a))
       else None) /\
    (vmatches version Semver.cmp r (Some v) = true <-> vin version Semver.cmp r v).
Proof. exact documented_as_declared. Qed.

(* ---- 3. the doc comment ---- *)

(* nothing dropped, nothing reordered between summary and description: their
   non-blank characters are those of the normalised comment lines, in order *)
Theorem C19_doc_lossless : forall docs,
  shown (extract docs) = flat_map nonblank (doc_lines docs).
Proof. exact doc_lossless. Qed.

(* the summary is the first non-empty line; the description is made of the
   lines after it *)
Theorem C19_summary_first_line : forall docs,
  summary (extract docs) = find (fun l => negb (is_nil l)) (doc_lines docs).
Proof. exact summary_first_line. Qed.

Theorem C19_summary_description_split : forall docs s,
  summary (extract docs) = Some s ->
  exists pre rest, doc_lines docs = pre ++ s :: rest /\ Forall (fun l => l = []) pre /\ s <> [] /\
    nonblank (opt_str (description (extract docs))) = flat_map nonblank rest.
Proof. exact summary_description_split. Qed.

(* no text of the comment itself is lost, for every comment (full strength:
   the former class K19 — a '*' that is text in a block not uniformly
   star-decorated — was repaired by fix 9fd4ea2).  [declared_text] reads a
   leading '*' of the continuation lines as decoration exactly when every
   non-blank continuation line of the attribute carries it, otherwise as
   text; the code's [decorated] test is the same predicate
   (DocCommentProofs.is_decorated_spec). *)
Theorem C19_doc_text_lossless : forall docs, shown (extract docs) = declared_text docs.
Proof. exact doc_lossless_declared. Qed.

(* an attribute that is not star-decorated keeps every line (trimmed) *)
Theorem C19_undecorated_keeps_lines : forall s first rest,
  split_nl s = first :: rest -> decorated rest = false ->
  normalize s = map trim (first :: rest).
Proof. exact undecorated_keeps_lines. Qed.

(* the other attributes of the item: a doc attribute whose value is not a
   string literal (#[doc = concat!(..)], include_str!(..), stringify!(..)) and
   every other attribute (#[allow(..)], #[cfg(..)], #[deprecated], ..)
   contribute nothing and hide nothing, wherever they stand; every literal doc
   line is kept.  (Measured on the unchanged tree: a macro-valued doc attribute
   is invisible to the macro - its text is not shown - and a plain
   #[deprecated] on the handler does not mark the operation deprecated: the
   flags are those of the endpoint / channel attribute only, see
   C19_fields_as_declared.) *)
Theorem C19_non_literal_attributes_skipped : forall pre x post,
  x = ADocExpr \/ x = AOther ->
  extract_attrs (pre ++ x :: post) = extract_attrs (pre ++ post).
Proof. exact non_literal_attrs_skipped. Qed.

Theorem C19_attributes_text_lossless : forall attrs,
  shown (extract_attrs attrs) = declared_text (literal_docs attrs).
Proof. exact attrs_text_lossless. Qed.

(* and so the document shows all of the comment's text *)
Theorem C19_documented_text_lossless : forall st a e,
  expand st a = Ok e ->
  nonblank (opt_str (e_summary e)) ++ nonblank (opt_str (e_description e))
  = declared_text (a_docs a).
Proof. exact documented_text_lossless. Qed.

(* the decidable form of the clause used to judge implementation runs *)
Theorem C19_doc_lossless_b : forall docs, doc_lossless_b docs (extract docs) = true.
Proof. exact doc_lossless_b_ok. Qed.

(* ---- 4. the syntax of [versions] ---- *)

(* a plain literal denotes that version *)
Theorem C19_literal_plain : forall M m p,
  M <= u64_max -> m <= u64_max -> p <= u64_max ->
  spec_version (SLit (Semver.print (plain M m p))) = Some (plain M m p).
Proof. exact literal_plain. Qed.

(* pre-release and build metadata are refused, as is anything semver refuses *)
Theorem C19_literal_refusals : forall s,
  (Semver.parse s = None -> parse_semver s = Err ESemver) /\
  (forall v, Semver.parse s = Some v -> pre v <> [] -> parse_semver s = Err EPrerelease) /\
  (forall v, Semver.parse s = Some v -> pre v = [] -> build v <> [] -> parse_semver s = Err EBuild) /\
  (forall v, parse_semver s = Ok v -> pre v = [] /\ build v = [] /\ Semver.parse s = Some v).
Proof. exact literal_refusals. Qed.

(* a pair of literals is refused at macro time exactly when until < from *)
Theorem C19_literal_pair_order : forall sa sb x y,
  spec_version (SLit sa) = Some x -> spec_version (SLit sb) = Some y ->
  parse_versions (VSFromUntil (SLit sa) (SLit sb)) =
  if vltb y x then Err EOrder else Ok (Some (RFromUntil (RLit x) (RLit y))).
Proof. exact literal_pair_order. Qed.

(* a pair involving a constant compiles; construction panics exactly when
   until < from *)
Theorem C19_ident_pair_order : forall a b x y,
  slit a && slit b = false -> spec_version a = Some x -> spec_version b = Some y ->
  exists ra rb, parse_versions (VSFromUntil a b) = Ok (Some (RFromUntil ra rb)) /\
    eval_versions (RFromUntil ra rb) =
    if vltb y x then Err PanicFromUntil else Ok (VFromUntil x y).
Proof. exact ident_pair_order. Qed.

(* ---- wildcard paths and content types ---- *)

Theorem C19_wildcard_needs_unpublished : forall st a m ct mb bd,
  a_kind a = KEndpoint m ct mb bd -> is_wildcard_path (a_path a) = true ->
  a_unpublished a = false ->
  exists l, expand st a = Err (CompileErrors l).
Proof. exact wildcard_needs_unpublished. Qed.

Theorem C19_channel_wildcard_refused : forall st a,
  a_kind a = KChannel -> is_wildcard_path (a_path a) = true ->
  exists l, expand st a = Err (CompileErrors l).
Proof. exact channel_wildcard_refused. Qed.

Theorem C19_bad_content_type_refused : forall st a m s mb bd,
  a_kind a = KEndpoint m (Some s) mb bd -> vct_parse s = None ->
  exists l, expand st a = Err (CompileErrors l).
Proof. exact bad_content_type_refused. Qed.

(* ---- the trait-level tag configuration ---- *)

(* the configuration the generated api_description() / stub_api_description()
   start from is the one written in [tag_config = { .. }], field by field
   (left out: allow_other_tags = false, policy = Any); without the argument it
   is the default, which allows everything *)
Theorem C19_tag_config_as_declared : forall t,
  tc_allow_other_tags (trait_tag_config (Some t))
    = match ta_allow_other_tags t with Some b => b | None => false end /\
  tc_policy (trait_tag_config (Some t))
    = match ta_policy t with Some p => p | None => TPAny end /\
  tc_tags (trait_tag_config (Some t)) = ta_tags t /\
  trait_tag_config None = mkTagConfig true TPAny [].
Proof. exact trait_tag_config_fields. Qed.

(* an endpoint is registered iff it complies: unpublished, or the number of
   its tags fits the policy and (unless other tags are allowed) each is a
   configured tag *)
Theorem C19_registered_iff_complies : forall c e,
  is_ok (validate_tags c e) = complies c (e_tags e) (e_visible e).
Proof. exact validate_tags_complies. Qed.

(* the description is built iff every endpoint complies, and the refused
   operations are exactly the declarations that do not *)
Theorem C19_build_ok_iff : forall c eps,
  build_errors c eps = [] <->
  forall e, In e eps -> complies c (e_tags e) (e_visible e) = true.
Proof. exact build_ok_iff. Qed.

Theorem C19_refused_are_the_noncompliant_declarations : forall c st eps es,
  expand_all st eps = Some es ->
  map fst (build_errors c es) =
  map declared_opid (filter (fun a => negb (complies c (a_tags a) (negb (a_unpublished a)))) eps).
Proof. exact build_errors_declared. Qed.

(* a declared policy is in force *)
Theorem C19_declared_policy_in_force : forall t e,
  e_visible e = true ->
  (ta_policy t = Some TPAtLeastOne -> e_tags e = [] ->
     validate_tags (trait_tag_config (Some t)) e = Err TENeedOne) /\
  (ta_policy t = Some TPExactlyOne -> length (e_tags e) <> 1%nat ->
     validate_tags (trait_tag_config (Some t)) e = Err TEExactlyOne).
Proof. exact declared_policy_in_force. Qed.

(* free functions, trait implementation and stub are refused alike *)
Theorem C19_tag_check_styles_agree : forall c st st' eps es es',
  expand_all st eps = Some es -> expand_all st' eps = Some es' ->
  build_errors c es = build_errors c es'.
Proof. exact build_styles_agree. Qed.

(* the model satisfies the executable specification [spec_tagcfg] used on
   implementation runs *)
Theorem C19_tagcfg_model_meets_spec : forall arg eps es_f es_i es_s,
  expand_all Function eps = Some es_f -> expand_all TraitImpl eps = Some es_i ->
  expand_all TraitStub eps = Some es_s ->
  let c := trait_tag_config arg in
  spec_tagcfg arg eps [Some c; Some c]
    [refused_codes c es_f; refused_codes c es_i; refused_codes c es_s] true = true.
Proof. exact tagcfg_model_meets_spec. Qed.

(* ---- the executable specification used on implementation runs ---- *)

(* [spec_decl] (Macro.v) is the property in executable form over what the
   harness observes of one declaration in the three styles: registration,
   routing at every probe version and unversioned, the documented operation at
   every probe version, agreement of the styles, and the doc-comment clause.
   For every accepted declaration (constants named in [versions] holding
   printable versions) the model's own behaviour satisfies all of it,
   at any list of probe versions. *)
Theorem C19_model_meets_spec : forall a vs,
  accepted a = true -> versions_wf (a_versions a) = true ->
  forallb (fun s => is_some (Semver.parse s)) vs = true ->
  spec_decl a (map (model_ep a) styles) (map (model_route a None) styles)
    (map (model_probe a) vs) = (true, true).
Proof. exact model_meets_spec. Qed.

(* ---- non-vacuity: the model evaluates, the hypotheses are satisfiable ---- *)

Definition ex_path : str := [47;116].   (* "/t" *)
Definition ex_name : str := [102].      (* "f" *)
Definition ex_doc : list ustr :=        (* " Summary" / "" / " right-" / " fully" *)
  [[32;83;117;109;109;97;114;121]; []; [32;114;105;103;104;116;45]; [32;102;117;108;108;121]].
Definition ex_attr : attr :=
  mkAttr (KEndpoint PUT None (Some 1024) BTyped) ex_path [[116]] None true false
    (VSFromUntil (SLit [49;46;48;46;48]) (SIdent [86] (plain 2 0 0))) ex_doc ex_name.

Example C19_example_expand :
  match expand Function ex_attr, expand TraitStub ex_attr with
  | Ok e, Ok e' =>
      e_opid e = ex_name /\ e_ctype e = CTJson /\ e_maxbytes e = Some 1024 /\
      e_versions e = VFromUntil (plain 1 0 0) (plain 2 0 0) /\
      e_summary e = Some [83;117;109;109;97;114;121] /\
      e_description e = Some [114;105;103;104;116;45;102;117;108;108;121] /\
      e_handler e = HFunction ex_name /\ e_handler e' = HStub ex_name /\
      route_view e (Some (plain 1 5 0)) <> None /\ route_view e (Some (plain 2 0 0)) = None /\
      e_visible e = true /\ e_deprecated e = true /\ e_body_param e = Some CTJson
  | _, _ => False
  end.
Proof. vm_compute. repeat split; discriminate. Qed.

Example C19_tag_policy_example :
  (* tag_config = { allow_other_tags = true, policy = AtLeastOne, tags = {} } *)
  let c := trait_tag_config (Some (mkTcArg (Some true) (Some TPAtLeastOne) [])) in
  tc_policy c = TPAtLeastOne /\
  match expand TraitStub (mkAttr (KEndpoint GET None None BNone) ex_path [] None false false
                            VSAbsent [] ex_name) with
  | Ok e => validate_tags c e = Err TENeedOne
  | Err _ => False
  end.
Proof. vm_compute. repeat split. Qed.

Example C19_example_refusals :
  (* "2.0.0".."1.0.0" *)
  expand Function (mkAttr (KEndpoint GET None None BNone) ex_path [] None false false
     (VSFromUntil (SLit [50;46;48;46;48]) (SLit [49;46;48;46;48])) [] ex_name)
    = Err (CompileErrors [EOrder]) /\
  (* the same through constants: compiles, panics when constructed *)
  expand TraitImpl (mkAttr (KEndpoint GET None None BNone) ex_path [] None false false
     (VSFromUntil (SIdent [65] (plain 2 0 0)) (SIdent [66] (plain 1 0 0))) [] ex_name)
    = Err PanicFromUntil /\
  (* "1.0.0-rc.1".. *)
  expand Function (mkAttr KChannel ex_path [] None false false
     (VSFrom (SLit [49;46;48;46;48;45;114;99;46;49])) [] ex_name)
    = Err (CompileErrors [EPrerelease]) /\
  (* wildcard path, published, content type text/x *)
  expand TraitStub (mkAttr (KEndpoint GET (Some [116;101;120;116;47;120]) None BNone)
     [47;123;114;58;46;42;125] [] None false false VSAbsent [] ex_name)
    = Err (CompileErrors [EWildcardPublished; EContentType]).
Proof. vm_compute. repeat split. Qed.

Example C19_example_meets_spec_hypotheses :
  accepted ex_attr = true /\
  versions_wf (a_versions ex_attr) = true /\ compiles ex_attr = true.
Proof. vm_compute. repeat split. Qed.

(* the former K19 witness "\n Summary\n * bullet\n text\n ": the star is kept;
   and a decorated block "\n * Summary\n * * bullet\n *text\n " loses exactly
   its decoration *)
Example C19_former_K19_witness :
  let d := [[10;32;83;117;109;109;97;114;121;10;32;42;32;98;117;108;108;101;116;10;32;116;101;120;116;10;32]] in
  summary (extract d) = Some [83;117;109;109;97;114;121] /\
  description (extract d) = Some [42;32;98;117;108;108;101;116;32;116;101;120;116] /\
  declared_text d = [83;117;109;109;97;114;121;42;98;117;108;108;101;116;116;101;120;116].
Proof. vm_compute. repeat split. Qed.

Example C19_decorated_block :
  let d := [[10;32;42;32;83;117;109;109;97;114;121;10;32;42;32;42;32;98;117;108;108;101;116;10;32;42;116;101;120;116;10;32]] in
  summary (extract d) = Some [83;117;109;109;97;114;121] /\
  description (extract d) = Some [42;32;98;117;108;108;101;116;32;116;101;120;116].
Proof. vm_compute. repeat split. Qed.

Print Assumptions C19_fields_as_declared.
Print Assumptions C19_endpoint_iff_accepted.
Print Assumptions C19_error_classes.
Print Assumptions C19_styles_agree.
Print Assumptions C19_styles_same_routing_and_documents.
Print Assumptions C19_served_as_declared.
Print Assumptions C19_documented_as_declared.
Print Assumptions C19_doc_lossless.
Print Assumptions C19_summary_first_line.
Print Assumptions C19_summary_description_split.
Print Assumptions C19_doc_text_lossless.
Print Assumptions C19_undecorated_keeps_lines.
Print Assumptions C19_doc_lossless_b.
Print Assumptions C19_non_literal_attributes_skipped.
Print Assumptions C19_attributes_text_lossless.
Print Assumptions C19_documented_text_lossless.
Print Assumptions C19_literal_plain.
Print Assumptions C19_literal_refusals.
Print Assumptions C19_literal_pair_order.
Print Assumptions C19_ident_pair_order.
Print Assumptions C19_wildcard_needs_unpublished.
Print Assumptions C19_channel_wildcard_refused.
Print Assumptions C19_bad_content_type_refused.
Print Assumptions C19_model_meets_spec.
Print Assumptions C19_tag_config_as_declared.
Print Assumptions C19_registered_iff_complies.
Print Assumptions C19_build_ok_iff.
Print Assumptions C19_refused_are_the_noncompliant_declarations.
Print Assumptions C19_declared_policy_in_force.
Print Assumptions C19_tag_check_styles_agree.
Print Assumptions C19_tagcfg_model_meets_spec.
