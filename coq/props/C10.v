(* C10 — Invalid input is refused with a 4xx before any handler runs.
   Statements only; each closed by [exact] of a lemma proved in theories/.
   Same model as C09 (Extract.v). *)
From DS Require Import Base Utf8 Pct PctProofs Scalars ScalarsProofs Query QueryProofs
     Extract ExtractProofs.

(* ---- clause 1: every error an extractor produces is a 400 ---- *)

(* every constructor site of an extraction error uses
   HttpError::for_bad_request; only a panic has no status *)
Theorem C10_every_error_is_400 : forall e, (forall p, e <> XPanic p) -> xerr_status e = Some 400.
Proof. exact xerr_status_400. Qed.

(* path: for a struct without stub fields (registration's scalar check) *)
Theorem C10_path_errors_400 : forall sp ws e,
  no_stub sp = true -> extract_path sp ws = Err e -> xerr_status e = Some 400.
Proof. exact path_errors_400. Qed.

Theorem C10_query_errors_400 : forall sp q e,
  extract_query sp q = Err e -> xerr_status e = Some 400.
Proof. exact query_errors_400. Qed.

Theorem C10_untyped_body_errors_400 : forall cap frames e,
  extract_untyped_body cap frames = Err e -> xerr_status e = Some 400.
Proof. exact untyped_body_errors_400. Qed.

Theorem C10_multipart_errors_400 : forall h e,
  extract_multipart h = Err e -> xerr_status e = Some 400.
Proof. exact multipart_errors_400. Qed.

(* several extractors: the first failing one decides, still a 400 *)
Theorem C10_extract3_errors_400 : forall (A B C : Type)
  (a : res xerr A) (b : res xerr B) (c : res xerr C) e,
  (forall e, a = Err e -> xerr_status e = Some 400) ->
  (forall e, b = Err e -> xerr_status e = Some 400) ->
  (forall e, c = Err e -> xerr_status e = Some 400) ->
  extract3 a b c = Err e -> xerr_status e = Some 400.
Proof. exact (fun A B C => @extract3_errors_400 A B C). Qed.

(* ---- in particular ---- *)

(* wrong type / unparsable scalar, in any query position *)
Theorem C10_query_bad_scalar_refused : forall sp q k s t p,
  wf_spec sp = true -> In (k, s) (form_parse q) -> assoc k sp = Some (KScalar t p) ->
  parse_scalar t s = None ->
  exists e, extract_query sp (Some q) = Err e /\ xerr_status e = Some 400.
Proof. exact query_bad_scalar_refused. Qed.

(* ... in any path position *)
Theorem C10_path_bad_scalar_refused : forall sp ws x e s t p,
  wf_spec sp = true -> no_stub sp = true -> names_distinct (map fst ws) = true ->
  In (x, WOne e) ws -> decode_segment e = Ok s ->
  assoc x sp = Some (KScalar t p) -> parse_scalar t s = None ->
  exists err, extract_path sp ws = Err err /\ xerr_status err = Some 400.
Proof. exact path_bad_scalar_refused. Qed.

(* an ill-typed element in a wildcard variable's sequence (Vec<T>): ONE bad
   element - first, middle or last, alone or among valid ones - fails the
   whole extraction; the sequence is never cut short *)
Theorem C10_sequence_bad_element_fails_whole : forall t l s,
  In s l -> parse_scalar t s = None -> exists e, from_map_elems t l = Err e.
Proof. exact from_map_elems_bad. Qed.

Theorem C10_path_bad_sequence_element_refused : forall sp ws x es l s t,
  wf_spec sp = true -> no_stub sp = true -> names_distinct (map fst ws) = true ->
  In (x, WMany es) ws -> decode_segments es = Ok l -> In s l ->
  assoc x sp = Some (KSeq t) -> parse_scalar t s = None ->
  exists err, extract_path sp ws = Err err /\ xerr_status err = Some 400.
Proof. exact path_bad_seq_element_refused. Qed.

(* and what a handler does get is, element by element, the parse of the
   decoded segment at that position *)
Theorem C10_sequence_field_sound : forall t l v,
  from_map_field (KSeq t) (VMany l) = Ok v ->
  exists xs, v = FvSeq xs /\ Forall2 (fun s x => parse_scalar t s = Some x) l xs.
Proof. exact seq_field_sound. Qed.

(* out-of-range numbers and unknown enum variants ARE unparsable scalars *)
Theorem C10_out_of_range_unparsable : forall sg bits z,
  int_in_range sg bits z = false -> parse_scalar (TInt sg bits) (print_int z) = None.
Proof. exact out_of_range_unparsable. Qed.

Theorem C10_unknown_variant_unparsable : forall vs s,
  mem_str s vs = false -> parse_scalar (TEnum vs) s = None.
Proof. exact unknown_variant_unparsable. Qed.

Theorem C10_query_missing_required_refused : forall sp q k t,
  wf_spec sp = true -> In (k, KScalar t PReq) sp -> assoc k (form_parse q) = None ->
  exists e, extract_query sp (Some q) = Err e /\ xerr_status e = Some 400.
Proof. exact query_missing_required_refused. Qed.

Theorem C10_query_duplicate_refused : forall sp q pre k s post,
  wf_spec sp = true -> form_parse q = pre ++ (k, s) :: post ->
  assoc k sp <> None -> mem_str k (map fst post) = true ->
  exists e, extract_query sp (Some q) = Err e /\ xerr_status e = Some 400.
Proof. exact query_duplicate_refused. Qed.

(* soundness: what a handler gets from the query was parsed, field by field,
   from the text the client sent under that name *)
Theorem C10_extract_query_sound : forall sp q vals,
  wf_spec sp = true -> extract_query sp (Some q) = Ok vals ->
  Forall2 (fun f v =>
             match assoc (fst f) (form_parse q) with
             | Some s => urlenc_field (snd f) s = Ok v
             | None => missing (fst f) (snd f) = Ok v
             end) sp vals.
Proof. exact extract_query_sound. Qed.

Theorem C10_urlenc_field_typed : forall t p s v,
  urlenc_field (KScalar t p) s = Ok v ->
  exists x, parse_scalar t s = Some x /\ sval_ok t x = true /\
            (v = FvOne x \/ v = FvOpt (Some x)).
Proof. exact urlenc_field_typed. Qed.

Section C10_typed_bodies.
  (* serde_json for the endpoint's body type, as body.rs calls it: the whole
     buffer must be one JSON document *)
  Variable V : Type.
  Variable json_de : str -> option V.

  Theorem C10_typed_body_errors_400 : forall expected sp h cap frames e,
    extract_typed_body json_de expected sp h cap frames = Err e -> xerr_status e = Some 400.
  Proof. exact (typed_body_errors_400 V json_de). Qed.

  (* wrong / unknown / garbage / non-ASCII content type *)
  Theorem C10_wrong_content_type_refused : forall expected sp v cap frames,
    from_mime_type (mime_type_of v) <> Some expected \/ header_is_str v = false ->
    exists e, extract_typed_body json_de expected sp (HVal v) cap frames = Err e
              /\ xerr_status e = Some 400.
  Proof. exact (wrong_content_type_refused V json_de). Qed.

  (* malformed JSON: whatever is not, as a whole, one JSON text of the body
     type ([json_de]: deserialize one value, then Deserializer::end()) *)
  Theorem C10_malformed_json_refused : forall sp h cap frames body,
    buffer_body cap frames = Ok body -> json_de body = None ->
    exists e, extract_typed_body json_de CtJson sp h cap frames = Err e
              /\ xerr_status e = Some 400.
  Proof. exact (malformed_json_refused V json_de). Qed.
End C10_typed_bodies.

(* ---- clause 2: no handler on an extraction error ---- *)

Theorem C10_no_handler_on_extract_error : forall (A : Type) (x : res xerr A) e,
  x = Err e -> handle x = Responded (xerr_status e) /\ entered (handle x) = false.
Proof. exact (fun A => @no_handler_on_extract_error A). Qed.

Theorem C10_handler_entered_iff : forall (A : Type) (x : res xerr A) a,
  handle x = HandlerEntered a <-> x = Ok a.
Proof. exact (fun A => @handler_entered_iff A). Qed.

Theorem C10_all_extractors_must_succeed : forall (A B C : Type)
  (a : res xerr A) (b : res xerr B) (c : res xerr C) x y z,
  extract3 a b c = Ok (x, y, z) <-> a = Ok x /\ b = Ok y /\ c = Ok z.
Proof. exact (fun A B C => @extract3_ok_iff A B C). Qed.

(* with faults at several stages at once, the first failing extractor in
   argument order decides the response; later stages are never consulted *)
Theorem C10_first_failing_extractor_decides : forall (A B C : Type)
  (a : res xerr A) (b : res xerr B) (c : res xerr C) e,
  extract3 a b c = Err e <->
  a = Err e \/ (exists x, a = Ok x /\ b = Err e) \/ (exists x y, a = Ok x /\ b = Ok y /\ c = Err e).
Proof. exact (fun A B C => @extract3_err_iff A B C). Qed.

Theorem C10_handler_entered_iff_all_stages_ok : forall (A B C : Type)
  (a : res xerr A) (b : res xerr B) (c : res xerr C),
  entered (handle (extract3 a b c)) = is_ok a && is_ok b && is_ok c.
Proof. exact (fun A B C => @handler_entered_iff_all_ok A B C). Qed.

(* ---- clause 3: never a panic ---- *)

(* the assert! of http_extract_path_params never fires *)
Theorem C10_assert_never_fires : forall e,
  starts_with MISSING_FIELD_COLON (merr_message_head e) = false.
Proof. exact assert_never_fires. Qed.

(* ... whatever client-supplied text (the echoed raw segment) follows the
   fixed head of the message: no path VALUE can make it fire *)
Theorem C10_assert_never_fires_on_client_text : forall e (client_text : str),
  starts_with MISSING_FIELD_COLON (merr_message_head e ++ client_text) = false.
Proof. exact assert_never_fires_any_tail. Qed.

(* neither it nor an unimplemented! stub is reachable for a struct that
   registration accepts *)
Theorem C10_path_never_panics : forall sp ws p,
  no_stub sp = true -> extract_path sp ws <> Err (XPanic p).
Proof. exact path_never_panics. Qed.

(* and the condition the assert! was written for cannot arise when the
   struct's fields are the template's variables *)
Theorem C10_registered_path_has_no_missing_field : forall sp ws k,
  wf_spec sp = true -> names_distinct (map fst ws) = true ->
  (forall name kind, In (name, kind) sp -> has_key name ws = true) ->
  extract_path sp ws <> Err (XBadPath (MMissing k)).
Proof. exact path_registered_no_missing. Qed.

(* non-vacuity *)
Example C10_ex_stub_reachable :
  extract_path [([118], KStub)] [([118], WOne [120])] = Err (XPanic PUnimplementedStub).
Proof. exact stub_reachable. Qed.

(* u8 field: "256" / "abc" / missing / twice *)
Example C10_ex_query :
  let sp := [([118], KScalar (TInt false 8) PReq)] in
  extract_query sp (Some [118; 61; 50; 53; 54]) = Err (XBadQuery MParse) /\
  extract_query sp (Some [118; 61; 97; 98; 99]) = Err (XBadQuery MParse) /\
  extract_query sp None = Err (XBadQuery (MMissing [118])) /\
  extract_query sp (Some [118; 61; 49; 38; 118; 61; 49]) = Err (XBadQuery (MDuplicate [118])) /\
  extract_query sp (Some [118; 61; 50; 53; 53]) = Ok [FvOne (VInt 255)].
Proof. vm_compute. repeat split. Qed.

(* /colors/Red/purple/green and /colors/purple for {rest: Vec<Color>}: refused, not cut short *)
Example C10_ex_typed_wildcard :
  let colors := [[82;101;100]; [103;114;101;101;110]] in
  extract_path [([114], KSeq (TEnum colors))]
               [([114], WMany [[82;101;100]; [112;117;114;112;108;101]; [103;114;101;101;110]])]
  = Err (XBadPath MUnknownVariant) /\
  extract_path [([114], KSeq (TEnum colors))] [([114], WMany [[112;117;114;112;108;101]])]
  = Err (XBadPath MUnknownVariant) /\
  extract_path [([114], KSeq (TEnum colors))] [([114], WMany [])] = Ok [FvSeq []].
Proof. vm_compute. repeat split. Qed.

Example C10_ex_content_type :
  from_mime_type (mime_type_of [116; 101; 120; 116; 47; 112; 108; 97; 105; 110]) = None /\
  header_is_str [97; 195; 169] = false.
Proof. vm_compute. split; reflexivity. Qed.

Print Assumptions C10_every_error_is_400.
Print Assumptions C10_path_errors_400.
Print Assumptions C10_query_errors_400.
Print Assumptions C10_untyped_body_errors_400.
Print Assumptions C10_multipart_errors_400.
Print Assumptions C10_extract3_errors_400.
Print Assumptions C10_query_bad_scalar_refused.
Print Assumptions C10_path_bad_scalar_refused.
Print Assumptions C10_sequence_bad_element_fails_whole.
Print Assumptions C10_path_bad_sequence_element_refused.
Print Assumptions C10_sequence_field_sound.
Print Assumptions C10_out_of_range_unparsable.
Print Assumptions C10_unknown_variant_unparsable.
Print Assumptions C10_query_missing_required_refused.
Print Assumptions C10_query_duplicate_refused.
Print Assumptions C10_extract_query_sound.
Print Assumptions C10_urlenc_field_typed.
Print Assumptions C10_typed_body_errors_400.
Print Assumptions C10_wrong_content_type_refused.
Print Assumptions C10_malformed_json_refused.
Print Assumptions C10_no_handler_on_extract_error.
Print Assumptions C10_handler_entered_iff.
Print Assumptions C10_all_extractors_must_succeed.
Print Assumptions C10_first_failing_extractor_decides.
Print Assumptions C10_handler_entered_iff_all_stages_ok.
Print Assumptions C10_assert_never_fires.
Print Assumptions C10_assert_never_fires_on_client_text.
Print Assumptions C10_path_never_panics.
Print Assumptions C10_registered_path_has_no_missing_field.
