(* C04 — Unmatched requests get 404 or 405 with a truthful Allow header.
   Statements only (lemmas in theories/RouterProofs.v).  [tserves d segs v]:
   declaration d's template matches the path and its range contains the
   version — the method left free. *)
From DS Require Import Base Versions VersionsProofs Router RouterSpec RouterProofs Pct PathNorm Route Pipeline PipelineProofs.

Section C04.
  Variable V : Type.
  Variable cmp : V -> V -> comparison.

  (* 1. 404 exactly when the path is served for no method at this version *)
  Theorem C04_404_iff : forall (eps : list (decl V)) r m segs v,
    build V cmp eps = Ok r ->
    (lookup V cmp r m segs v = E404 <-> forall d, In d eps -> tserves V cmp d segs v = false).
  Proof. exact (table_404_iff V cmp). Qed.

  (* 2. a 405 lists exactly the methods for which that path is served at that
     version — sorted, without duplicates, never empty — and the request's own
     method is not served *)
  Theorem C04_405_allow_exact : forall (eps : list (decl V)) r m segs v allow,
    build V cmp eps = Ok r -> lookup V cmp r m segs v = E405 allow ->
    allow <> [] /\ keys_sorted allow /\
    (forall k, In k allow <->
               exists d, In d eps /\ tserves V cmp d segs v = true /\ str_upper (e_method (snd d)) = k) /\
    (forall d, In d eps -> serves V cmp d m segs v = None).
  Proof. exact (table_405 V cmp). Qed.

  (* 3. 405 exactly when the path is served at this version for some method
     but not for the request's *)
  Theorem C04_405_iff : forall (r : node V) m segs v,
    wfn V r ->
    ((exists allow, lookup V cmp r m segs v = E405 allow) <->
     (exists k, tserved V cmp r segs v k) /\ ~ tserved V cmp r segs v (str_upper m)).
  Proof. exact (lookup_405_iff V cmp). Qed.

  (* 4. the three outcomes are exhaustive on a registered table (with 1-3 and
     C01.1 a total decision table); neither error outcome names a handler *)
  Theorem C04_outcomes_exhaustive : forall (r : node V) m segs v,
    wfn V r ->
    (exists e vars, lookup V cmp r m segs v = Found e vars) \/
    lookup V cmp r m segs v = E404 \/
    (exists allow, lookup V cmp r m segs v = E405 allow).
  Proof. exact (lookup_exhaustive V cmp). Qed.

  (* 5. through the whole request pipeline (Pipeline.v): 404 exactly when the
     policy yields a version, the path normalises and no declaration serves
     the path at that version under any method; a 405 carries exactly the
     methods served there *)
  Theorem C04_pipeline_404_iff : forall (parse : str -> option V) (p : policy V) (eps : list (decl V)) r m rawpath h,
    build V cmp eps = Ok r ->
    (handle V cmp parse p r m rawpath h = HNotFound <->
     exists ov segs, request_version V cmp parse p h = Ok ov /\ input_segments rawpath = Ok segs /\
                     forall d, In d eps -> tserves V cmp d segs ov = false).
  Proof. exact (handle_404_iff V cmp). Qed.

  Theorem C04_pipeline_405 : forall (parse : str -> option V) (p : policy V) (eps : list (decl V)) r m rawpath h allow,
    build V cmp eps = Ok r -> handle V cmp parse p r m rawpath h = HNotAllowed allow ->
    exists ov segs, request_version V cmp parse p h = Ok ov /\ input_segments rawpath = Ok segs /\
      allow <> [] /\ keys_sorted allow /\
      (forall k, In k allow <->
                 exists d, In d eps /\ tserves V cmp d segs ov = true /\ str_upper (e_method (snd d)) = k) /\
      (forall d, In d eps -> serves V cmp d m segs ov = None).
  Proof. exact (handle_405 V cmp). Qed.
End C04.

(* non-vacuity: versions at which only some methods of a path exist *)
Definition ex_ep (id m : str) (r : vrange N) : endpoint N := mkEp id m r 0 None true.
Definition GET : str := [71;69;84].
Definition PUT : str := [80;85;84].
Definition DELETE : str := [68;69;76;69;84;69].
Definition ex_table : list (decl N) :=
  [ ([PLit [121]], ex_ep [49] GET (VUntil 2));
    ([PLit [121]], ex_ep [50] PUT (VFrom 2));
    ([PLit [121]], ex_ep [51] DELETE (VFrom 3)) ].
Example C04_nonvacuous :
  match build N N.compare ex_table with
  | Ok r =>
      lookup N N.compare r GET [[121]] (Some 2) = E405 [PUT] /\
      lookup N N.compare r GET [[121]] (Some 5) = E405 [DELETE; PUT] /\
      lookup N N.compare r DELETE [[121]] (Some 1) = E405 [GET] /\
      lookup N N.compare r GET [[122]] (Some 1) = E404
  | Err _ => False
  end.
Proof. vm_compute. repeat split. Qed.

Print Assumptions C04_404_iff.
Print Assumptions C04_405_allow_exact.
Print Assumptions C04_405_iff.
Print Assumptions C04_outcomes_exhaustive.
Print Assumptions C04_pipeline_404_iff.
Print Assumptions C04_pipeline_405.
