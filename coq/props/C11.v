(* C11 — Request bodies larger than the limit are never delivered.

   "For every endpoint the effective limit is its own override or else the
   server default; a body of at most that many bytes is accepted and
   delivered intact, and any larger body is refused with a 400-level error
   however it is framed or chunked.  No handler, buffered or streaming, ever
   observes more body bytes than the limit."

   Statements only; each closed by [exact] of a lemma of
   theories/BodyCapProofs.v.  All are about the model theories/BodyCap.v
   (StreamingBody::into_stream as a left fold over the body's frames), for
   every cap, every frame list — data frames of any sizes including empty
   ones, trailers frames, network-error frames — with no bound on anything. *)
From DS Require Import Base BodyCap BodyCapProofs.

(* 1. "the effective limit is its own override or else the server default":
   the value the extractors use for a request routed to endpoint [e] on a
   server whose default is [default]. *)
Theorem C11_cap_selected : forall (e : endpoint_decl) (default : N),
  request_body_max_bytes {| rq_endpoint := lookup_meta e; rq_default := default |} =
  match ed_max e with Some n => n | None => default end.
Proof. exact cap_selected. Qed.

(* 2. "No handler ... ever observes more body bytes than the limit": the
   chunks yielded by the capped stream never total more than cap ... *)
Theorem C11_never_exceeds : forall cap fs, total (fst (stream cap fs)) <= cap.
Proof. exact never_exceeds. Qed.

(* ... at any moment (after any number k of frames), and what was seen by
   then stays an initial part of what is seen later *)
Theorem C11_never_exceeds_at_any_moment : forall cap fs k,
  total (fst (stream cap (firstn k fs))) <= cap /\
  exists more, fst (stream cap fs) = fst (stream cap (firstn k fs)) ++ more.
Proof. exact (fun cap fs k => conj (never_exceeds_prefix cap fs k) (prefix_mono cap fs k)). Qed.

(* ... and the chunks are the body's own data frames, in order, unaltered *)
Theorem C11_yielded_is_prefix_of_body : forall cap fs,
  exists rest, data_frames fs = fst (stream cap fs) ++ rest.
Proof. exact yielded_prefix. Qed.

(* 3. "a body of at most that many bytes is accepted ... any larger body is
   refused ... however it is framed or chunked": without network errors the
   stream ends normally iff the body's total size is at most cap, whatever
   the frame boundaries *)
Theorem C11_accept_iff_fits : forall cap fs,
  has_err fs = false -> (snd (stream cap fs) = Done <-> total_data fs <= cap).
Proof. exact accept_iff_fits. Qed.

(* with network errors in the picture: normal end iff no error frame and the
   body fits *)
Theorem C11_done_iff : forall cap fs,
  snd (stream cap fs) = Done <-> has_err fs = false /\ total_data fs <= cap.
Proof. exact done_iff. Qed.

(* "delivered intact" *)
Theorem C11_delivered_intact : forall cap fs,
  snd (stream cap fs) = Done ->
  fst (stream cap fs) = data_frames fs /\ concat (fst (stream cap fs)) = body_of fs.
Proof. exact delivered_intact. Qed.

(* "refused with a 400-level error": the only other outcomes carry status 400 *)
Theorem C11_oversize_refused : forall cap fs,
  has_err fs = false -> cap < total_data fs ->
  snd (stream cap fs) = Refused400 /\ outcome_status Refused400 = Some 400.
Proof. exact (fun cap fs He Hf => conj (stream_over cap fs He Hf) eq_refl). Qed.

Theorem C11_network_error_is_400 : forall cap fs,
  has_err fs = true ->
  snd (stream cap fs) = NetErr400 /\ outcome_status NetErr400 = Some 400.
Proof. exact (fun cap fs He => conj (stream_err cap fs He) eq_refl). Qed.

(* the buffered reader: Ok exactly for bodies that fit, and then the body *)
Theorem C11_buffered : forall cap fs b,
  into_bytes_mut cap fs = Ok b <->
  has_err fs = false /\ total_data fs <= cap /\ b = body_of fs.
Proof. exact into_bytes_mut_ok_iff. Qed.

Theorem C11_buffered_oversize : forall cap fs,
  cap < total_data fs -> into_bytes_mut cap fs = Err 400.
Proof. exact into_bytes_mut_over. Qed.

(* the whole body is pulled off the connection in either case *)
Theorem C11_drained : forall cap fs,
  has_err fs = false -> frames_polled cap fs = N.of_nat (length fs).
Proof. exact drained. Qed.

(* 4. "however it is framed or chunked": two framings of the same bytes
   (agreeing on whether the network fails) have the same outcome and the
   same buffered result.  Empty data frames and trailers frames are allowed
   anywhere.  NOT determined by the bytes alone, and not claimed: the chunk
   list a streaming handler sees and how many bytes it sees before the
   refusal (Example C11_chunking_shows_through below). *)
Theorem C11_chunking_irrelevant : forall cap fs fs',
  has_err fs = has_err fs' -> body_of fs = body_of fs' ->
  snd (stream cap fs) = snd (stream cap fs') /\
  into_bytes_mut cap fs = into_bytes_mut cap fs'.
Proof. exact chunking_irrelevant. Qed.

(* replaying the model on the chunks a handler saw plus the unseen remainder
   as one frame reproduces the run (how live observations are compared) *)
Theorem C11_stream_witness : forall cap fs,
  has_err fs = false ->
  let ys := fst (stream cap fs) in
  let rest := skipn (length (concat ys)) (body_of fs) in
  stream cap (map FData ys ++ (if is_nil rest then [] else [FData rest])) = stream cap fs.
Proof. exact stream_witness. Qed.

(* the stream looks at data frames only through their lengths: running the
   length-level stream on the frames' lengths gives exactly the sizes of the
   chunks yielded, the outcome and the number of frames pulled (how runs on
   bodies of mebibytes and gibibytes are compared with the model) *)
Theorem C11_stream_depends_on_lengths : forall cap fs,
  stream_len cap (map lframe_of fs) = (map blen (fst (stream cap fs)), snd (stream cap fs)) /\
  frames_polled_len cap (map lframe_of fs) = frames_polled cap fs.
Proof. exact stream_len_abs. Qed.

(* the usize addition [bytes_read + len] of the Rust does not wrap — side
   condition: the body is smaller than 2^64 bytes *)
Theorem C11_usize_no_wrap : forall cap fs,
  total_data fs < two64 -> stream64 cap fs = stream cap fs.
Proof. exact stream64_eq. Qed.

(* 5. every body extractor: typed JSON, typed url-encoded, untyped,
   streaming, multipart.  The deserialisers and the multipart parser are
   arbitrary functions. *)
Section C11_extractors.
  Variable T : Type.
  Variable json_de form_de : str -> option T.
  Variable M : Type.
  Variable multer : list str -> outcome -> M.

  (* each obtains the body through [stream (request_body_max_bytes rq)] and
     through nothing else *)
  Theorem C11_all_extractors_capped : forall x rq h fs,
    extract T json_de form_de M multer x rq h fs =
    extract_via T json_de form_de M multer x (rm_ct (rq_endpoint rq)) h
                (stream (request_body_max_bytes rq) fs).
  Proof. exact (all_extractors_capped T json_de form_de M multer). Qed.

  (* the bytes exposed to the code behind the extractor (deserialiser input,
     handler buffer, stream chunks, the multipart parser's input) number at
     most cap *)
  Theorem C11_exposed_bounded : forall x cap (h : req_hdrs) fs,
    blen (exposed x cap h fs) <= cap.
  Proof. exact exposed_bounded. Qed.

  (* and are the whole body when it fits *)
  Theorem C11_exposed_intact : forall x cap (h : req_hdrs) fs,
    has_err fs = false -> total_data fs <= cap -> h_mp h = MHOk ->
    exposed x cap h fs = body_of fs.
  Proof. exact exposed_intact. Qed.

  (* oversize: the buffered extractors fail with 400 (the handler is not
     called), whatever the framing, even with network errors *)
  Theorem C11_buffered_extractors_refuse : forall x rq h fs,
    request_body_max_bytes rq < total_data fs ->
    (x = XJson \/ x = XForm \/ x = XUntyped) ->
    extract T json_de form_de M multer x rq h fs = DRefused 400 /\
    handler_called T M (DRefused 400) = false.
  Proof.
    exact (fun x rq h fs Hf Hx =>
             conj (buffered_refused T json_de form_de M multer x rq h fs Hf Hx) eq_refl).
  Qed.

  (* oversize: a streaming handler gets at most cap bytes and then the 400 *)
  Theorem C11_streaming_refuses : forall rq h fs,
    has_err fs = false -> request_body_max_bytes rq < total_data fs ->
    exists ys, extract T json_de form_de M multer XStreaming rq h fs = DStream ys Refused400 /\
               total ys <= request_body_max_bytes rq.
  Proof. exact (streaming_refused T json_de form_de M multer). Qed.

  (* oversize: the multipart parser is fed at most cap bytes and then the 400 *)
  Theorem C11_multipart_refuses : forall rq h fs,
    has_err fs = false -> request_body_max_bytes rq < total_data fs -> h_mp h = MHOk ->
    exists ys, extract T json_de form_de M multer XMultipart rq h fs =
               DMultipart (multer ys Refused400) /\
               total ys <= request_body_max_bytes rq.
  Proof. exact (multipart_refused T json_de form_de M multer). Qed.

  (* fits: accepted and delivered intact, whatever the framing *)
  Theorem C11_untyped_accepts : forall rq h fs,
    has_err fs = false -> total_data fs <= request_body_max_bytes rq ->
    extract T json_de form_de M multer XUntyped rq h fs = DBytes (body_of fs).
  Proof. exact (untyped_accepts T json_de form_de M multer). Qed.

  Theorem C11_streaming_accepts : forall rq h fs,
    has_err fs = false -> total_data fs <= request_body_max_bytes rq ->
    extract T json_de form_de M multer XStreaming rq h fs = DStream (data_frames fs) Done.
  Proof. exact (streaming_accepts T json_de form_de M multer). Qed.

  Theorem C11_multipart_accepts : forall rq h fs,
    has_err fs = false -> total_data fs <= request_body_max_bytes rq -> h_mp h = MHOk ->
    extract T json_de form_de M multer XMultipart rq h fs =
    DMultipart (multer (data_frames fs) Done).
  Proof. exact (multipart_accepts T json_de form_de M multer). Qed.

  Theorem C11_typed_json_accepts : forall rq fs v,
    has_err fs = false -> total_data fs <= request_body_max_bytes rq ->
    rm_ct (rq_endpoint rq) = CJson -> json_de (body_of fs) = Some v ->
    forall h, (h_ct h = RAbsent \/ h_ct h = RKnown CJson) ->
    extract T json_de form_de M multer XJson rq h fs = DTyped v.
  Proof. exact (typed_json_accepts T json_de form_de M multer). Qed.

  Theorem C11_typed_form_accepts : forall rq fs v,
    has_err fs = false -> total_data fs <= request_body_max_bytes rq ->
    rm_ct (rq_endpoint rq) = CUrlEncoded -> form_de (body_of fs) = Some v ->
    forall h, h_ct h = RKnown CUrlEncoded ->
    extract T json_de form_de M multer XForm rq h fs = DTyped v.
  Proof. exact (typed_form_accepts T json_de form_de M multer). Qed.
End C11_extractors.

(* ------------------------------------------------------------------ *)
(* non-vacuity: the model evaluates, every outcome occurs, hypotheses are
   satisfiable *)

(* exactly at the cap: accepted; one byte more: refused; the boundary is
   [bytes_read + len > cap] *)
Example C11_boundary :
  stream 3 [FData [1;2]; FData [3]] = ([[1;2];[3]], Done) /\
  stream 3 [FData [1;2]; FData [3;4]] = ([[1;2]], Refused400) /\
  stream 3 [FData [1;2;3;4]] = ([], Refused400) /\
  stream 0 [] = ([], Done) /\
  stream 0 [FData []] = ([[]], Done) /\
  stream 0 [FData [7]] = ([], Refused400).
Proof. vm_compute. repeat split. Qed.

(* the same bytes, three framings: same outcome, different views *)
Example C11_chunking_shows_through :
  stream 3 [FData [1;2]; FData [3;4]] = ([[1;2]], Refused400) /\
  stream 3 [FData [1]; FData [2]; FData [3]; FData [4]] = ([[1];[2];[3]], Refused400) /\
  stream 3 [FData [1;2;3;4]] = ([], Refused400).
Proof. vm_compute. repeat split. Qed.

(* trailers are skipped; an error frame ends the stream with the 400, also
   while draining; after the refusal the rest is drained (all 4 frames
   pulled) *)
Example C11_trailers_errors_drain :
  stream 3 [FData [1]; FTrailers; FData [2;3]; FTrailers] = ([[1];[2;3]], Done) /\
  stream 3 [FData [1]; FErr; FData [2]] = ([[1]], NetErr400) /\
  stream 1 [FData [1;2]; FData [3]; FErr] = ([], NetErr400) /\
  frames_polled 1 [FData [1;2]; FData [3]; FTrailers; FData [4]] = 4 /\
  frames_polled 3 [FData [1]; FErr; FData [2]] = 2.
Proof. vm_compute. repeat split. Qed.

(* hypotheses of the theorems are satisfiable on both sides of the cap *)
Example C11_hypotheses_satisfiable :
  (has_err [FData [1]; FTrailers] = false /\ total_data [FData [1]; FTrailers] <= 1) /\
  (has_err [FData [1;2]] = false /\ 1 < total_data [FData [1;2]]) /\
  has_err [FErr] = true /\
  (has_err [FData [1]; FData [2]] = has_err [FData [1;2]; FData []] /\
   body_of [FData [1]; FData [2]] = body_of [FData [1;2]; FData []]).
Proof. vm_compute. repeat split; discriminate. Qed.

(* the override wins over the default in both directions *)
Example C11_cap_examples :
  effective_cap (Some 5) 1024 = 5 /\ effective_cap (Some 2048) 7 = 2048 /\
  effective_cap None 7 = 7 /\ effective_cap (Some 0) 7 = 0.
Proof. vm_compute. repeat split. Qed.

(* with the machine addition a wrap would be possible only beyond 2^64 bytes *)
Example C11_wrap_needs_2_64 :
  add64 (two64 - 1) 1 = 0 /\ add64 5 7 = 12.
Proof. vm_compute. split; reflexivity. Qed.

Print Assumptions C11_cap_selected.
Print Assumptions C11_never_exceeds.
Print Assumptions C11_never_exceeds_at_any_moment.
Print Assumptions C11_yielded_is_prefix_of_body.
Print Assumptions C11_accept_iff_fits.
Print Assumptions C11_done_iff.
Print Assumptions C11_delivered_intact.
Print Assumptions C11_oversize_refused.
Print Assumptions C11_network_error_is_400.
Print Assumptions C11_buffered.
Print Assumptions C11_buffered_oversize.
Print Assumptions C11_drained.
Print Assumptions C11_chunking_irrelevant.
Print Assumptions C11_stream_witness.
Print Assumptions C11_stream_depends_on_lengths.
Print Assumptions C11_usize_no_wrap.
Print Assumptions C11_all_extractors_capped.
Print Assumptions C11_exposed_bounded.
Print Assumptions C11_exposed_intact.
Print Assumptions C11_buffered_extractors_refuse.
Print Assumptions C11_streaming_refuses.
Print Assumptions C11_multipart_refuses.
Print Assumptions C11_untyped_accepts.
Print Assumptions C11_streaming_accepts.
Print Assumptions C11_multipart_accepts.
Print Assumptions C11_typed_json_accepts.
Print Assumptions C11_typed_form_accepts.
