(* Run_C11.v — evaluates the C11 specification and the BodyCap model on what
   the real extractors did.  Verdict codes (shared by all Run_*.v):
     0 agree   1 violation (the specification is false of what the
     implementation did)   2 divergence (implementation <> model although the
     specification holds)   9 malformed case *)
From DS Require Import Base BodyCap.

Definition V_AGREE : N := 0.
Definition V_VIOLATION : N := 1.
Definition V_DIVERGE : N := 2.
Definition V_MALFORMED : N := 9.

Definition bool_eqb (a b : bool) : bool := if a then b else negb b.

(* ------------------------------------------------------------------ *)
(* bodies, written compactly *)

Inductive seg :=
| SLit (bs : str)
| SRep (b n : N)          (* n copies of byte b *)
| SPat (a d n : N).       (* n bytes of a fixed [0-9a-z] pattern *)

Definition alnum (k : N) : N := if k <? 10 then 48 + k else 87 + k.

(* [f 0; f 1; ...; f (n-1)] *)
Definition gen (n : N) (f : N -> N) : str :=
  snd (N.iter n (fun st : N * str => let i := fst st - 1 in (i, f i :: snd st)) (n, [])).

(* the pattern: k_0 = a, k_(i+1) = k_i + d (+1 after every 36th byte), all
   modulo 36 (a, d < 36); byte i = alnum k_i.  Written as a recurrence with a
   conditional subtraction so that 64 KiB bodies are generated quickly. *)
Definition pat_step (d : N) (st : N * N * str) : N * N * str :=
  let '(k, j, acc) := st in
  let j' := j + 1 in
  let k1 := if j' =? 36 then k + d + 1 else k + d in
  let k' := if 36 <=? k1 then k1 - 36 else k1 in
  (k', (if j' =? 36 then 0 else j'), alnum k :: acc).
Definition pat (a d n : N) : str :=
  let '(_, _, acc) := N.iter n (pat_step (d mod 36)) (a mod 36, 0, []) in rev' acc.

Definition expand_seg (s : seg) : str :=
  match s with
  | SLit bs => bs
  | SRep b n => gen n (fun _ => b)
  | SPat a d n => pat a d n
  end.
Definition expand (segs : list seg) : str := concat (map expand_seg segs).

(* position-sensitive checksum computed on both sides: the sum of the bytes
   and the sum of the running sums (exact, in unbounded arithmetic: no
   division, so that 64 KiB bodies are cheap) *)
Definition cks (bs : str) : N :=
  let r := fold_left
             (fun (st : N * N) x => let a := fst st + x in (a, snd st + a))
             bs (1, 0) in
  snd r * 4294967296 + fst r.

Definition sum (l : list N) : N := fold_right N.add 0 l.

(* running totals a streaming handler reports: every one must be <= cap *)
Fixpoint running_ok (cap acc : N) (sizes : list N) : bool :=
  match sizes with
  | [] => true
  | n :: r => (acc + n <=? cap) && running_ok cap (acc + n) r
  end.

(* ------------------------------------------------------------------ *)
(* the shapes of body the harness sends, and the library deserialisers on
   exactly those shapes (serde_json for String, serde_urlencoded for
   struct { s: String }, multer for one text field) *)

Definition is_alnum (b : N) : bool :=
  ((48 <=? b) && (b <=? 57)) || ((97 <=? b) && (b <=? 122)).

Fixpoint take_alnum (s : str) : str * str :=
  match s with
  | [] => ([], [])
  | x :: r => if is_alnum x then let (p, q) := take_alnum r in (x :: p, q) else ([], s)
  end.

(* "<alnum>*" followed by spaces *)
Definition json_str_de (s : str) : option str :=
  match s with
  | [] => None
  | x :: r =>
      if x =? 34 then
        let (p, q) := take_alnum r in
        match q with
        | [] => None
        | y :: t => if (y =? 34) && forallb (N.eqb 32) t then Some p else None
        end
      else None
  end.

(* s=<alnum>*   |   s *)
Definition form_s_de (s : str) : option str :=
  match s with
  | [] => None
  | a :: r =>
      if a =? 115 then
        match r with
        | [] => Some []
        | b :: p => if (b =? 61) && forallb is_alnum p then Some p else None
        end
      else None
  end.

(* --XB CRLF Content-Disposition: form-data; name="f" CRLF CRLF *)
Definition mp_prefix : str :=
  [45;45;88;66;13;10;
   67;111;110;116;101;110;116;45;68;105;115;112;111;115;105;116;105;111;110;58;32;
   102;111;114;109;45;100;97;116;97;59;32;110;97;109;101;61;34;102;34;13;10;13;10].
(* CRLF --XB-- *)
Definition mp_suffix : str := [13;10;45;45;88;66;45;45].

Fixpoint strip_prefix (p s : str) : option str :=
  match p, s with
  | [], _ => Some s
  | _ :: _, [] => None
  | x :: p', y :: s' => if x =? y then strip_prefix p' s' else None
  end.

Definition mp_de (s : str) : option str :=
  match strip_prefix mp_prefix s with
  | None => None
  | Some r => let (p, q) := take_alnum r in if str_eqb q mp_suffix then Some p else None
  end.

(* the field bytes present in an initial part of such a body *)
Definition mp_seen (s : str) : str :=
  match strip_prefix mp_prefix s with
  | None => []
  | Some r => fst (take_alnum r)
  end.

Inductive mres :=
| MFields (payload : str)     (* the stream ended normally and parsed *)
| MBad (stream : str)         (* the stream ended normally, not a complete multipart body *)
| MFail (stream : str).       (* the stream ended with the 400 error *)

Definition multer_model (ys : list str) (o : outcome) : mres :=
  match o with
  | Done => match mp_de (concat ys) with
            | Some p => MFields p
            | None => MBad (concat ys)
            end
  | Refused400 | NetErr400 => MFail (concat ys)
  end.

Definition ext := extract str json_str_de form_s_de mres multer_model.

(* ------------------------------------------------------------------ *)
(* cases *)

Inductive fcut := KData (n : N) | KTrailers | KErr.
Definition ds (l : list N) : list fcut := map KData l.

(* run-length notation for long lists of sizes: [(n, k)] is k copies of n
   (a 64 KiB body sent in 1-byte chunks is seen as tens of thousands of
   frames; the literal list would overflow coqc's parser stack) *)
Definition rl (l : list (N * N)) : list N :=
  flat_map (fun p => repeat (fst p) (N.to_nat (snd p))) l.

Fixpoint frames_of (body : str) (cuts : list fcut) : list frame :=
  match cuts with
  | [] => []
  | KData n :: r =>
      FData (firstn (N.to_nat n) body) :: frames_of (skipn (N.to_nat n) body) r
  | KTrailers :: r => FTrailers :: frames_of body r
  | KErr :: r => FErr :: frames_of body r
  end.

Definition cut_size (k : fcut) : N := match k with KData n => n | _ => 0 end.
Definition cuts_total (cuts : list fcut) : N := sum (map cut_size cuts).
Definition cuts_noerr (cuts : list fcut) : bool :=
  forallb (fun k => match k with KErr => false | _ => true end) cuts.

(* what the code behind an extractor observed *)
Inductive hobs :=
| HRefused (st : N)
    (* the extractor failed with this status: no handler code ran
       (live: no handler entry was recorded; st is the response status) *)
| HBuf (len cks : N)
    (* buffered extractors: the bytes (untyped) or the decoded string (typed)
       handed to the handler *)
| HStream (sizes : list N) (ck : N) (err : option N)
    (* streaming: sizes of the chunks received in order, checksum of all of
       them, status of the error item that ended the stream if any *)
| HMulti (flen fck : N) (err : bool)
    (* multipart: field bytes received, and whether multer reported an error *)
| HPanic.

(* request header variants of direct runs *)
(* 0 matching content type   1 header absent   2 the other typed content type
   / multipart without boundary   3 unsupported mime type   4 not text *)
Definition hdrs_of (x : xkind) (code : N) : option req_hdrs :=
  let expected := match x with
                  | XJson => CJson | XForm => CUrlEncoded
                  | XMultipart => CMultipart | _ => CBytes end in
  let other := match x with XJson => CUrlEncoded | _ => CJson end in
  match code with
  | 0 => Some {| h_ct := RKnown expected; h_mp := MHOk |}
  | 1 => Some {| h_ct := RAbsent; h_mp := MHMissing |}
  | 2 => Some {| h_ct := RKnown other; h_mp := MHBadBoundary |}
  | 3 => Some {| h_ct := RUnsupported; h_mp := MHBadBoundary |}
  | 4 => Some {| h_ct := RNotText; h_mp := MHNotText |}
  | _ => None
  end.

Inductive drun := DRun (cuts : list fcut) (hdr : N) (h : hobs) (polled : N).
Inductive lrun :=
| LRun (status : N) (h : hobs) (healthy : bool)
  (* the request carried BOTH Transfer-Encoding: chunked and a Content-Length
     header with text [cl], before ([cl_first]) or after the Transfer-Encoding
     line.  RFC 9112 6.3: Transfer-Encoding overrides Content-Length: the body
     is what the chunked coding carries (the case's body). *)
| LRunB (cl : str) (cl_first : bool) (status : N) (h : hobs) (healthy : bool).
(* a run on a body too large to expand here (see CAbs): [cuts] = Some: direct
   run on data frames of these sizes; None: live run.  In [h] the checksum
   field is 1 if the harness found the delivered bytes equal to the initial
   part (of that length) of the expected region, 0 otherwise. *)
Inductive arun := ARun (cuts : option (list fcut)) (status : N) (h : hobs) (polled : N) (healthy : bool).

Inductive c11case :=
  (* which cap is in force: the endpoint declared [ov]; lookup_route's
     metadata carried [meta]; on a server with default [def] the handler's
     rqctx.request_body_max_bytes() was [cap] *)
| CSelect (ov : option N) (def : N) (meta : option N) (cap : N)
  (* the real extractor called on a synthetic body of exactly these frames *)
| CDirect (x : xkind) (ov : option N) (def : N) (body : list seg) (runs : list drun)
  (* a live server; each run is one framing of the same body *)
| CLive (x : xkind) (ov : option N) (def : N) (body : list seg) (runs : list lrun)
  (* large bodies (above 64 KiB+1, up to gibibytes), direct or live: the body
     is described by its segments but never expanded; the model is run on
     frame lengths only (BodyCap.stream_len, exact by
     C11_stream_depends_on_lengths); byte equality of what was delivered with
     the body is checked by the harness and reported as the 1/0 "checksum".
     The specification evaluated is the same [spec]. *)
| CAbs (x : xkind) (ov : option N) (def : N) (body : list seg) (runs : list arun).

Definition ct_of (x : xkind) : bct :=
  match x with
  | XJson => CJson | XForm => CUrlEncoded | XMultipart => CMultipart
  | XUntyped | XStreaming => CBytes
  end.

Definition mk_rq (x : xkind) (ov : option N) (def : N) : rqctx :=
  {| rq_endpoint := lookup_meta {| ed_max := ov; ed_ct := ct_of x |}; rq_default := def |}.

Definition is4xx (st : N) : bool := (400 <=? st) && (st <? 500).
Definition is2xx (st : N) : bool := (200 <=? st) && (st <? 300).

Definition hobs_eqb (a b : hobs) : bool :=
  match a, b with
  | HRefused s, HRefused s' => s =? s'
  | HBuf l c, HBuf l' c' => (l =? l') && (c =? c')
  | HStream z c e, HStream z' c' e' =>
      list_eqb N.eqb z z' && (c =? c') && option_eqb N.eqb e e'
  | HMulti l c e, HMulti l' c' e' => (l =? l') && (c =? c') && bool_eqb e e'
  | HPanic, HPanic => true
  | _, _ => false
  end.

(* the payload a deserialiser/parser extracts from a complete body *)
Definition payload_of (x : xkind) (body : str) : option str :=
  match x with
  | XJson => json_str_de body
  | XForm => form_s_de body
  | XMultipart => mp_de body
  | XUntyped | XStreaming => Some body
  end.

(* ------------------------------------------------------------------ *)
(* per-case facts about the body, computed once (a case has many runs and a
   body may be 140 KB): the body, and its "region" = the bytes a handler can
   legitimately be shown: the body itself (untyped, streaming), the decoded
   string (typed; empty when the body does not decode), the field's bytes
   present in the body (multipart) *)
Record binfo := BI {
  bi_body : str; bi_len : N;
  bi_region : str; bi_rlen : N; bi_rcks : N;
  bi_valid : bool      (* the body is one the endpoint's type accepts; then the payload is the region *)
}.

Definition mk_binfo (x : xkind) (body : str) : binfo :=
  let region :=
    match x with
    | XMultipart => mp_seen body
    | _ => match payload_of x body with Some p => p | None => [] end
    end in
  BI body (blen body) region (blen region) (cks region)
     (match payload_of x body with Some _ => true | None => false end).

(* checksum of the first l bytes of the region *)
Definition pcks (bi : binfo) (l : N) : N :=
  if l =? bi_rlen bi then bi_rcks bi else
  match bi_region bi with
  | [] => cks []     (* (= cks (firstn _ []); written so that [l] is not turned into a nat) *)
  | _ :: _ => cks (firstn (N.to_nat l) (bi_region bi))
  end.

(* checksum of [s], reusing the case's when [s] is the region *)
Definition cks_m (bi : binfo) (s : str) : N :=
  if str_eqb s (bi_region bi) then bi_rcks bi else cks s.

(* ------------------------------------------------------------------ *)
(* the specification, judged on totals: [cap] the limit in force, [bi] the
   bytes sent, [st] the status answered, [h] what the handler side saw.
   No reference to the model's stream. *)

(* "No handler, buffered or streaming, ever observes more body bytes than the
   limit" — and what it observes are the body's own bytes, from the start *)
Definition spec_never_more (x : xkind) (cap : N) (bi : binfo) (h : hobs) : bool :=
  match h with
  | HRefused _ => true
  | HPanic => false
  | HBuf l c =>
      match x with
      | XUntyped => (l <=? cap) && (l <=? bi_rlen bi) && (pcks bi l =? c)
      | _ => l <=? cap   (* decoded string: not longer than the body it came from *)
      end
  | HStream z c _ =>
      running_ok cap 0 z && (sum z <=? bi_rlen bi) && (pcks bi (sum z) =? c)
  | HMulti l c _ =>
      (l <=? cap) && (l <=? bi_rlen bi) && (pcks bi l =? c)
  end.

(* "a body of at most that many bytes is accepted and delivered intact" *)
Definition spec_accept (x : xkind) (bi : binfo) (st : N) (h : hobs) : bool :=
  if bi_valid bi then
    is2xx st &&
    match x with
    | XJson | XForm | XUntyped => hobs_eqb h (HBuf (bi_rlen bi) (bi_rcks bi))
    | XStreaming =>
        match h with
        | HStream z c None => (sum z =? bi_rlen bi) && (c =? bi_rcks bi)
        | _ => false
        end
    | XMultipart => hobs_eqb h (HMulti (bi_rlen bi) (bi_rcks bi) false)
    end
  else
    (* not a body the endpoint's type accepts at all: nothing to deliver; it
       must not crash *)
    negb (match h with HPanic => true | _ => false end) && negb (500 <=? st).

(* "any larger body is refused with a 400-level error however it is framed";
   for the buffered extractors the handler is not entered; for the streaming
   ones it is entered before any byte is read and sees the error *)
Definition spec_refuse (x : xkind) (st : N) (h : hobs) : bool :=
  is4xx st &&
  match x with
  | XJson | XForm | XUntyped => match h with HRefused _ => true | _ => false end
  | XStreaming => match h with HStream _ _ (Some e) => is4xx e | _ => false end
  | XMultipart => match h with HMulti _ _ true => true | _ => false end
  end.

Definition spec (x : xkind) (cap : N) (bi : binfo) (st : N) (h : hobs) : bool :=
  spec_never_more x cap bi h &&
  (if bi_len bi <=? cap then spec_accept x bi st h else spec_refuse x st h).

(* ------------------------------------------------------------------ *)
(* what the model expects to be observed *)

Definition status_of_delivery (d : delivery str mres) : N :=
  match d with
  | DRefused st => st
  | DTyped _ | DBytes _ => 200
  | DStream _ o => match outcome_status o with Some st => st | None => 200 end
  | DMultipart (MFields _) => 200
  | DMultipart (MBad _) | DMultipart (MFail _) => 400  (* the harness handler maps multer errors to 400 *)
  end.

(* does observation [h] match delivery [d]?  For multipart failures the
   number of field bytes multer releases before reporting the error is its
   own business: it must be an initial part of the field bytes in the stream
   it was given. *)
Definition mp_partial_ok (bi : binfo) (s : str) (l c : N) : bool :=
  let seen := mp_seen s in
  (l <=? blen seen) &&
  ((if str_eqb seen (bi_region bi) then pcks bi l else cks (firstn (N.to_nat l) seen)) =? c).

Definition matches (bi : binfo) (d : delivery str mres) (h : hobs) : bool :=
  match d with
  | DRefused st => hobs_eqb h (HRefused st)
  | DTyped v => hobs_eqb h (HBuf (blen v) (cks_m bi v))
  | DBytes b => hobs_eqb h (HBuf (blen b) (cks_m bi b))
  | DStream ys o =>
      hobs_eqb h (HStream (map blen ys) (cks_m bi (concat ys)) (outcome_status o))
  | DMultipart (MFields p) => hobs_eqb h (HMulti (blen p) (cks_m bi p) false)
  | DMultipart (MBad s) =>
      match h with HMulti l c _ => mp_partial_ok bi s l c | _ => false end
  | DMultipart (MFail s) =>
      match h with HMulti l c true => mp_partial_ok bi s l c | _ => false end
  end.

(* status implied by an observation of a direct run (there is no HTTP
   response there): what a handler returning the error it met would answer *)
Definition direct_status (h : hobs) : N :=
  match h with
  | HRefused st => st
  | HBuf _ _ => 200
  | HStream _ _ None => 200
  | HStream _ _ (Some e) => e
  | HMulti _ _ false => 200
  | HMulti _ _ true => 400
  | HPanic => 500
  end.

(* the request headers are those of a well-formed request for this extractor
   (the untyped and streaming extractors do not look at them) *)
Definition hdr_plain (x : xkind) (hdr : N) : bool :=
  match x with
  | XUntyped | XStreaming => true
  | XJson => (hdr =? 0) || (hdr =? 1)     (* no Content-Type means JSON *)
  | XForm | XMultipart => hdr =? 0
  end.

Definition worst (a b : N) : N :=
  if (a =? V_MALFORMED) || (b =? V_MALFORMED) then V_MALFORMED
  else if (a =? V_VIOLATION) || (b =? V_VIOLATION) then V_VIOLATION
  else if (a =? V_DIVERGE) || (b =? V_DIVERGE) then V_DIVERGE
  else V_AGREE.

Definition judge_direct (x : xkind) (ov : option N) (def : N) (bi : binfo) (r : drun) : N :=
  let body := bi_body bi in
  let '(DRun cuts hdr h pol) := r in
  match hdrs_of x hdr with
  | None => V_MALFORMED
  | Some hd =>
      if negb (cuts_total cuts =? bi_len bi) then V_MALFORMED else
      let cap := effective_cap ov def in
      let fs := frames_of body cuts in
      let rq := mk_rq x ov def in
      (* side condition of the unbounded-arithmetic model: no usize wrap *)
      let r64 := stream64 cap fs in
      let r := stream cap fs in
      if negb (list_eqb str_eqb (fst r64) (fst r) && outcome_eqb (snd r64) (snd r))
      then V_MALFORMED else
      let d := ext x rq hd fs in
      let plain := cuts_noerr cuts && hdr_plain x hdr in
      let spec_ok :=
        if plain then spec x cap bi (direct_status h) h
        else spec_never_more x cap bi h in
      let model_pol :=
        match x with
        | XMultipart => match h_mp hd with MHOk => frames_polled cap fs | _ => 0 end
        | _ => frames_polled cap fs
        end in
      let pol_ok :=
        match x with
        | XMultipart => pol <=? model_pol    (* multer stops pulling when it has seen the final boundary *)
        | _ => pol =? model_pol
        end in
      if negb spec_ok then V_VIOLATION
      else if matches bi d h && pol_ok then V_AGREE
      else V_DIVERGE
  end.

(* cut [body] at the sizes a streaming handler reported; the unseen remainder
   (if any) as one more frame (BodyCapProofs.stream_witness) *)
Fixpoint split_sizes (body : str) (sizes : list N) : list frame * str :=
  match sizes with
  | [] => ([], body)
  | n :: r =>
      let (fs, rest) := split_sizes (skipn (N.to_nat n) body) r in
      (FData (firstn (N.to_nat n) body) :: fs, rest)
  end.

Definition witness_frames (cap : N) (body : str) (h : hobs) : list frame :=
  match h with
  | HStream z _ _ =>
      let (fs, rest) := split_sizes body z in
      fs ++ (if is_nil rest then [] else [FData rest])
  | _ =>
      (* the framing of an oversize body under which most is exposed: the
         first cap bytes, then the rest (for the buffered extractors any
         framing gives the same result, C11_chunking_irrelevant; for
         multipart the parser's input is an initial part of these cap bytes,
         C11_never_exceeds + C11_yielded_is_prefix_of_body) *)
      if blen body <=? cap then (if is_nil body then [] else [FData body])
      else [FData (firstn (N.to_nat cap) body); FData (skipn (N.to_nat cap) body)]
  end.

Definition judge_live_obs (x : xkind) (ov : option N) (def : N) (bi : binfo)
           (st : N) (h : hobs) (healthy : bool) : N :=
  let body := bi_body bi in
  let cap := effective_cap ov def in
  let rq := mk_rq x ov def in
  match hdrs_of x 0 with
  | None => V_MALFORMED
  | Some hd =>
      if negb (match h with HStream z _ _ => sum z <=? bi_len bi | _ => true end)
      then V_VIOLATION (* more bytes than were sent *) else
      let fs := witness_frames cap body h in
      let d := ext x rq hd fs in
      (* hyper's contract (trusted base): the frames spell the body *)
      if negb (str_eqb (body_of fs) body) then V_MALFORMED else
      if negb (spec x cap bi st h) then V_VIOLATION
      else if matches bi d h && (st =? status_of_delivery d) && healthy then V_AGREE
      else V_DIVERGE
  end.

(* ------------------------------------------------------------------ *)
(* large bodies, not expanded *)

Definition seg_len (s : seg) : N :=
  match s with SLit bs => blen bs | SRep _ n => n | SPat _ _ n => n end.
Definition segs_len (segs : list seg) : N := sum (map seg_len segs).

(* the shapes [body_for] of the harness produces for a valid body, recognised
   structurally; the result is the length of the pattern segment = the
   payload the deserialiser / multer extracts ([pat] emits [0-9a-z] only) *)
Definition abs_rlen (x : xkind) (segs : list seg) : option N :=
  match x, segs with
  | XUntyped, [SPat _ _ n] | XStreaming, [SPat _ _ n] => Some n
  | XJson, [SLit q1; SPat _ _ n; SLit q2; SRep b _] =>
      if str_eqb q1 [34] && str_eqb q2 [34] && (b =? 32) then Some n else None
  | XForm, [SLit p; SPat _ _ n] => if str_eqb p [115; 61] then Some n else None
  | XMultipart, [SLit p; SPat _ _ n; SLit q] =>
      if str_eqb p mp_prefix && str_eqb q mp_suffix then Some n else None
  | _, _ => None
  end.

Definition lf_of_cut (k : fcut) : lframe :=
  match k with KData n => LData n | KTrailers => LTrailers | KErr => LErr end.
Definition ltotal (ls : list lframe) : N :=
  sum (map (fun f => match f with LData n => n | _ => 0 end) ls).
Definition lnoerr (ls : list lframe) : bool :=
  forallb (fun f => match f with LErr => false | _ => true end) ls.

(* as [witness_frames], on lengths *)
Definition witness_len (cap len : N) (h : hobs) : list lframe :=
  match h with
  | HStream z _ _ =>
      let rest := len - sum z in
      map LData z ++ (if rest =? 0 then [] else [LData rest])
  | _ =>
      if len <=? cap then (if len =? 0 then [] else [LData len])
      else [LData cap; LData (len - cap)]
  end.

(* what the extractors deliver, given the capped stream's result on lengths
   (C11_all_extractors_capped: they see nothing else; C11_delivered_intact:
   on Done the bytes are the whole body, which decodes to the payload) *)
Definition abs_matches (x : xkind) (rlen : N) (res : list N * outcome) (h : hobs) : bool :=
  let '(ys, o) := res in
  match x with
  | XJson | XForm | XUntyped =>
      match o with
      | Done => hobs_eqb h (HBuf rlen 1)
      | Refused400 | NetErr400 => hobs_eqb h (HRefused 400)
      end
  | XStreaming => hobs_eqb h (HStream ys 1 (outcome_status o))
  | XMultipart =>
      match o with
      | Done => hobs_eqb h (HMulti rlen 1 false)
      | Refused400 | NetErr400 =>
          match h with
          | HMulti l c true => (l <=? N.min rlen (sum ys - blen mp_prefix)) && (c =? 1)
          | _ => false
          end
      end
  end.

Definition abs_status (res : list N * outcome) : N :=
  match outcome_status (snd res) with Some st => st | None => 200 end.

Definition judge_abs (x : xkind) (ov : option N) (def : N) (bi : binfo) (r : arun) : N :=
  let '(ARun cuts st h pol healthy) := r in
  let cap := effective_cap ov def in
  if negb (match h with HStream z _ _ => sum z <=? bi_len bi | _ => true end)
  then V_VIOLATION (* more bytes than were sent *) else
  let ls := match cuts with
            | Some cs => map lf_of_cut cs
            | None => witness_len cap (bi_len bi) h
            end in
  if negb (ltotal ls =? bi_len bi) then V_MALFORMED else
  let st' := match cuts with Some _ => direct_status h | None => st end in
  let spec_ok := if lnoerr ls then spec x cap bi st' h else spec_never_more x cap bi h in
  let res := stream_len cap ls in
  let model_ok :=
    abs_matches x (bi_rlen bi) res h &&
    match cuts with
    | Some _ =>
        match x with
        | XMultipart => pol <=? frames_polled_len cap ls
        | _ => pol =? frames_polled_len cap ls
        end
    | None => (st =? abs_status res) && healthy
    end in
  if negb spec_ok then V_VIOLATION else if model_ok then V_AGREE else V_DIVERGE.

(* the body facts of an unexpanded body: no bytes, lengths only; [pcks] of
   such a [binfo] is 1 for every length, the value the harness reports when
   the delivered bytes are right *)
Definition abs_binfo (x : xkind) (segs : list seg) : option binfo :=
  match abs_rlen x segs with
  | Some rlen => Some (BI [] (segs_len segs) [] rlen (cks []) true)
  | None => None
  end.

(* hyper 1.6 (measured contract, trusted base): a Content-Length line that
   PRECEDES Transfer-Encoding: chunked is still validated by the HTTP layer
   before dropshot sees the request — not decimal digits or overflowing u64:
   400; above u64::MAX-2 (hyper's largest representable length): 431 — and
   otherwise kept in the header map but not used for framing.  A
   Content-Length that FOLLOWS the Transfer-Encoding line is dropped unread. *)
Fixpoint parse_dec_from (acc : N) (s : str) : option N :=
  match s with
  | [] => Some acc
  | c :: r => if (48 <=? c) && (c <=? 57) then parse_dec_from (acc * 10 + (c - 48)) r else None
  end.
Definition parse_dec (s : str) : option N :=
  match s with [] => None | _ => parse_dec_from 0 s end.

Definition http_layer_refuses (cl : str) (cl_first : bool) : option N :=
  if cl_first then
    match parse_dec cl with
    | None => Some 400
    | Some n =>
        if two64 <=? n then Some 400
        else if two64 - 3 <? n then Some 431
        else None
    end
  else None.

Definition judge_live (x : xkind) (ov : option N) (def : N) (bi : binfo) (r : lrun) : N :=
  match r with
  | LRun st h healthy => judge_live_obs x ov def bi st h healthy
  | LRunB cl cl_first st h healthy =>
      match http_layer_refuses cl cl_first with
      | Some e =>
          (* malformed framing header: refused below dropshot, no handler *)
          if (st =? e) && hobs_eqb h (HRefused e) && healthy then V_AGREE
          else
            let v := judge_live_obs x ov def bi st h healthy in
            if v =? V_AGREE then V_DIVERGE else v
      | None =>
          (* whatever the Content-Length says, the verdict is the one on the
             bytes the chunked coding carried: within the cap -> accepted and
             delivered intact, over -> refused (else code 1) *)
          judge_live_obs x ov def bi st h healthy
      end
  end.

Definition judge (c : c11case) : N :=
  match c with
  | CSelect ov def meta cap =>
      let spec_ok := cap =? match ov with Some n => n | None => def end in
      let e := {| ed_max := ov; ed_ct := CBytes |} in
      let model_ok :=
        option_eqb N.eqb meta (rm_max (lookup_meta e)) &&
        (cap =? request_body_max_bytes {| rq_endpoint := lookup_meta e; rq_default := def |}) in
      if negb spec_ok then V_VIOLATION else if model_ok then V_AGREE else V_DIVERGE
  | CDirect x ov def segs runs =>
      let bi := mk_binfo x (expand segs) in
      fold_left (fun acc r => worst acc (judge_direct x ov def bi r)) runs V_AGREE
  | CLive x ov def segs runs =>
      let bi := mk_binfo x (expand segs) in
      fold_left (fun acc r => worst acc (judge_live x ov def bi r)) runs V_AGREE
  | CAbs x ov def segs runs =>
      match abs_binfo x segs with
      | None => V_MALFORMED
      | Some bi => fold_left (fun acc r => worst acc (judge_abs x ov def bi r)) runs V_AGREE
      end
  end.

(* per-run verdicts, for locating the failing run of a case by hand *)
Definition judge_runs (c : c11case) : list N :=
  match c with
  | CSelect _ _ _ _ => [judge c]
  | CDirect x ov def segs runs =>
      let bi := mk_binfo x (expand segs) in map (judge_direct x ov def bi) runs
  | CLive x ov def segs runs =>
      let bi := mk_binfo x (expand segs) in map (judge_live x ov def bi) runs
  | CAbs x ov def segs runs =>
      match abs_binfo x segs with
      | None => [V_MALFORMED]
      | Some bi => map (judge_abs x ov def bi) runs
      end
  end.
