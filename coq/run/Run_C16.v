(* Run_C16.v — judges one observed execution of the live server against C16.

   A case is the task mode, what the scenario scripted for each request, and
   the observed event trace (one global order: every event is appended to one
   log under one lock, at the moment it happens; a client logs [ODisconnect]
   *before* it closes its socket and [ODeliver] *after* it has read the whole
   response, so the log order respects causality).

   Verdicts: 1 when one of the property's clauses, evaluated directly on the
   observed trace ([spec]), is false; 2 when the clauses hold but the
   task-mode model (TaskMode.v) does not accept the trace or does not end
   quiescent; 9 malformed; 0 otherwise. *)
From DS Require Import Base TaskMode.

Definition V_AGREE : N := 0.
Definition V_VIOLATION : N := 1.
Definition V_DIVERGE : N := 2.
Definition V_MALFORMED : N := 9.

(* what the scenario scripted for a request
     rheld    the handler cannot return before the harness releases it, the
              client disconnects after it has seen the handler start, and the
              release comes only after the cancellation has been observed (or
              30 s of continued progress without it)
     rpanics  the handler is scripted to panic
     rfull    the client sends its complete request
     rstays   the client stays connected until it has read the whole response *)
Record rinfo := R { rid : N; rheld : bool; rpanics : bool; rfull : bool; rstays : bool }.

Inductive c16case := C16 (m : mode) (reqs : list rinfo) (trace : list oev).

Definition oev_eqb (a b : oev) : bool :=
  match a, b with
  | OStart x, OStart y | OTick x, OTick y | OFinish x, OFinish y | OPanic x, OPanic y
  | ODropped x, ODropped y | ODisconnect x, ODisconnect y | ONoResp x, ONoResp y => x =? y
  | ODeliver x c, ODeliver y d => (x =? y) && Bool.eqb c d
  | _, _ => false
  end.

Definition has (o : oev) (os : list oev) : bool := existsb (oev_eqb o) os.
Definition cnt (o : oev) (os : list oev) : nat := length (filter (oev_eqb o) os).

(* the handler's own events of request q, in order *)
Inductive hev := HStart | HTick | HEnd.
Fixpoint proj (q : N) (os : list oev) : list hev :=
  match os with
  | [] => []
  | o :: os' =>
      let rest := proj q os' in
      match o with
      | OStart x => if x =? q then HStart :: rest else rest
      | OTick x => if x =? q then HTick :: rest else rest
      | OFinish x | OPanic x | ODropped x => if x =? q then HEnd :: rest else rest
      | _ => rest
      end
  end.

(* "a started handler ends exactly one way": nothing, or one start, progress,
   exactly one end and nothing after it (the trace is taken at quiescence) *)
Fixpoint shape_run (l : list hev) : bool :=
  match l with
  | [] => false
  | HTick :: l' => shape_run l'
  | HEnd :: l' => is_nil l'
  | HStart :: _ => false
  end.
Definition shape (l : list hev) : bool :=
  match l with
  | [] => true
  | HStart :: l' => shape_run l'
  | _ => false
  end.

(* every response a client read was produced by a handler that had completed *)
Fixpoint deliver_after_finish (q : N) (finished : bool) (os : list oev) : bool :=
  match os with
  | [] => true
  | OFinish x :: os' => deliver_after_finish q (finished || (x =? q)) os'
  | ODeliver x _ :: os' => (negb (x =? q) || finished) && deliver_after_finish q finished os'
  | _ :: os' => deliver_after_finish q finished os'
  end.

Definition spec_req (m : mode) (os : list oev) (r : rinfo) : bool :=
  let q := rid r in
  let started := has (OStart q) os in
  let disconnected := has (ODisconnect q) os in
  (* exactly one end, whatever the mode *)
  shape (proj q os) &&
  (* detached: a started handler is never dropped, it finishes (or panics) *)
  (match m with Detached => negb (has (ODropped q) os) | CancelOnDisconnect => true end) &&
  (* cancel-on-disconnect: complete request, handler running, client gone:
     cancelled, no further progress (shape: nothing after the drop) *)
  (match m with
   | CancelOnDisconnect =>
       negb (rheld r && started && disconnected) || has (ODropped q) os
   | Detached => true
   end) &&
  (* clients that stay connected are served *)
  (negb (rstays r && rfull r && negb (rpanics r)) ||
   (started && has (OFinish q) os && has (ODeliver q true) os && negb disconnected)) &&
  (* a response comes from a completed handler, at most once, complete unless
     the client itself left *)
  deliver_after_finish q false os &&
  (Nat.leb (cnt (ODeliver q true) os + cnt (ODeliver q false) os) 1) &&
  (negb (has (ODeliver q false) os) || disconnected) &&
  (* a panic fails its own request (a handler scripted to panic either panics
     or was cancelled before it got there; it never answers) *)
  (negb (rpanics r && started) ||
   ((has (OPanic q) os || has (ODropped q) os)
    && negb (has (ODeliver q true) os) && negb (has (ODeliver q false) os))) &&
  (negb (has (OPanic q) os) || rpanics r).

Definition spec (m : mode) (reqs : list rinfo) (os : list oev) : bool :=
  forallb (spec_req m os) reqs.

Fixpoint nodup_ids (l : list N) : bool :=
  match l with
  | [] => true
  | x :: l' => negb (existsb (N.eqb x) l') && nodup_ids l'
  end.

Definition well_formed (reqs : list rinfo) (os : list oev) : bool :=
  nodup_ids (map rid reqs) &&
  forallb (fun o => existsb (fun r => rid r =? oev_req o) reqs) os.

Definition judge (c : c16case) : N :=
  match c with
  | C16 m reqs os =>
      if negb (well_formed reqs os) then V_MALFORMED else
      if negb (spec m reqs os) then V_VIOLATION else
      match replay_obs m os with
      | None => V_DIVERGE
      | Some (st, _) => if quiescent st then V_AGREE else V_DIVERGE
      end
  end.

(* the label trace the model read the observation as (for inspection) *)
Definition labels (c : c16case) : option (list ev) :=
  match c with C16 m _ os => option_map snd (replay_obs m os) end.
