(* Run_C08.v — evaluates the C08 model and specification on cases produced by
   the harness (harness/src/bin/c08).  Verdict codes: 0 agree, 1 violation,
   2 divergence, 9 malformed, 108 known-finding class K4 (null instance type),
   109 known-finding class K5 (annotations of a path/query parameter),
   110 known-finding class K6 (integer bound that is not an integer inside i64). *)
From DS Require Import Base Json Schema J2Oas SchemaSem J2OasSpec.
Open Scope N_scope.

Definition V_AGREE : N := 0.
Definition V_VIOLATION : N := 1.
Definition V_DIVERGE : N := 2.
Definition V_MALFORMED : N := 9.
Definition V_K4 : N := 108.
Definition V_K5 : N := 109.
Definition V_K6 : N := 110.

(* what the document shows: the schema at the site and components.schemas
   (keyed by reference string), or a panic of the document generator, or a
   published schema the OpenAPI AST cannot carry *)
Inductive c08obs :=
| ObsOk (o : oschema) (comps : list (str * oschema))
| ObsPanic
| ObsUnparsed.

Inductive c08case :=
| CConv (param : bool)                (* the site is a path/query parameter *)
        (expect : option bool)        (* derived-type family: is the type claimed supported *)
        (name : option str)           (* name handed to j2oas_schema at the site *)
        (src : schema)                (* the type's JSON Schema at the site *)
        (defs : list (str * schema))  (* its definitions, keyed by reference string *)
        (obs : c08obs)
        (instances : list json).

(* ---------- abbreviations used by the harness printer (smaller case terms) *)
(* "#/components/schemas/" ++ s *)
Definition RF (s : str) : str :=
  [35;47;99;111;109;112;111;110;101;110;116;115;47;115;99;104;101;109;97;115;47] ++ s.
(* SchemaData::default() *)
Definition D0 : sdata := sdata_default.
(* a schema object with only a single type and validation keywords *)
Definition SOT (t : itype) : option numval -> option strval -> option (arrval schema) ->
                             option (objval schema) -> option str -> list (str * json) -> sobj schema :=
  mkSObj None (Some (Single t)) None None None None.
(* an untyped schema object with only subschemas / a reference / extensions *)
Definition SOU (sb : option (subsval schema)) (r : option str) (ext : list (str * json)) : sobj schema :=
  mkSObj None None None None None sb None None None None r ext.

(* ---------- concrete [pattern] / [format] interpretations for evaluation.
   The theorems hold for every interpretation; these two make a dropped
   pattern or format visible on the generated instances: a pattern is a
   literal (the generator emits alphanumeric literals only, for which regular
   expression search is substring search); the string "!<format>" is the one
   string that is not of format <format>. ---------- *)
Fixpoint prefix_b (p s : str) : bool :=
  match p, s with
  | [], _ => true
  | a :: p', b :: s' => (a =? b) && prefix_b p' s'
  | _ :: _, [] => false
  end.
Fixpoint substr_b (p s : str) : bool :=
  prefix_b p s || match s with [] => false | _ :: s' => substr_b p s' end.

Definition pat_c (p s : str) : bool := substr_b p s.
Definition fmt_c (f : str) (j : json) : bool := negb (json_eqb j (JStr (33 :: f))).

(* fuel for following references: 12 for ordinary cases (a self-referential
   anyOf costs 2^fuel); documents with many definitions (the large-scope slice:
   reference chains, deterministic, no branching loops) get twice their number
   of definitions more.  Both sides of a comparison always use the same fuel. *)
Definition FUEL (defs : list (str * schema)) : nat :=
  if Nat.leb (length defs) 4 then 12 else 2 * length defs + 12.
Definition envJ (defs : list (str * schema)) := env_js pat_c fmt_c (FUEL defs) defs.
Definition envO (defs : list (str * schema)) (comps : list (str * oschema)) :=
  env_oas pat_c fmt_c (FUEL defs) comps.

(* ---------- structural equality of published schemas ---------- *)
Definition bool_eqb (a b : bool) : bool := Bool.eqb a b.
Definition optN_eqb := option_eqb N.eqb.
Definition optZ_eqb := option_eqb Z.eqb.
Definition q_same (a b : q) : bool := q_eqb a b.
Definition optq_same := option_eqb q_same.
Definition optstr_eqb := option_eqb str_eqb.
Definition optjson_same := option_eqb json_eqb.

Definition vou_eqb {T} (eq : T -> T -> bool) (a b : vou T) : bool :=
  match a, b with
  | VItem x, VItem y => eq x y
  | VUnknown x, VUnknown y => str_eqb x y
  | VEmpty, VEmpty => true
  | _, _ => false
  end.
Definition strfmt_eqb (a b : strfmt) : bool :=
  match a, b with
  | SFDate, SFDate | SFDateTime, SFDateTime | SFPassword, SFPassword
  | SFByte, SFByte | SFBinary, SFBinary => true
  | _, _ => false
  end.
Definition numfmt_eqb (a b : numfmt) : bool :=
  match a, b with NFFloat, NFFloat | NFDouble, NFDouble => true | _, _ => false end.
Definition intfmt_eqb (a b : intfmt) : bool :=
  match a, b with IFInt32, IFInt32 | IFInt64, IFInt64 => true | _, _ => false end.

Definition sdata_eqb (a b : sdata) : bool :=
  bool_eqb (sd_nullable a) (sd_nullable b) && bool_eqb (sd_read_only a) (sd_read_only b)
  && bool_eqb (sd_write_only a) (sd_write_only b) && bool_eqb (sd_deprecated a) (sd_deprecated b)
  && optjson_same (sd_example a) (sd_example b) && optstr_eqb (sd_title a) (sd_title b)
  && optstr_eqb (sd_description a) (sd_description b) && optjson_same (sd_default a) (sd_default b)
  && ext_eqb (sd_extensions a) (sd_extensions b).

Definition ostring_eqb (a b : ostring) : bool :=
  vou_eqb strfmt_eqb (os_format a) (os_format b) && optstr_eqb (os_pattern a) (os_pattern b)
  && list_eqb optstr_eqb (os_enumeration a) (os_enumeration b)
  && optN_eqb (os_min_length a) (os_min_length b) && optN_eqb (os_max_length a) (os_max_length b).
Definition onumber_eqb (a b : onumber) : bool :=
  vou_eqb numfmt_eqb (on_format a) (on_format b) && optq_same (on_multiple_of a) (on_multiple_of b)
  && bool_eqb (on_exclusive_minimum a) (on_exclusive_minimum b)
  && bool_eqb (on_exclusive_maximum a) (on_exclusive_maximum b)
  && optq_same (on_minimum a) (on_minimum b) && optq_same (on_maximum a) (on_maximum b)
  && list_eqb optq_same (on_enumeration a) (on_enumeration b).
Definition ointeger_eqb (a b : ointeger) : bool :=
  vou_eqb intfmt_eqb (oi_format a) (oi_format b) && optZ_eqb (oi_multiple_of a) (oi_multiple_of b)
  && bool_eqb (oi_exclusive_minimum a) (oi_exclusive_minimum b)
  && bool_eqb (oi_exclusive_maximum a) (oi_exclusive_maximum b)
  && optZ_eqb (oi_minimum a) (oi_minimum b) && optZ_eqb (oi_maximum a) (oi_maximum b)
  && list_eqb optZ_eqb (oi_enumeration a) (oi_enumeration b).

Definition olist_eqb (rec : oschema -> oschema -> bool) : list oschema -> list oschema -> bool :=
  fix go (a b : list oschema) {struct a} : bool :=
    match a, b with
    | [], [] => true
    | x :: a', y :: b' => rec x y && go a' b'
    | _, _ => false
    end.
Definition oplist_eqb (rec : oschema -> oschema -> bool)
  : list (str * oschema) -> list (str * oschema) -> bool :=
  fix go (a b : list (str * oschema)) {struct a} : bool :=
    match a, b with
    | [], [] => true
    | x :: a', y :: b' => str_eqb (fst x) (fst y) && rec (snd x) (snd y) && go a' b'
    | _, _ => false
    end.

Fixpoint oschema_eqb (a b : oschema) {struct a} : bool :=
  match a, b with
  | ORef x, ORef y => str_eqb x y
  | OItem da ka, OItem db kb =>
      sdata_eqb da db &&
      match ka, kb with
      | KType ta, KType tb =>
          match ta, tb with
          | OTString x, OTString y => ostring_eqb x y
          | OTNumber x, OTNumber y => onumber_eqb x y
          | OTInteger x, OTInteger y => ointeger_eqb x y
          | OTBoolean x, OTBoolean y => list_eqb (option_eqb bool_eqb) x y
          | OTObject x, OTObject y =>
              oplist_eqb oschema_eqb (oo_properties x) (oo_properties y)
              && list_eqb str_eqb (oo_required x) (oo_required y)
              && match oo_additional_properties x, oo_additional_properties y with
                 | None, None => true
                 | Some (AAny p), Some (AAny q0) => bool_eqb p q0
                 | Some (ASchema p), Some (ASchema q0) => oschema_eqb p q0
                 | _, _ => false
                 end
              && optN_eqb (oo_min_properties x) (oo_min_properties y)
              && optN_eqb (oo_max_properties x) (oo_max_properties y)
          | OTArray x, OTArray y =>
              match oa_items x, oa_items y with
              | None, None => true
              | Some p, Some q0 => oschema_eqb p q0
              | _, _ => false
              end
              && optN_eqb (oa_min_items x) (oa_min_items y)
              && optN_eqb (oa_max_items x) (oa_max_items y)
              && bool_eqb (oa_unique_items x) (oa_unique_items y)
          | _, _ => false
          end
      | KOneOf x, KOneOf y => olist_eqb oschema_eqb x y
      | KAllOf x, KAllOf y => olist_eqb oschema_eqb x y
      | KAnyOf x, KAnyOf y => olist_eqb oschema_eqb x y
      | KNot x, KNot y => oschema_eqb x y
      | KAny, KAny => true
      | _, _ => false
      end
  | _, _ => false
  end.

(* ---------- the judge ---------- *)

(* the schema the converter receives at the site *)
Definition site_schema (param : bool) (src : schema) : schema :=
  if param then snd (schema_extract_description src) else src.

Definition model_conv (param : bool) (name : option str) (src : schema) : jres oschema :=
  j2oas name (site_schema param src).

(* a parameter's description is published on the parameter object, not in its
   schema: it is not expected among the schema's annotations *)
Definition strip_description (s : schema) : schema :=
  match s with
  | SObj (mkSObj (Some (mkMeta i t _ d dp ro wo ex)) a b c e f g h k l m n) =>
      SObj (mkSObj (Some (mkMeta i t None d dp ro wo ex)) a b c e f g h k l m n)
  | _ => s
  end.

(* every definition is published, converted as the model converts it *)
Definition defs_model_ok (defs : list (str * schema)) (comps : list (str * oschema)) : bool :=
  Nat.eqb (length defs) (length comps) &&
  forallb (fun d => match lookup (fst d) comps, j2oas None (snd d) with
                    | Some o, Ok o' => oschema_eqb o o'
                    | _, _ => false
                    end) defs.

Definition defs_annots_ok (defs : list (str * schema)) (comps : list (str * oschema)) : bool :=
  forallb (fun d => match lookup (fst d) comps with
                    | Some o => annots_eqb (annots_js None (snd d)) (annots_oas o)
                    | None => false
                    end) defs.

Definition all_defs (f : schema -> bool) (defs : list (str * schema)) : bool :=
  forallb (fun d => f (snd d)) defs.

Definition judge (c : c08case) : N :=
  match c with
  | CConv param expect name src defs obs instances =>
      let sup := supported src && all_defs supported defs in
      let no_k4 := supported_with false true src && all_defs (supported_with false true) defs in
      let no_k6 := supported_with true false src && all_defs (supported_with true false) defs in
      let conv_ok := is_ok (model_conv param name src)
                     && all_defs (fun d => is_ok (j2oas None d)) defs in
      if match expect with Some e => negb (bool_eqb e sup) | None => false end
      then V_MALFORMED else
      match obs with
      | ObsUnparsed => V_DIVERGE
      | ObsPanic =>
          if conv_ok then (if sup then V_VIOLATION else V_DIVERGE) else V_AGREE
      | ObsOk o comps =>
          let model_ok :=
            match model_conv param name src with
            | Ok o' => oschema_eqb o o'
            | Err _ => false
            end && defs_model_ok defs comps in
          (* the property, evaluated on the published schema *)
          (* a parameter value is never JSON null (absence is the parameter's
             [required: false]): null is not an instance at a parameter site *)
          let sem_ok :=
            forallb (fun j => (param && is_null j) || bool_eqb (valid_oas (envO defs comps) pat_c fmt_c o j)
                                       (valid_js (envJ defs) pat_c fmt_c src j)) instances in
          let ann_ok := annots_eqb (annots_js name (if param then strip_description src else src))
                                  (annots_oas o) && defs_annots_ok defs comps in
          if sup then
            if sem_ok && ann_ok then (if model_ok then V_AGREE else V_DIVERGE)
            else if negb model_ok then V_VIOLATION
            else
              (* the published schema is the model's; a deviation is reported
                 under a known class only if that class is present in the case
                 (a case may be in several) *)
              let sem_explained := sem_ok || negb no_k4 || negb no_k6 in
              let ann_explained := ann_ok || param in
              if sem_explained && ann_explained then
                (if sem_ok then V_K5 else if negb no_k4 then V_K4 else V_K6)
              else V_VIOLATION
          else (if model_ok then V_AGREE else V_DIVERGE)
      end
  end.

(* ---------- tools/c08_xcheck.py: the verdicts of the two semantics per
   instance (2 * source + published), formats ignored as the independent
   validator ignores them ---------- *)
Definition fmt_true (f : str) (j : json) : bool := true.
Definition xvec (c : c08case) : list N :=
  match c with
  | CConv _ _ _ src defs obs instances =>
      let ej := env_js pat_c fmt_true (FUEL defs) defs in
      map (fun j =>
             (if valid_js ej pat_c fmt_true src j then 2 else 0)
             + match obs with
               | ObsOk o comps =>
                   if valid_oas (env_oas pat_c fmt_true (FUEL defs) comps) pat_c fmt_true o j then 1 else 0
               | _ => 0
               end) instances
  end.
