(* Run_C05.v — evaluates the C05 model and specification on cases produced by
   the harness.  Verdict codes (shared by all Run_*.v):
     0 agree   1 violation (the specification is false of what the
     implementation did)   2 divergence (implementation <> model although the
     specification holds)   9 malformed case   1xx known-finding class xx *)
From DS Require Import Base Versions Semver.

Definition V_AGREE : N := 0.
Definition V_VIOLATION : N := 1.
Definition V_DIVERGE : N := 2.
Definition V_MALFORMED : N := 9.
Definition V_K2 : N := 102.
Definition V_K3 : N := 103.

Definition bool_eqb (a b : bool) : bool := if a then b else negb b.

(* versions are chain indices (N, ordered by N.compare = the real
   [Version::cmp] order of the chain); [prec] gives each index its
   semver-precedence class (build metadata ignored) *)
Inductive c05case :=
| CRange (r : vrange N) (prec : list N) (n : N)
         (constructible : bool) (bits : list bool) (none_bit : bool)
| CPair (r1 r2 : vrange N) (prec : list N) (c12 c21 : bool)
| CHeader (h : hdr) (parsed : option N) (max : str) (obs : res N (N * bool))
  (* the same header case evaluated with the concrete semver model: the
     observation is the routed version, printed *)
| CHeaderS (h : hdr) (max : str) (obs : res N str)
  (* the concrete semver model against the crate: does each string parse, and
     how do the two versions compare (0 Lt, 1 Eq, 2 Gt), under Ord and under
     precedence *)
| CSemver (a b : str) (pa pb : bool) (ord prec : option N)
  (* three registrations on one method and path: r0 and r1 accepted, then r2
     (None: the first two were not both accepted — the generator only emits
     disjoint pairs, so that is a disagreement) *)
| CTriple (r0 r1 r2 : vrange N) (prec : list N) (third_refused : option bool)
  (* the header policy through a live server *)
| CHeaderLive (h : hdr) (max : str) (status : N) (entered : bool) (hyper_refuses : bool).

Definition cmp_code (c : comparison) : N := match c with Lt => 0 | Eq => 1 | Gt => 2 end.

Definition ncmp := N.compare.

Definition range_idx_ok (n : nat) (r : vrange N) : bool :=
  match r with
  | VAll => true
  | VFrom a => N.to_nat a <? n
  | VUntil b => N.to_nat b <? n
  | VFromUntil a b => (N.to_nat a <? n) && (N.to_nat b <? n)
  end%nat.

Definition precf (prec : list N) (i : N) : N := nth (N.to_nat i) prec 0.
  (* total only for the sake of [map_range]; every use is guarded by
     [range_idx_ok], which makes the default unreachable *)

Fixpoint has_ties (l : list N) : bool :=
  match l with
  | [] => false
  | x :: l' => existsb (N.eqb x) l' || has_ties l'
  end.

Definition probes (n : N) : list N := map N.of_nat (seq 0 (N.to_nat n)).

Definition judge (c : c05case) : N :=
  match c with
  | CRange r prec n constructible bits none_bit =>
      if negb (range_idx_ok (length prec) r && (N.to_nat n =? length prec)%nat)
      then V_MALFORMED else
      let ps := probes n in
      let rp := map_range (precf prec) r in
      (* the property, under semver precedence *)
      let spec_p :=
        bool_eqb constructible (wf_rangeb N ncmp rp) &&
        (negb constructible ||
         (list_eqb bool_eqb bits (map (fun v => vinb N ncmp rp (precf prec v)) ps)
          && none_bit)) in
      (* the same under the order the code uses (precedence refined by build) *)
      let spec_f :=
        bool_eqb constructible (wf_rangeb N ncmp r) &&
        (negb constructible ||
         (list_eqb bool_eqb bits (map (vinb N ncmp r) ps) && none_bit)) in
      (* the model: from_until + matches *)
      let model_ok :=
        bool_eqb constructible
          (match r with VFromUntil a b => is_ok (from_until N ncmp a b) | _ => true end) &&
        (negb constructible ||
         (list_eqb bool_eqb bits (map (fun v => vmatches N ncmp r (Some v)) ps)
          && bool_eqb none_bit (vmatches N ncmp r None))) in
      if spec_p then (if model_ok then V_AGREE else V_DIVERGE)
      else if spec_f && model_ok && has_ties prec then V_K3
      else V_VIOLATION
  | CPair r1 r2 prec c12 c21 =>
      if negb (range_idx_ok (length prec) r1 && range_idx_ok (length prec) r2
               && wf_rangeb N ncmp r1 && wf_rangeb N ncmp r2)
      then V_MALFORMED else
      let rp1 := map_range (precf prec) r1 in
      let rp2 := map_range (precf prec) r2 in
      let shared_p := sharedb N ncmp 0 rp1 rp2 in
      let shared_f := sharedb N ncmp 0 r1 r2 in
      let spec_p := bool_eqb c12 shared_p && bool_eqb c21 shared_p in
      let spec_f := bool_eqb c12 shared_f && bool_eqb c21 shared_f in
      let model_ok := bool_eqb c12 (overlaps N ncmp r1 r2)
                      && bool_eqb c21 (overlaps N ncmp r2 r1) in
      if spec_p then (if model_ok then V_AGREE else V_DIVERGE)
      else if k2_class N ncmp 0 r1 r2 && model_ok then V_K2
      else if spec_f && model_ok && has_ties prec then V_K3
      else V_VIOLATION
  | CHeader h parsed max obs =>
      (* max has rank 1; parsed (library oracle) is 0/1/2 = below/equal/above *)
      let model := extract_version N ncmp (fun _ => parsed) 1 h in
      let spec :=
        match obs with
        | Ok (rank, same) =>
            (* routed at exactly the version named in the header *)
            match h, parsed with
            | HStr _, Some p => (p =? rank) && (rank <=? 1) && same
            | _, _ => false
            end
        | Err code =>
            (400 <=? code) && (code <? 500) &&
            match h, parsed with
            | HStr _, Some p => 1 <? p
            | _, _ => true
            end
        end in
      let agree :=
        match obs, model with
        | Ok (rank, _), Ok m => rank =? m
        | Err c, Err c' => c =? c'
        | _, _ => false
        end in
      if spec then (if agree then V_AGREE else V_DIVERGE) else V_VIOLATION
  | CHeaderS h max obs =>
      match Semver.parse max with
      | None => V_MALFORMED
      | Some mx =>
          let model := extract_version version Semver.cmp Semver.parse mx h in
          match obs, model with
          | Ok s, Ok v => if str_eqb s (Semver.print v) then V_AGREE else V_VIOLATION
          | Err c, Err c' => if (400 <=? c) && (c <? 500) then (if c =? c' then V_AGREE else V_DIVERGE)
                             else V_VIOLATION
          | Ok _, Err _ => V_VIOLATION   (* a handler would run for a version the policy must refuse *)
          | Err _, Ok _ => V_VIOLATION   (* a version the policy must accept is refused *)
          end
      end
  | CTriple r0 r1 r2 prec third =>
      if negb (range_idx_ok (length prec) r0 && range_idx_ok (length prec) r1 && range_idx_ok (length prec) r2
               && wf_rangeb N ncmp r0 && wf_rangeb N ncmp r1 && wf_rangeb N ncmp r2)
      then V_MALFORMED else
      match third with
      | None => if overlaps N ncmp r0 r1 then V_MALFORMED else V_DIVERGE
      | Some c =>
          let rp := map_range (precf prec) in
          let shared_p := sharedb N ncmp 0 (rp r0) (rp r2) || sharedb N ncmp 0 (rp r1) (rp r2) in
          let shared_f := sharedb N ncmp 0 r0 r2 || sharedb N ncmp 0 r1 r2 in
          let model := overlaps N ncmp r0 r2 || overlaps N ncmp r1 r2 in
          if bool_eqb c shared_p then (if bool_eqb c model then V_AGREE else V_DIVERGE)
          else if (k2_class N ncmp 0 r0 r2 || k2_class N ncmp 0 r1 r2) && bool_eqb c model then V_K2
          else if bool_eqb c shared_f && bool_eqb c model && has_ties prec then V_K3
          else V_VIOLATION
      end
  | CHeaderLive h max status entered hyper_refuses =>
      match Semver.parse max with
      | None => V_MALFORMED
      | Some mx =>
          if hyper_refuses then
            (if negb entered && (400 <=? status) && (status <? 500) then V_AGREE else V_VIOLATION)
          else
          match extract_version version Semver.cmp Semver.parse mx h with
          | Ok _ =>
              (* a version the policy accepts: the request is routed and the handler runs *)
              if entered && (status =? 200) then V_AGREE else V_VIOLATION
          | Err _ =>
              (* missing, unparsable or newer than supported: 400-level, no handler *)
              if negb entered && (400 <=? status) && (status <? 500) then V_AGREE else V_VIOLATION
          end
      end
  | CSemver a b pa pb ord prec =>
      let ma := Semver.parse a in let mb := Semver.parse b in
      let okp := bool_eqb pa (match ma with Some _ => true | None => false end)
                 && bool_eqb pb (match mb with Some _ => true | None => false end) in
      let okc := match ma, mb with
                 | Some x, Some y =>
                     option_eqb N.eqb ord (Some (cmp_code (Semver.cmp x y)))
                     && option_eqb N.eqb prec (Some (cmp_code (Semver.prec_cmp x y)))
                 | _, _ => match ord, prec with None, None => true | _, _ => false end
                 end in
      if okp && okc then V_AGREE else V_DIVERGE
  end.
