(* Run_C03.v — evaluates the C03 model (PathNorm.v: [input_segments]) and the
   C03 specification on request paths run through the real router
   ([lookup_route], and a live server through hyper).  No proofs here; the
   lemmas about these definitions are in theories/PathNormProofs.v.
   Verdict codes as in Run_C05.v:
     0 agree   1 violation (the specification is false of what the
     implementation did)   2 divergence (implementation <> model although the
     specification holds)   9 malformed case *)
From DS Require Import Base Pct Utf8 Router PathNorm.

Definition V_AGREE : N := 0.
Definition V_VIOLATION : N := 1.
Definition V_DIVERGE : N := 2.
Definition V_MALFORMED : N := 9.

(* ---------- the route-level wrapper ----------
   [lookup_route] begins with
       let all_segments = input_path_to_segments(&path)
           .map_err(|_| HttpError::for_bad_request(None, "invalid path encoding"))?;
   and only then walks the trie.  The walk is an arbitrary function here: an
   error status or a selected handler (with whatever it binds). *)
Section Route.
  Variable H : Type.
  Variable lookup : list str -> res N H.

  Definition route_with (p : str) : res N H :=
    match input_segments p with
    | Err _ => Err 400
    | Ok segs => lookup segs
    end.
End Route.
Arguments route_with {H} lookup p.

(* ---------- the route tables of the harness ----------
   A template is a list of literal / single-variable / rest-of-path segments;
   the tables used are unambiguous (at most one template matches any segment
   list), so "first match" is "the match". *)
Inductive tseg := TLit (s : str) | TVar | TRest.
Inductive vv := VS (s : str) | VM (l : list str).

Fixpoint tmatch (t : list tseg) (segs : list str) : option (list vv) :=
  match t with
  | [] => match segs with [] => Some [] | _ => None end
  | TRest :: _ => Some [VM segs]
  | TLit s :: t' =>
      match segs with
      | x :: segs' => if str_eqb s x then tmatch t' segs' else None
      | [] => None
      end
  | TVar :: t' =>
      match segs with
      | x :: segs' =>
          match tmatch t' segs' with
          | Some vs => Some (VS x :: vs)
          | None => None
          end
      | [] => None
      end
  end.

Fixpoint table_lookup_from (i : N) (tbl : list (list tseg)) (segs : list str)
  : res N (N * list vv) :=
  match tbl with
  | [] => Err 404
  | t :: tbl' =>
      match tmatch t segs with
      | Some vs => Ok (i, vs)
      | None => table_lookup_from (i + 1) tbl' segs
      end
  end.
Definition table_lookup := table_lookup_from 0.

(* ---------- observations ---------- *)
Inductive obs :=
| ODeliver (idx : N) (vals : list vv)   (* endpoint [idx] selected, its variables in template order *)
| OStatus (code : N)                    (* error status, no handler *)
| OPanic.

Definition obs_of (r : res N (N * list vv)) : obs :=
  match r with
  | Ok (i, vs) => ODeliver i vs
  | Err c => OStatus c
  end.

(* the model's answer for a raw path against a table *)
Definition model_obs (tbl : list (list tseg)) (p : str) : obs :=
  obs_of (route_with (table_lookup tbl) p).

Definition vv_eqb (a b : vv) : bool :=
  match a, b with
  | VS x, VS y => str_eqb x y
  | VM x, VM y => list_eqb str_eqb x y
  | _, _ => false
  end.
Definition obs_eqb (a b : obs) : bool :=
  match a, b with
  | ODeliver i x, ODeliver j y => (i =? j) && list_eqb vv_eqb x y
  | OStatus c, OStatus d => c =? d
  | OPanic, OPanic => true
  | _, _ => false
  end.

Definition vv_strings (v : vv) : list str :=
  match v with VS s => [s] | VM l => l end.
Definition delivered_strings (vals : list vv) : list str := flat_map vv_strings vals.

(* ---------- the specification, in executable form ----------
   Written without the model's functions: its own splitter (a left-to-right
   scan with an accumulator), and the library-level definitions
   [pct_decode] / [utf8_valid]. *)
Fixpoint spec_split_aux (cur : str) (p : str) : list str :=
  match p with
  | [] => match cur with [] => [] | _ => [rev_append cur []] end
  | c :: p' =>
      if c =? 47
      then match cur with
           | [] => spec_split_aux [] p'
           | _ => rev_append cur [] :: spec_split_aux [] p'
           end
      else spec_split_aux (c :: cur) p'
  end.
Definition spec_split (p : str) : list str := spec_split_aux [] p.

Definition seg_is_dot (d : str) : bool := str_eqb d [46] || str_eqb d [46; 46].

(* a value a handler must never see *)
Definition seg_safe (d : str) : bool :=
  negb (is_nil d) && negb (seg_is_dot d) && utf8_valid d.

(* "a '.' or '..' segment in any spelling, or a segment that is not valid
   UTF-8 after decoding" *)
Definition seg_unsafe_after_decoding (raw : str) : bool :=
  let d := pct_decode raw in seg_is_dot d || negb (utf8_valid d).

Definition path_must_be_refused (p : str) : bool :=
  existsb seg_unsafe_after_decoding (spec_split p).

Definition spec_item (tbl : list (list tseg)) (p : str) (o : obs) : bool :=
  (* nothing unsafe is ever delivered *)
  match o with
  | ODeliver _ vals => forallb seg_safe (delivered_strings vals)
  | _ => true
  end &&
  (if path_must_be_refused p
   then (* answered 400, no handler *)
        obs_eqb o (OStatus 400)
   else match o with
        | ODeliver _ _ =>
            (* each segment decoded exactly once after splitting: what is
               delivered is the template's binding of
               [map pct_decode (split p)] *)
            obs_eqb o (obs_of (table_lookup tbl (map pct_decode (spec_split p))))
        | OStatus _ => true      (* no handler ran: nothing the property forbids *)
        | OPanic => true
        end).

(* one path: specification first, then agreement with the model *)
Definition judge_item (tbl : list (list tseg)) (p : str) (o : obs) : N :=
  if negb (spec_item tbl p o) then V_VIOLATION
  else if obs_eqb o (model_obs tbl p) then V_AGREE
  else V_DIVERGE.

(* ---------- equivalent spellings ----------
   The harness packs spellings of one path that differ only in repeated /
   trailing slashes and in the letter case of the two hex digits of an
   escape.  That claim is checked here by an independent normaliser
   (collapse slash runs, drop a trailing slash, lower-case escapes): a pack
   whose members do not normalise to the same string is a malformed case. *)
Definition is_hex (c : N) : bool :=
  ((48 <=? c) && (c <=? 57)) || ((97 <=? c) && (c <=? 102)) || ((65 <=? c) && (c <=? 70)).

Fixpoint lower_escapes (s : str) : str :=
  match s with
  | [] => []
  | c :: t =>
      if c =? 37 then
        match t with
        | h :: l :: rest =>
            if is_hex h && is_hex l
            then 37 :: lower_byte h :: lower_byte l :: lower_escapes rest
            else 37 :: lower_escapes t
        | _ => 37 :: lower_escapes t
        end
      else c :: lower_escapes t
  end.

(* collapse runs of '/', and drop a trailing '/' (the path "/" itself
   normalises to the empty string, as does "") *)
Fixpoint squash_slashes (s : str) : str :=
  match s with
  | [] => []
  | c :: t =>
      if c =? 47 then
        match squash_slashes t with
        | [] => []
        | x :: r => if x =? 47 then x :: r else 47 :: x :: r
        end
      else c :: squash_slashes t
  end.

Definition spelling_norm (s : str) : str := squash_slashes (lower_escapes s).

Definition worse (a b : N) : N :=
  (* priority: malformed > violation > divergence > agree *)
  let rank c := if c =? 9 then 5 else if c =? 1 then 4 else if c =? 2 then 3
                else if c =? 0 then 0 else 1 in
  if rank a <? rank b then b else a.
Definition worst (l : list N) : N := fold_left worse l 0.

Definition all_same {A} (eqb : A -> A -> bool) (l : list A) : bool :=
  match l with
  | [] => true
  | x :: l' => forallb (eqb x) l'
  end.

(* ---------- compact cases: paths enumerated here, not printed ----------
   Two exhaustive sub-spaces are large; the harness prints only their
   parameters and the run-length-encoded observations, and the same
   enumeration is rebuilt here (guarded by a count and by the first and last
   path, which the harness prints in full). *)
Definition esc_byte (upper : bool) (b : N) : str :=
  let hex := if upper then hex_digit_upper else hex_digit_lower in
  [37; hex (b / 16); hex (b mod 16)].

Definition all_bytes : list N := map N.of_nat (seq 0 256).

(* prefix %b0 %b1 for every b1 *)
Definition sweep2_paths (prefix : str) (upper : bool) (b0 : N) : list str :=
  map (fun b1 => prefix ++ esc_byte upper b0 ++ esc_byte upper b1) all_bytes.

Fixpoint expand_runs {A} (runs : list (N * A)) : list A :=
  match runs with
  | [] => []
  | (n, a) :: r => repeat a (N.to_nat n) ++ expand_runs r
  end.

(* short names for the three commonest observations *)
Definition D1 (s : str) : obs := ODeliver 0 [VM [s]].
Definition DV (s : str) : obs := ODeliver 0 [VS s].
Definition R4 : obs := OStatus 400.

Definition slashes (n : nat) : str := repeat 47 n.

(* all lists of [n] gap widths in 1..3, first gap varying fastest *)
Fixpoint gap_lists (n : nat) : list (list nat) :=
  match n with
  | O => [[]]
  | S n' => flat_map (fun rest => map (fun g => g :: rest) [1; 2; 3]%nat) (gap_lists n')
  end.

Fixpoint join_gaps (segs : list str) (gaps : list nat) : str :=
  match segs with
  | [] => []
  | s :: segs' =>
      match segs' with
      | [] => s
      | _ => match gaps with
             | g :: gaps' => s ++ slashes g ++ join_gaps segs' gaps'
             | [] => s ++ slashes 1 ++ join_gaps segs' []
             end
      end
  end.

(* every slash placement: 1-2 leading, 1-3 per inner gap, 0-2 trailing *)
Definition placements (segs : list str) : list str :=
  flat_map (fun lead =>
    flat_map (fun gaps =>
      map (fun trail => slashes lead ++ join_gaps segs gaps ++ slashes trail) [0; 1; 2]%nat)
      (gap_lists (length segs - 1)))
    [1; 2]%nat.

Definition enumeration_ok (ps : list str) (n : nat) (first last : str) : bool :=
  (length ps =? n)%nat &&
  option_eqb str_eqb (nth_error ps 0) (Some first) &&
  option_eqb str_eqb (nth_error ps (length ps - 1)) (Some last).

(* ---------- large-scope cases: strings given as repeated chunks ----------
   A path (and what was delivered) of thousands of bytes or segments is
   printed as a list of (count, chunk): the concatenation of [count] copies
   of each chunk.  It is expanded here and judged by the same [judge_item] /
   [judge_equiv] as every other case. *)
Definition pieces := list (N * str).

Fixpoint rep_str (n : nat) (c : str) : str :=
  match n with
  | O => []
  | S n' => c ++ rep_str n' c
  end.

Definition expand_pieces (ps : pieces) : str :=
  flat_map (fun nc => rep_str (N.to_nat (fst nc)) (snd nc)) ps.

Inductive lvv := LVS (s : pieces) | LVM (l : list (N * pieces)).
Inductive lobs := LDeliver (idx : N) (vals : list lvv) | LStatus (code : N) | LPanic.

Definition expand_lvv (v : lvv) : vv :=
  match v with
  | LVS s => VS (expand_pieces s)
  | LVM l => VM (flat_map (fun ns => repeat (expand_pieces (snd ns)) (N.to_nat (fst ns))) l)
  end.

Definition expand_lobs (o : lobs) : obs :=
  match o with
  | LDeliver i vals => ODeliver i (map expand_lvv vals)
  | LStatus c => OStatus c
  | LPanic => OPanic
  end.

(* ---------- cases ---------- *)
Inductive c03case :=
  (* independent paths against one table *)
| CPaths (tbl : list (list tseg)) (items : list (str * obs))
  (* spellings of one path: outcomes must also be identical *)
| CEquiv (tbl : list (list tseg)) (items : list (str * obs))
  (* through a live server.  [rejects]: the generator put into the raw
     request target a byte (or a non-UTF-8 sequence) that hyper's request
     parser refuses before dropshot is called; [p] is the path component of
     the target *)
| CLive (tbl : list (list tseg)) (items : list (bool * str * obs))
  (* [CPaths] over [sweep2_paths prefix upper b0] *)
| CSweep2 (tbl : list (list tseg)) (prefix : str) (upper : bool) (b0 : N)
          (first last : str) (runs : list (N * obs))
  (* [CEquiv] over [placements segs] *)
| CPlace (tbl : list (list tseg)) (segs : list str)
         (first last : str) (runs : list (N * obs))
  (* [CPaths] ([equiv] = false) or [CEquiv] ([equiv] = true) over expanded
     paths and observations *)
| CLarge (tbl : list (list tseg)) (equiv : bool) (items : list (pieces * lobs))
  (* [CLive] over expanded targets and observations *)
| CLargeLive (tbl : list (list tseg)) (items : list (bool * pieces * lobs)).

Definition judge_items tbl (items : list (str * obs)) : N :=
  worst (map (fun it => judge_item tbl (fst it) (snd it)) items).

Definition judge_live_item tbl (it : bool * str * obs) : N :=
  let '(rejects, p, o) := it in
  if rejects then
    match o with
    | OStatus 400 => V_AGREE
    | ODeliver _ _ =>
        (* a handler ran although the generator expected hyper to refuse: the
           property is judged as usual; if it holds this is a broken
           classification, reported as a divergence *)
        if spec_item tbl p o then V_DIVERGE else V_VIOLATION
    | _ => V_DIVERGE
    end
  else judge_item tbl p o.

Definition judge_equiv tbl (items : list (str * obs)) : N :=
  if negb (all_same str_eqb (map (fun it => spelling_norm (fst it)) items))
  then V_MALFORMED
  else if negb (all_same obs_eqb (map snd items))
  then V_VIOLATION      (* equivalent spellings treated differently *)
  else judge_items tbl items.

Definition judge (c : c03case) : N :=
  match c with
  | CPaths tbl items => judge_items tbl items
  | CEquiv tbl items => judge_equiv tbl items
  | CLive tbl items => worst (map (judge_live_item tbl) items)
  | CSweep2 tbl prefix upper b0 first last runs =>
      let ps := sweep2_paths prefix upper b0 in
      let os := expand_runs runs in
      if negb (enumeration_ok ps (length os) first last) then V_MALFORMED
      else judge_items tbl (combine ps os)
  | CPlace tbl segs first last runs =>
      let ps := placements segs in
      let os := expand_runs runs in
      if negb (enumeration_ok ps (length os) first last) then V_MALFORMED
      else judge_equiv tbl (combine ps os)
  | CLarge tbl equiv items =>
      let its := map (fun it => (expand_pieces (fst it), expand_lobs (snd it))) items in
      if equiv then judge_equiv tbl its else judge_items tbl its
  | CLargeLive tbl items =>
      worst (map (fun it : bool * pieces * lobs =>
                    let '(rejects, p, o) := it in
                    judge_live_item tbl (rejects, expand_pieces p, expand_lobs o)) items)
  end.
