(* Run_C13.v — evaluates the C13 model (Errors.v) and the property's
   specification on cases produced by harness/src/bin/c13.rs.
   Verdict codes: 0 agree, 1 violation, 2 divergence, 9 malformed.
   (K13 — for_client_error_with_status panicking for a client status without
   a standard label — was fixed in /repo 4dc9fa0: a constructor panic is a
   violation.) *)
From Coq Require Import String.
From DS Require Import Base Response Errors.

Definition V_AGREE : N := 0.
Definition V_VIOLATION : N := 1.
Definition V_DIVERGE : N := 2.
Definition V_MALFORMED : N := 9.

Definition bool_eqb (a b : bool) : bool := if a then b else negb b.
Definition strs_eqb := list_eqb str_eqb.
Definition ostr_eqb := option_eqb str_eqb.

(* ---------- constructor cases ---------- *)

Inductive ctor :=
| KLiteral (status : N) (code : option str) (ext int : str) (with_map : bool)
| KClientError (code : option str) (status : N) (msg : str)
| KInternal (int : str)
| KUnavail (code : option str) (int : str)
| KBadRequest (code : option str) (msg : str)
| KWithStatus (code : option str) (status : N)
| KNotFound (code : option str) (int : str).

(* the parsed response body: the three JSON members ([code = None]: the
   member is absent); [wellformed]: a JSON object with string members
   request_id and message, an optional string member error_code, nothing else *)
Inductive obody := OBody (wellformed : bool) (rid : str) (code : option str) (msg : str).

Inductive cobs :=
| OPanicCtor            (* the constructor panicked *)
| OPanicResp            (* into_response panicked *)
| OResp (es : N) (ecode : option str) (eext eint : str) (eh : option hmap)
        (* ^ the public fields of the constructed error *)
        (status : N) (headers : hmap) (b : obody)
        (leak : bool).  (* the internal-message marker occurs in some response byte *)

Inductive c13case :=
(* run-length encoded observation (length, code) of the six status functions
   over lo..hi: ErrorStatusCode::from_u16, ClientErrorStatusCode::from_u16,
   both from_status, as_client_error, canonical_reason().is_some() *)
| CStatus (lo hi : N) (eu cu es cs ac rs : list (N * N))
| CCtor (k : ctor) (hdrs : list (str * str * bool)) (id : str) (txt : str) (obs : cobs)
(* [sent]: the x-request-id values the CLIENT put on the request *)
| CLive (cls : N) (expect_status status : N) (xrid : list str) (own : list str)
        (sent : list str) (saw : option str) (body_rid : option str)
(* the method family (GET HEAD OPTIONS PATCH DELETE PURGE = 0..5): [cls] 0 a
   handler returning an HttpError with [attached] headers, 1 a 404, 2 a 405
   ([attached] = the Allow header); [headers]: every response header but
   date and content-length, grouped by name; [body]: None for HEAD (only the
   head is read), else the parsed body; [cl_expect]: the length of the body
   the error has for a non-HEAD request; [ecode]/[emsg]: its code and message *)
| CLiveM (meth cls expect_status status : N) (headers attached : hmap) (sent : list str)
         (body : option obody) (cl_obs : option N) (cl_expect : N)
         (ecode : option str) (emsg : str)
(* [ids]: the ids of all responses of a batch, [supplied]: every client-sent
   value that reads as a UUID in any spelling; both as sorted 128-bit numbers *)
| CUnique (n : N) (ids : list N) (supplied : list N).

(* ----- status sweep ----- *)

Definition code_of (r : res status_err N) (c : N) : N :=
  match r with
  | Ok s => if s =? c then 0 else 5
  | Err InvalidStatus => 1
  | Err NotAnError => 2
  | Err NotAClientError => 3
  end.

Definition via_status (f : N -> res status_err N) (c : N) : N :=
  match status_from_u16 c with Ok s => code_of (f s) c | Err _ => 4 end.

Definition m_eu c := code_of (err_from_u16 c) c.
Definition m_cu c := code_of (client_from_u16 c) c.
Definition m_es := via_status err_from_status.
Definition m_cs := via_status client_from_status.
Definition m_ac c := match err_from_u16 c with Ok s => code_of (as_client_error s) c | Err _ => 4 end.
Definition m_rs c := match status_from_u16 c with Ok s => if has_reason s then 1 else 0 | Err _ => 4 end.

(* the property: accepted exactly on 400-599 (resp. 400-499), the value kept;
   [applicable]: whether the function can be offered this number at all *)
Definition spec_range (lo hi : N) (applicable : N -> bool) (c obs : N) : bool :=
  if applicable c then
    if (lo <=? c) && (c <=? hi) then obs =? 0
    else (obs =? 1) || (obs =? 2) || (obs =? 3)
  else obs =? 4.

Definition is_status c := (100 <=? c) && (c <=? 999).
Definition is_errstatus c := (400 <=? c) && (c <=? 599).

(* walk a run-length list from [c]; returns (next c, violation, divergence) *)
Definition walk (spec : N -> N -> bool) (model : N -> N) (start : N) (runs : list (N * N))
  : N * bool * bool :=
  fold_left
    (fun (st : N * bool * bool) (run : N * N) =>
       let '(len, code) := run in
       N.iter len
         (fun (s : N * bool * bool) =>
            let '(c, v, d) := s in
            (c + 1, v || negb (spec c code), d || negb (code =? model c)))
         st)
    runs (start, false, false).

Definition judge_status (lo hi : N) (eu cu es cs ac rs : list (N * N)) : N :=
  let w1 := walk (spec_range 400 599 (fun _ => true)) m_eu lo eu in
  let w2 := walk (spec_range 400 499 (fun _ => true)) m_cu lo cu in
  let w3 := walk (spec_range 400 599 is_status) m_es lo es in
  let w4 := walk (spec_range 400 499 is_status) m_cs lo cs in
  let w5 := walk (spec_range 400 499 is_errstatus) m_ac lo ac in
  (* canonical reasons are no part of the property: model agreement only *)
  let w6 := walk (fun _ _ => true) m_rs lo rs in
  let ws := [w1; w2; w3; w4; w5; w6] in
  if negb (forallb (fun w => fst (fst w) =? hi + 1) ws) then V_MALFORMED
  else if existsb (fun w => snd (fst w)) ws then V_VIOLATION
  else if existsb (fun w => snd w) ws then V_DIVERGE
  else V_AGREE.

(* ----- constructors ----- *)

Definition build (txt : str) (k : ctor) : res panic http_error :=
  let rt := fun _ : N => txt in
  match k with
  | KLiteral status code ext int with_map =>
      Ok (mkErr status code ext int (if with_map then Some [] else None))
  | KClientError code status msg => Ok (for_client_error code status msg)
  | KInternal int => for_internal_error rt int
  | KUnavail code int => for_unavail rt code int
  | KBadRequest code msg => Ok (for_bad_request code msg)
  | KWithStatus code status => Ok (for_client_error_with_status rt code status)
  | KNotFound code int => for_not_found rt code int
  end.

(* add_header calls; [flags_ok]: each call's Ok/Err as observed *)
Fixpoint add_headers (e : http_error) (hdrs : list (str * str * bool)) : http_error * bool :=
  match hdrs with
  | [] => (e, true)
  | (n, v, ok) :: t =>
      match add_header e n v with
      | Ok e' => let '(e'', f) := add_headers e' t in (e'', f && ok)
      | Err _ => let '(e'', f) := add_headers e t in (e'', f && negb ok)
      end
  end.

(* the status the caller asked for *)
Definition requested_status (k : ctor) : N :=
  match k with
  | KLiteral s _ _ _ _ | KClientError _ s _ | KWithStatus _ s => s
  | KInternal _ => 500
  | KUnavail _ _ => 503
  | KBadRequest _ _ => 400
  | KNotFound _ _ => 404
  end.

Definition status_representable (k : ctor) : bool :=
  match k with
  | KLiteral s _ _ _ _ => is_ok (err_from_u16 s)
  | KClientError _ s _ | KWithStatus _ s => is_ok (client_from_u16 s)
  | _ => true
  end.

Fixpoint prefix_of (a b : list str) : bool :=
  match a, b with
  | [], _ => true
  | x :: a', y :: b' => str_eqb x y && prefix_of a' b'
  | _, [] => false
  end.

Definition last_is (x : str) (l : list str) : bool :=
  match last_opt l with Some y => str_eqb x y | None => false end.

(* the property, on what the implementation produced *)
Definition spec_ctor (k : ctor) (id : str) (o : cobs) : bool :=
  match o with
  | OPanicCtor => false
  | OPanicResp => negb (header_legal id)    (* never the case for a generated id *)
  | OResp es ecode eext eint eh status headers (OBody wf rid code msg) leak =>
      (* exactly that status *)
      (status =? es) && (es =? requested_status k) &&
      (* the JSON body *)
      wf && str_eqb rid id && ostr_eqb code ecode && str_eqb msg eext &&
      match hm_get headers H_CONTENT_TYPE with Some vs => last_is CT_JSON vs | None => false end &&
      (* the request id header *)
      match hm_get headers H_REQUEST_ID with Some vs => last_is id vs | None => false end &&
      (* every attached header *)
      forallb (fun e => match hm_get headers (fst e) with
                        | Some ws => prefix_of (snd e) ws
                        | None => false
                        end)
              (match eh with Some h => h | None => [] end) &&
      (* the internal message is not sent *)
      negb leak
  end.

Definition ohm_equiv (a b : option hmap) : bool :=
  match a, b with
  | None, None => true
  | Some x, Some y => hm_wf x && hm_wf y && hm_equiv x y
  | _, _ => false
  end.

Definition agree_ctor (me : http_error) (flags_ok : bool) (id : str) (o : cobs) : bool :=
  match o, into_response me id with
  | OPanicResp, Err Panic => true
  | OResp es ecode eext eint eh status headers (OBody wf rid code msg) leak, Ok r =>
      flags_ok &&
      (es =? e_status me) && ostr_eqb ecode (e_code me) && str_eqb eext (e_external me) &&
      str_eqb eint (e_internal me) && ohm_equiv eh (e_headers me) &&
      (status =? r_status r) && hm_wf headers && hm_equiv headers (r_headers r) &&
      match r_body r with
      | BErrJson rid' code' msg' =>
          wf && str_eqb rid rid' && ostr_eqb code code' && str_eqb msg msg'
      | _ => false
      end
  | _, _ => false
  end.

Definition judge_ctor (k : ctor) (hdrs : list (str * str * bool)) (id txt : str) (o : cobs) : N :=
  if negb (status_representable k) then V_MALFORMED else
  match build txt k with
  | Err Panic =>
      match o with
      | OPanicCtor => V_VIOLATION
      | _ => if spec_ctor k id o then V_DIVERGE else V_VIOLATION
      end
  | Ok e0 =>
      let '(me, flags_ok) := add_headers e0 hdrs in
      if negb (spec_ctor k id o) then V_VIOLATION
      else if agree_ctor me flags_ok id o then V_AGREE else V_DIVERGE
  end.

(* ----- live cases: the wrapper ----- *)

Definition H_SAW : str := bytes_of "x-handler-saw".

(* the model request of each outcome class; [own]: x-request-id values the
   handler attached to what it returned; the handler reports the id it was
   given in the x-handler-saw header *)
Definition live_request (cls status : N) (own : list str) : option request_model :=
  let own_map : hmap := match own with [] => [] | _ => [(H_REQUEST_ID, own)] end in
  let err := mkErr status None [] [] None in
  let rsp_of := fun id : str => mkResponse status (hm_append own_map H_SAW id) BEmpty in
  let err_of := fun id : str =>
                  mkErr status None [] [] (Some (hm_append own_map H_SAW id)) in
  match cls with
  | 0 | 1 => Some (mkRq None None (fun id => Ok (rsp_of id)))                   (* success *)
  | 2 | 3 => Some (mkRq None None (fun id => Err (HEDropshot (err_of id))))     (* handler HttpError *)
  | 4 => Some (mkRq None None (fun id => Err (HEHandler [] (rsp_of id))))       (* custom error *)
  | 5 => Some (mkRq None None (fun _ => Err (herr_of_http_error err)))          (* extractor, HttpError endpoint *)
  | 6 => Some (mkRq None None
                 (fun _ => Err (herr_of_custom [] (Ok (mkResponse status [] BEmpty))))) (* extractor, custom-error endpoint *)
  | 7 | 8 => Some (mkRq None (Some err) (fun id => Ok (rsp_of id)))             (* routing 404 / 405 *)
  | 9 => Some (mkRq (Some err) None (fun id => Ok (rsp_of id)))                 (* version policy *)
  | 10 => Some (mkRq None None (fun _ => Err (herr_of_http_error err)))         (* to_result failure *)
  | _ => None
  end.

Definition handler_runs (cls : N) : bool :=
  match cls with 0 | 1 | 2 | 3 | 4 => true | _ => false end.
Definition framework_body (cls : N) : bool :=
  match cls with 2 | 3 | 5 | 7 | 8 | 9 | 10 => true | _ => false end.

(* the 32 hex digits of a UUID in any spelling (upper case, braces, urn:uuid:,
   no hyphens): the last 32 hex digits of the lower-cased text *)
Definition uuid_key (s : str) : str :=
  let h := filter is_lower_hex (str_lower s) in
  skipn (List.length h - 32)%nat h.

Definition judge_live (cls expect_status status : N) (xrid own sent : list str)
           (saw body_rid : option str) : N :=
  match last_opt xrid, live_request cls status own with
  | _, None => V_MALFORMED
  | None, _ => V_VIOLATION                   (* no x-request-id header at all *)
  | Some id, Some rq =>
      let spec :=
        uuid_shaped id &&
        (* the server's own, not one the client chose ("unique per request") *)
        negb (existsb (fun s => str_eqb (uuid_key id) (uuid_key s)) sent) &&
        (* equal to the id the handler was given *)
        (if handler_runs cls then ostr_eqb saw (Some id)
         else match saw with None => true | Some _ => false end) &&
        (* equal to the one in a framework-format body *)
        (if framework_body cls then ostr_eqb body_rid (Some id) else true) &&
        (status =? expect_status) &&
        (* one header; an error that carries x-request-id values of its own
           keeps them in front *)
        strs_eqb xrid ((if (cls =? 3) then own else []) ++ [id]) in
      if negb spec then V_VIOLATION else
      match handle_wrap rq id with
      | Err _ => V_DIVERGE
      | Ok r =>
          let ok :=
            (r_status r =? status) &&
            option_eqb strs_eqb (hm_get (r_headers r) H_REQUEST_ID) (Some xrid) &&
            ostr_eqb (response_request_id r) (Some id) &&
            (if handler_runs cls
             then option_eqb strs_eqb (hm_get (r_headers r) H_SAW) (Some [id])
             else true) &&
            (if framework_body cls
             then match r_body r with BErrJson rid _ _ => ostr_eqb body_rid (Some rid) | _ => false end
             else true) in
          if ok then V_AGREE else V_DIVERGE
      end
  end.

Definition judge_livem (meth cls expect_status status : N) (headers attached : hmap)
           (sent : list str) (body : option obody) (cl_obs : option N) (cl_expect : N)
           (ecode : option str) (emsg : str) : N :=
  if negb ((meth <=? 5) && (cls <=? 2) && hm_wf attached) then V_MALFORMED else
  match hm_get headers H_REQUEST_ID with
  | None => V_VIOLATION
  | Some xrid =>
      match last_opt xrid with
      | None => V_VIOLATION
      | Some id =>
          let spec :=
            (status =? expect_status) &&
            (* one fresh id, the server's own *)
            strs_eqb xrid [id] && uuid_shaped id &&
            negb (existsb (fun s => str_eqb (uuid_key id) (uuid_key s)) sent) &&
            (* equal to what the handler saw *)
            (if cls =? 0 then option_eqb strs_eqb (hm_get headers H_SAW) (Some [id]) else true) &&
            (* every attached header, with all its values *)
            forallb (fun e => option_eqb strs_eqb (hm_get headers (fst e)) (Some (snd e))) attached &&
            (* the body headers: as for the body this error has, HEAD or not *)
            option_eqb strs_eqb (hm_get headers H_CONTENT_TYPE) (Some [CT_JSON]) &&
            option_eqb N.eqb cl_obs (Some cl_expect) &&
            (* the body itself, where one is sent *)
            (if meth =? 1
             then match body with None => true | Some _ => false end
             else match body with
                  | Some (OBody wf rid code msg) =>
                      wf && str_eqb rid id && ostr_eqb code ecode && str_eqb msg emsg
                  | None => false
                  end) in
          if negb spec then V_VIOLATION else
          (* the model: the error through the wrapper *)
          let own := if cls =? 0 then (H_SAW, [id]) :: attached else attached in
          let e := mkErr status ecode emsg [] (Some own) in
          let rq := if cls =? 0
                    then mkRq None None
                           (fun i => Err (HEDropshot
                              (mkErr status ecode emsg [] (Some ((H_SAW, [i]) :: attached)))))
                    else mkRq None (Some e) (fun _ => Err (HEDropshot e)) in
          match handle_wrap rq id with
          | Ok r =>
              if (r_status r =? status) && hm_wf headers && hm_wf (r_headers r) &&
                 hm_equiv headers (r_headers r) &&
                 match r_body r with
                 | BErrJson rid code msg => str_eqb rid id && ostr_eqb code ecode && str_eqb msg emsg
                 | _ => false
                 end
              then V_AGREE else V_DIVERGE
          | Err _ => V_DIVERGE
          end
      end
  end.

(* ----- uniqueness: the ids of a run, as 128-bit numbers, sorted ----- *)

Fixpoint strictly_increasing (l : list N) : bool :=
  match l with
  | [] => true
  | x :: t => match t with
              | [] => true
              | y :: _ => (x <? y) && strictly_increasing t
              end
  end.

(* no common element of two ascending lists (fuel: sum of the lengths) *)
Fixpoint disjoint_sorted (fuel : nat) (a b : list N) : bool :=
  match fuel with
  | O => is_nil a || is_nil b
  | S f =>
      match a, b with
      | [], _ | _, [] => true
      | x :: a', y :: b' =>
          if x =? y then false
          else if x <? y then disjoint_sorted f a' b
          else disjoint_sorted f a b'
      end
  end.

Definition judge (c : c13case) : N :=
  match c with
  | CStatus lo hi eu cu es cs ac rs => judge_status lo hi eu cu es cs ac rs
  | CCtor k hdrs id txt o => judge_ctor k hdrs id txt o
  | CLive cls expect_status status xrid own sent saw body_rid =>
      judge_live cls expect_status status xrid own sent saw body_rid
  | CLiveM meth cls expect_status status headers attached sent body cl_obs cl_expect ecode emsg =>
      judge_livem meth cls expect_status status headers attached sent body cl_obs cl_expect ecode emsg
  | CUnique n ids supplied =>
      (* one id per request, pairwise different, none of them client-supplied *)
      if (N.of_nat (List.length ids) =? n) && strictly_increasing ids &&
         disjoint_sorted (List.length ids + List.length supplied)%nat ids supplied
      then V_AGREE else V_VIOLATION
  end.
