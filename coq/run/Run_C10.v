(* Run_C10.v - the judge of C10: the malformed streams of the extract harness
   (every case is undecodable by construction; [intended = None]), evaluated
   with the same case type, model and specification functions as Run_C09.v
   ([spec_refused]: a 4xx arrived, shaped as an error body, the handler-entered
   counter did not move, the server still answers; [verdict_malformed]:
   agreement of the status with the model's [xerr_status]). *)
From DS Require Import Base Utf8 Pct Scalars Query Extract.
From DSR Require Export Run_C09.

Definition judge10 (c : ccase) : N := if is_valid_stream c then V_MALFORMED else judge c.
