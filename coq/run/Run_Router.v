(* Run_Router.v — evaluates the router model (Router.v, PathNorm.v) and the
   declarative specification (RouterSpec.v) on route-table cases from the
   harness: registration outcome per endpoint, then a grid of lookups.
   Serves C01, C02, C03 (routing part) and C04.  Verdict codes as in
   Run_C05.v; known-finding class: 106 (K2: an endpoint whose range is the
   empty 'until <minimum version>' cannot be reached).

   Three judges over the same case type: [judge_c02] (registration outcome of
   every declaration against [acceptable], reachability of every accepted
   endpoint), [judge_c01] (every lookup that finds, or should find, an
   endpoint) and [judge_c04] (every lookup that answers, or should answer,
   404/405).  The specification side of the lookup judges is [expect] over the
   list of declarations the IMPLEMENTATION accepted, so it does not depend on
   the model's own registration verdicts. *)
From DS Require Import Base Versions RankEmbed Router RouterSpec Pct Utf8 PathNorm Register Route Pipeline.
From DS Require Semver.

Definition V_AGREE : N := 0.
Definition V_VIOLATION : N := 1.
Definition V_DIVERGE : N := 2.
Definition V_MALFORMED : N := 9.
Definition V_K2R : N := 106.

Definition bool_eqb (a b : bool) : bool := if a then b else negb b.

Definition ncmp := N.compare.
Notation ep := (endpoint N).

Inductive obs :=
| OFound (id : str) (vars : list (str * varval)) (ctype : N) (maxb : option N)
| O404
| O405 (allow : list str)
| O400
| OErr (status : N)
| OPanic
  (* 200 to a HEAD request read off the wire: the echo body is not sent, only
     the fact that an endpoint answered is observed *)
| OFoundHead.

Inductive rcase :=
| CTable (eps : list (str * ep)) (codes : list N)
         (paths methods : list str) (versions : list (option N)) (os : list obs)
  (* one registration on an empty API with a tag policy: the validators of
     ApiDescription::register (C02) *)
| CReg (policy : N) (allow_other : bool) (known : list str) (visible : bool) (tags : list str)
       (path : str) (params : list (N * str * ps)) (dfs : list (str * ps)) (code : N)
       (* a history: this many harmless endpoints (/zz-pre/<k>, unpublished,
          PUT and GET alternating) were registered on the description first *)
       (prefix : N)
  (* a table behind a real server under a version policy (pmax: None =
     unversioned, Some i = header policy with max_version chain[i]); requests
     (path, method, version header as the policy sees it) and what came back *)
| CPipe (chain : list str) (eps : list (str * ep)) (codes : list N) (pmax : option N) (started : bool)
        (reqs : list (str * str * hdr)) (os : list obs).

(* panic classes as the harness numbers them (rest-name and var-name share a
   message in router.rs, hence a code) *)
Definition reg_code (e : reg_err) : N :=
  match e with
  | RE_no_leading_slash => 1 | RE_empty_segment => 2 | RE_var_missing_open => 3
  | RE_var_missing_close => 4 | RE_var_empty => 5 | RE_bad_pattern => 6
  | RE_lit_vs_var => 7 | RE_var_vs_lit => 8 | RE_var_vs_rest => 9 | RE_var_name => 10
  | RE_after_wild => 11 | RE_dup_var => 12 | RE_rest_vs_lit => 13 | RE_rest_vs_var => 14
  | RE_rest_name => 10 | RE_dup_route => 16 | RE_overlap => 17
  | RE_dot_segment => 18 | RE_rest_vs_exact => 19 | RE_exact_vs_rest => 20
  end.

Definition varval_eqb (a b : varval) : bool :=
  match a, b with
  | Single x, Single y => str_eqb x y
  | Multi x, Multi y => list_eqb str_eqb x y
  | _, _ => false
  end.
Definition vars_eqb : list (str * varval) -> list (str * varval) -> bool :=
  list_eqb (fun a b => str_eqb (fst a) (fst b) && varval_eqb (snd a) (snd b)).

(* implementation observation against the model's outcome *)
Definition obs_is_outcome (o : obs) (m : outcome N) : bool :=
  match o, m with
  | OFound id vars ct mb, Found e vs =>
      str_eqb id (e_id e) && vars_eqb vars vs && (ct =? e_ctype e)
      && option_eqb N.eqb mb (e_maxbytes e)
  | OFoundHead, Found _ _ => true
  | O404, E404 => true
  | O405 a, E405 a' => list_eqb str_eqb a a'
  | OPanic, EPanic => true
  | _, _ => false
  end.

(* ... and against what the properties prescribe *)
Definition obs_is_expected (o : obs) (x : expected N) : bool :=
  match o, x with
  | OFound id vars ct mb, XFound d vs =>
      str_eqb id (e_id (snd d)) && vars_eqb vars vs && (ct =? e_ctype (snd d))
      && option_eqb N.eqb mb (e_maxbytes (snd d))
  | OFoundHead, XFound _ _ => true
  | O404, X404 => true
  | O405 a, X405 a' => list_eqb str_eqb a a'
  | _, _ => false
  end.

Definition worse (a b : N) : N :=
  (* priority: malformed > violation > divergence > known class > agree *)
  let rank c := if c =? 9 then 5 else if c =? 1 then 4 else if c =? 2 then 3
                else if c =? 0 then 0 else 1 in
  if rank a <? rank b then b else a.
Definition worst (l : list N) : N := fold_left worse l 0.

(* ---- registration ---- *)
Record rstate := { rs_acc : list (decl N); rs_trie : node N; rs_codes : list N; rs_stop : bool }.

(* once a registration step has been judged a violation or a divergence the
   model and the implementation no longer hold the same table: the rest of the
   history is not judged *)
Definition has_bad (l : list N) : bool := existsb (fun c => (c =? 1) || (c =? 2)) l.

Definition reg_step (st : rstate) (pe : str * ep) (code : N) : rstate :=
  if rs_stop st then
    (if has_bad (rs_codes st) then st
     else {| rs_acc := rs_acc st; rs_trie := rs_trie st;
             rs_codes := V_MALFORMED :: rs_codes st; rs_stop := true |})
  else
  match parse_template (fst pe) with
  | Err c =>
      (* a malformed template: panic class must match; not a judgement of the
         conflict rules *)
      (* 99: refused by a panic whose message the harness does not recognise
         (the wording of a panic is not part of any property) *)
      let v := if (code =? reg_code c) || (code =? 99) then V_AGREE
               else if code =? 0 then V_VIOLATION else V_DIVERGE in
      {| rs_acc := rs_acc st; rs_trie := rs_trie st; rs_codes := v :: rs_codes st; rs_stop := true |}
  | Ok t =>
      let d := (t, snd pe) in
      let ok_spec := acceptable N ncmp (rs_acc st) d in
      match insert N ncmp (rs_trie st) d with
      | Ok r' =>
          let v := if code =? 0 then (if ok_spec then V_AGREE else V_VIOLATION)
                   else (if ok_spec then V_VIOLATION else V_DIVERGE) in
          {| rs_acc := rs_acc st ++ [d]; rs_trie := r'; rs_codes := v :: rs_codes st;
             rs_stop := negb (code =? 0) |}
      | Err c =>
          let v := if code =? 0 then (if ok_spec then V_DIVERGE else V_VIOLATION)
                   else if ok_spec then V_VIOLATION
                   (* refused as the model says: by the panic of the model's class, by a panic whose
                      wording the harness does not recognise (99), or by an Err value (50) *)
                   else if (code =? reg_code c) || (code =? 99) || (code =? 50) then V_AGREE else V_DIVERGE in
          (* a refusal by Err leaves a usable description behind: the history goes on, and
             the refused declaration must have left no trace in it *)
          {| rs_acc := rs_acc st; rs_trie := rs_trie st; rs_codes := v :: rs_codes st;
             rs_stop := negb (code =? 50) |}
      end
  end.

Fixpoint reg_all (st : rstate) (eps : list (str * ep)) (codes : list N) : rstate :=
  match eps, codes with
  | pe :: eps', c :: codes' => reg_all (reg_step st pe c) eps' codes'
  | _, [] => st
  | [], _ :: _ => {| rs_acc := rs_acc st; rs_trie := rs_trie st;
                     rs_codes := V_MALFORMED :: rs_codes st; rs_stop := true |}
  end.

(* ---- lookups ---- *)
Definition grid {A B C} (a : list A) (b : list B) (c : list C) : list (A * B * C) :=
  flat_map (fun x => flat_map (fun y => map (fun z => (x, y, z)) c) b) a.

(* the declarations the implementation accepted, in registration order *)
Fixpoint accepted_impl (eps : list (str * ep)) (codes : list N) : option (list (decl N)) :=
  match eps, codes with
  | pe :: eps', c :: codes' =>
      match accepted_impl eps' codes' with
      | None => None
      | Some acc =>
          if c =? 0 then
            match parse_template (fst pe) with
            | Ok t => Some ((t, snd pe) :: acc)
            | Err _ => None
            end
          else Some acc
      end
  | _, _ => Some []
  end.

Definition is_found (o : obs) : bool := match o with OFound _ _ _ _ | OFoundHead => true | _ => false end.
Definition x_found (x : expected N) : bool :=
  match x with XFound _ _ | XAmbiguous => true | _ => false end.

(* [which]: 1 = C01 (dispatch), 4 = C04 (404/405) *)
Definition judge_lookup (which : N) (acc : list (decl N)) (r : option (node N))
           (q : str * str * option N) (o : obs) : N :=
  let '(p, m, v) := q in
  match input_segments p with
  | Err _ =>
      (* path normalisation is C03's subject; here only: no endpoint may be found *)
      if which =? 1 then (if is_found o then V_VIOLATION else V_AGREE) else V_AGREE
  | Ok segs =>
      let x := expect N ncmp acc m segs v in
      let relevant := if which =? 1 then is_found o || x_found x
                      (* C04: every answer that is, or should be, a 404/405 —
                         including a 404/405 given where an endpoint should
                         have been found *)
                      else negb (is_found o && x_found x) in
      if negb relevant then V_AGREE
      else if obs_is_expected o x then
        match r with
        | Some r => if obs_is_outcome o (lookup N ncmp r m segs v) then V_AGREE else V_DIVERGE
        | None => V_AGREE
        end
      else V_VIOLATION
  end.

Fixpoint judge_lookups which acc r (qs : list (str * str * option N)) (os : list obs) : list N :=
  match qs, os with
  | q :: qs', o :: os' => judge_lookup which acc r q o :: judge_lookups which acc r qs' os'
  | [], [] => []
  | _, _ => [V_MALFORMED]
  end.

(* ---- reachability of every accepted endpoint (C02) ---- *)
Definition empty_range (r : vrange N) : bool :=
  match r with VUntil b => b =? 0 | _ => false end.

Definition judge_reach (acc : list (decl N)) (versioned : bool) (os : list obs) : list N :=
  map (fun d : decl N =>
         if existsb (fun o => match o with OFound id _ _ _ => str_eqb id (e_id (snd d)) | _ => false end) os
         then V_AGREE
         else if versioned && empty_range (e_versions (snd d)) then V_K2R
         else V_VIOLATION) acc.

(* no request may be served by two accepted declarations (C02: accepted
   tables are unambiguous) *)
Definition judge_unambiguous (acc : list (decl N)) (qs : list (str * str * option N)) : list N :=
  map (fun q : str * str * option N =>
         let '(p, m, v) := q in
         match input_segments p with
         | Err _ => V_AGREE
         | Ok segs => match expect N ncmp acc m segs v with XAmbiguous => V_VIOLATION | _ => V_AGREE end
         end) qs.

Definition mk_params (l : list (N * str * ps)) : list param :=
  map (fun x => mkParam (if fst (fst x) =? 0 then LPath else LQuery) (snd (fst x)) (snd x)) l.

Definition verr_code (e : verr) : N := match e with VE_cycle => 30 | VE_bad_ref => 31 | VE_fuel => 9 end.

(* the property's reading of one declaration: tags respect the policy, the
   path variables are exactly the handler's path parameters, no name is both
   a path and a query parameter, every path / query parameter is scalar (the
   wildcard's an array of strings), and the template itself is well formed *)
Definition valid_decl (tc : tag_config) (visible : bool) (tags : list str)
           (t : list pseg) (ps : list param) (d : defs) : bool :=
  tags_ok tc visible tags && wf_template t && path_params_match t ps &&
  match named_params_ok t d ps with Ok true => true | _ => false end.

Definition validator_stage (c : N) : bool := (c =? 50) || (c =? 30) || (c =? 31).

(* decimal digits of a small number, as the harness's format!("{}", k) *)
Fixpoint dec_digits (fuel : nat) (n : N) (acc : str) : str :=
  match fuel with
  | O => acc
  | S f => let acc' := (48 + n mod 10) :: acc in if n / 10 =? 0 then acc' else dec_digits f (n / 10) acc'
  end.
Definition prefix_decl (k : N) : decl N :=
  ([PLit [122;122;45;112;114;101]; PLit (dec_digits 8 k [])],
   mkEp ([112;114;101] ++ dec_digits 8 k []) (if k mod 2 =? 0 then [80;85;84] else [71;69;84]) (VAll : vrange N) 0 None false).
Definition prefix_decls (n : N) : list (decl N) := map prefix_decl (map N.of_nat (seq 0 (N.to_nat n))).

Definition judge_reg (policy : N) (allow_other : bool) (known : list str) (visible : bool)
           (tags : list str) (path : str) (params : list (N * str * ps)) (dfs : list (str * ps))
           (code : N) (prefix : N) : N :=
  let tc := mkTagConfig (if policy =? 0 then TagAny else if policy =? 1 then TagAtLeastOne else TagExactlyOne)
                        allow_other known in
  let e := mkEp [111;112] [71;69;84] (VAll : vrange N) 0 None visible in
  let d := mkDecl path e tags (mk_params params) dfs in
  let pre := prefix_decls prefix in
  match build N ncmp pre with
  | Err _ => V_MALFORMED
  | Ok r0 =>
  let model := match register N ncmp tc r0 d with
               | RAccepted _ => 0
               | RRefused => 50
               | RPanic e => reg_code e
               | RPanicV e => verr_code e
               end in
  if model =? 9 then V_MALFORMED else
  match parse_template path with
  | Err pe =>
      (* a malformed template must not be accepted; which check trips first
         (tag policy or template syntax) is the model's business *)
      if code =? 0 then V_VIOLATION else if (code =? model) || (code =? 99) then V_AGREE else V_DIVERGE
  | Ok t =>
      (* the property: accepted iff the declaration is valid on its own and
         conflicts with nothing registered before *)
      let want := valid_decl tc visible tags t (mk_params params) dfs && acceptable N ncmp pre (t, e) in
      if negb (bool_eqb (code =? 0) want) then V_VIOLATION
      else if (code =? model) || (validator_stage code && validator_stage model)
              || ((code =? 99) && negb (model =? 0)) then V_AGREE
      else V_DIVERGE
  end
  end.

Definition judge_detail_c02 (c : rcase) : list N :=
  match c with
  | CPipe _ _ _ _ _ _ _ => []
  | CReg policy allow_other known visible tags path params dfs code prefix =>
      [judge_reg policy allow_other known visible tags path params dfs code prefix]
  | CTable eps codes paths methods versions os =>
      let st := reg_all {| rs_acc := []; rs_trie := empty_node N; rs_codes := []; rs_stop := false |}
                        eps codes in
      let regv := rev (rs_codes st) in
      if has_bad regv then regv
      else if rs_stop st || negb (length codes =? length eps)%nat then
        regv ++ (match os with [] => [] | _ => [V_MALFORMED] end)
      else
        let versioned := existsb (fun v => match v with Some _ => true | None => false end) versions in
        match os with
        | [] => regv
        | _ => regv ++ judge_reach (rs_acc st) versioned os
                    ++ judge_unambiguous (rs_acc st) (grid paths methods versions)
        end
  end.

(* ---- the request pipeline (Pipeline.v) ----
   The chain is a strictly increasing list of semver versions; ranges carry
   chain indices.  The model is instantiated at V := N through the ranking of
   all versions against the chain (RankEmbed.rank: chain elements get odd
   ranks, a version strictly between two of them the even number in between):
   an order embedding relative to the chain, under which the whole pipeline
   commutes (PipelineEmbed.handle_by_rank) — every range bound and the
   policy's maximum are chain elements. *)
Definition vrank (chain : list Semver.version) (v : Semver.version) : N := rank Semver.version Semver.cmp chain v.
Fixpoint parse_chain (chain : list str) : option (list Semver.version) :=
  match chain with
  | [] => Some []
  | s :: rest => match Semver.parse s, parse_chain rest with
                 | Some v, Some l => Some (v :: l)
                 | _, _ => None
                 end
  end.
Fixpoint strictly_inc (l : list Semver.version) : bool :=
  match l with
  | a :: ((b :: _) as t) => match Semver.cmp a b with Lt => strictly_inc t | _ => false end
  | _ => true
  end.
Definition lift_idx (vs : list Semver.version) (i : N) : N := vrank vs (nth (N.to_nat i) vs Semver.bot).
Definition lift_decl (vs : list Semver.version) (d : decl N) : decl N :=
  (fst d, mkEp (e_id (snd d)) (e_method (snd d)) (map_range (lift_idx vs) (e_versions (snd d)))
               (e_ctype (snd d)) (e_maxbytes (snd d)) (e_visible (snd d))).
Definition idx_ok (n : nat) (r : vrange N) : bool :=
  match r with
  | VAll => true
  | VFrom a => N.to_nat a <? n
  | VFromUntil a b => (N.to_nat a <? n) && (N.to_nat b <? n)
  | VUntil b => N.to_nat b <? n
  end%nat.

Definition judge_pipe_req (which : N) (pol : policy N) (parse : str -> option N)
           (acc : list (decl N)) (r : option (node N)) (q : str * str * hdr) (o : obs) : N :=
  let '(p, m, h) := q in
  (* the property, read off the declared table: the policy decides first *)
  match request_version N ncmp parse pol h with
  | Err _ =>
      (* C05: a missing / unparsable / too-new version: 400-level, no handler *)
      match o with
      | O400 => V_AGREE
      | OErr st => if (400 <=? st) && (st <? 500) then V_DIVERGE else V_VIOLATION
      | _ => V_VIOLATION
      end
  | Ok ov =>
      match input_segments p with
      | Err _ => if which =? 1 then (if is_found o then V_VIOLATION else V_AGREE)
                 else (match o with O400 => V_AGREE | _ => V_VIOLATION end)
      | Ok segs =>
          let x := expect N ncmp acc m segs ov in
          let relevant := if which =? 1 then is_found o || x_found x
                          else negb (is_found o && x_found x) in
          if negb relevant then V_AGREE
          else if obs_is_expected o x then
            match r with
            | Some r =>
                match handle N ncmp parse pol r m p h, o with
                | HInvoke e vs _, OFound _ _ _ _ | HInvoke e vs _, OFoundHead => if obs_is_outcome o (Found e vs) then V_AGREE else V_DIVERGE
                | HNotFound, O404 => V_AGREE
                | HNotAllowed a, O405 a' => if list_eqb str_eqb a' a then V_AGREE else V_DIVERGE
                | _, _ => V_DIVERGE
                end
            | None => V_AGREE
            end
          else V_VIOLATION
      end
  end.

Fixpoint judge_pipe_reqs which pol parse acc r (qs : list (str * str * hdr)) (os : list obs) : list N :=
  match qs, os with
  | q :: qs', o :: os' => judge_pipe_req which pol parse acc r q o :: judge_pipe_reqs which pol parse acc r qs' os'
  | [], [] => []
  | _, _ => [V_MALFORMED]
  end.

Definition judge_pipe (which : N) (chain : list str) (eps : list (str * ep)) (codes : list N)
           (pmax : option N) (started : bool) (reqs : list (str * str * hdr)) (os : list obs) : list N :=
  match parse_chain chain, accepted_impl eps codes with
  | Some vs, Some acc0 =>
      if negb (strictly_inc vs
               && forallb (fun d : decl N => idx_ok (length vs) (e_versions (snd d))) acc0
               && match pmax with Some i => (N.to_nat i <? length vs)%nat | None => true end)
      then [V_MALFORMED] else
      let acc := map (lift_decl vs) acc0 in
      let pol := match pmax with None => PUnversioned | Some i => PHeader (lift_idx vs i) end in
      let parse := fun s => option_map (vrank vs) (Semver.parse s) in
      (* server start: an unversioned policy over a version-restricted table is refused *)
      if negb (bool_eqb started (starts N pol acc)) then [V_VIOLATION]
      else if negb started then (match os with [] => [V_AGREE] | _ => [V_MALFORMED] end)
      else
        let r := match build N ncmp acc with Ok r => Some r | Err _ => None end in
        judge_pipe_reqs which pol parse acc r reqs os
  | _, _ => [V_MALFORMED]
  end.

Definition judge_detail_lookups (which : N) (c : rcase) : list N :=
  match c with
  | CPipe chain eps codes pmax started reqs os => judge_pipe which chain eps codes pmax started reqs os
  | CReg _ _ _ _ _ _ _ _ _ _ => []
  | CTable eps codes paths methods versions os =>
      match os with
      | [] => []           (* registration ended early: nothing was looked up *)
      | _ =>
          match accepted_impl eps codes with
          | None => [V_MALFORMED]
          | Some acc =>
              let r := match build N ncmp acc with Ok r => Some r | Err _ => None end in
              judge_lookups which acc r (grid paths methods versions) os
          end
      end
  end.

Definition judge_c02 (c : rcase) : N := worst (judge_detail_c02 c).
Definition judge_c01 (c : rcase) : N := worst (judge_detail_lookups 1 c).
Definition judge_c04 (c : rcase) : N := worst (judge_detail_lookups 4 c).
(* everything at once (development aid) *)
Definition judge (c : rcase) : N := worse (judge_c02 c) (worse (judge_c01 c) (judge_c04 c)).
