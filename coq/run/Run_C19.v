(* Run_C19.v — evaluates the C19 specification and model on what the real
   macros did with generated declarations.  Verdict codes:
     0 agree   1 violation   2 divergence   9 malformed   119 known finding K19 *)
From DS Require Import Base Versions Semver DocComment Macro.

Definition V_AGREE : N := 0.
Definition V_VIOLATION : N := 1.
Definition V_DIVERGE : N := 2.
Definition V_MALFORMED : N := 9.
Definition V_K19 : N := 119.

Definition bool_eqb (a b : bool) : bool := if a then b else negb b.

(* ---------- observations ---------- *)

(* the registered version range; versions as printed by semver *)
Inductive orange := OAll | OFrom (a : str) | OUntil (b : str) | OFromUntil (a b : str) | OOther.

(* one element of router.endpoints(None) *)
Record oep := mkOep {
  o_opid : str; o_method : str; o_path : str;
  o_summary : option ustr; o_description : option ustr;
  o_tags : list str; o_deprecated : bool; o_visible : bool;
  o_versions : orange;
  o_ctype : str;                 (* body_content_type.mime_type() *)
  o_maxbytes : option N;
  o_body_param : option str;     (* mime type of the Body parameter *)
  o_ws : bool
}.

(* lookup_route of the witness request: operation id, content type, body limit *)
Definition oroute := option (str * str * option N).

(* the operation in openapi(..).json() *)
Record oop := mkOop {
  p_opid : str; p_summary : option ustr; p_description : option ustr;
  p_tags : list str; p_deprecated : bool;
  p_req : list str;              (* keys of requestBody.content *)
  p_ws : bool                    (* x-dropshot-websocket present *)
}.

Inductive c19case :=
(* one declaration, in the three styles [Function; TraitImpl; TraitStub]:
   [raw_ok]: rustc's doc attribute strings are the recorded ones;
   [eps]: the registered endpoint (Err 1 refused, 2 panic, 3 absent);
   [unv]: lookup with no version; [probes]: per probe version the lookup and
   the documented operation per style, and whether the three operations are
   the same JSON *)
| CDecl (a : attr) (raw_ok : bool) (eps : list (res N oep)) (unv : list oroute)
        (probes : list (str * list oroute * list (option oop) * bool))
(* the whole documents of the three styles at one version *)
| CDocs (v : str) (fn_eq_impl impl_eq_stub : bool) (operations : N)
(* a range given through constants with from > until: construction panics *)
| CPanic (a : attr) (panicked : list bool)
(* compile-time refusal, function form and trait form *)
| CRefuse (a : attr) (refused_fn refused_trait : bool).

(* ---------- equality ---------- *)

Definition ostr_eqb := option_eqb str_eqb.
Definition ustr_eqb (a b : ustr) : bool := list_eqb N.eqb a b.
Definition oustr_eqb := option_eqb ustr_eqb.
Definition strs_eqb := list_eqb str_eqb.

Definition ver_eqb (a b : version) : bool :=
  match Semver.cmp a b with Eq => true | _ => false end.

Definition vr_eqb (a b : vr) : bool :=
  match a, b with
  | VAll, VAll => true
  | VFrom x, VFrom y => ver_eqb x y
  | VUntil x, VUntil y => ver_eqb x y
  | VFromUntil x1 x2, VFromUntil y1 y2 => ver_eqb x1 y1 && ver_eqb x2 y2
  | _, _ => false
  end.

Definition orange_vr (o : orange) : option vr :=
  match o with
  | OAll => Some VAll
  | OFrom a => option_map VFrom (Semver.parse a)
  | OUntil b => option_map VUntil (Semver.parse b)
  | OFromUntil a b =>
      match Semver.parse a, Semver.parse b with
      | Some x, Some y => Some (VFromUntil x y)
      | _, _ => None
      end
  | OOther => None
  end.

Definition orange_eqb (a b : orange) : bool :=
  match a, b with
  | OAll, OAll => true
  | OFrom x, OFrom y => str_eqb x y
  | OUntil x, OUntil y => str_eqb x y
  | OFromUntil x1 x2, OFromUntil y1 y2 => str_eqb x1 y1 && str_eqb x2 y2
  | OOther, OOther => true
  | _, _ => false
  end.

Definition oep_eqb (x y : oep) : bool :=
  str_eqb (o_opid x) (o_opid y) && str_eqb (o_method x) (o_method y)
  && str_eqb (o_path x) (o_path y) && oustr_eqb (o_summary x) (o_summary y)
  && oustr_eqb (o_description x) (o_description y) && strs_eqb (o_tags x) (o_tags y)
  && bool_eqb (o_deprecated x) (o_deprecated y) && bool_eqb (o_visible x) (o_visible y)
  && orange_eqb (o_versions x) (o_versions y) && str_eqb (o_ctype x) (o_ctype y)
  && option_eqb N.eqb (o_maxbytes x) (o_maxbytes y)
  && ostr_eqb (o_body_param x) (o_body_param y) && bool_eqb (o_ws x) (o_ws y).

Definition oroute_eqb (x y : oroute) : bool :=
  option_eqb (fun a b =>
    match a, b with
    | (o1, c1, m1), (o2, c2, m2) =>
        str_eqb o1 o2 && str_eqb c1 c2 && option_eqb N.eqb m1 m2
    end) x y.

Definition oop_eqb (x y : oop) : bool :=
  str_eqb (p_opid x) (p_opid y) && oustr_eqb (p_summary x) (p_summary y)
  && oustr_eqb (p_description x) (p_description y) && strs_eqb (p_tags x) (p_tags y)
  && bool_eqb (p_deprecated x) (p_deprecated y) && strs_eqb (p_req x) (p_req y)
  && bool_eqb (p_ws x) (p_ws y).

Definition method_str (m : method) : str :=
  match m with
  | GET => [71;69;84] | PUT => [80;85;84] | POST => [80;79;83;84]
  | DELETE => [68;69;76;69;84;69] | HEAD => [72;69;65;68]
  | PATCH => [80;65;84;67;72] | OPTIONS => [79;80;84;73;79;78;83]
  end.

(* ---------- (a) the specification: the property text, on the observation ---------- *)

(* Every clause is stated in terms of what the declaration SAYS
   ([declared_*] of Macro.v read the arguments; they do not run the model's
   expansion). *)

(* the request-body content type the document must show, where the
   declaration determines it: a typed body shows the declared (or default)
   content type; a multipart body multipart/form-data; a raw body
   application/octet-stream; no body extractor, no requestBody *)
Definition declared_req (a : attr) : option (list str) :=
  match declared_ctype a with
  | None => None
  | Some c =>
      Some match declared_body a with
           | BNone => []
           | BTyped => [mime_type c]
           | BUntyped => [s_octet]
           | BStreaming => [s_octet]
           | BMultipart => [s_multipart]
           end
  end.

(* the registered endpoint carries what was declared (all clauses except the
   doc comment) *)
Definition spec_ep_fields (a : attr) (r : vr) (c : ctype) (o : oep) : bool :=
  str_eqb (o_method o) (method_str (declared_method a))
  && str_eqb (o_path o) (a_path a)
  && str_eqb (o_opid o) (declared_opid a)
  && strs_eqb (o_tags o) (a_tags a)
  && bool_eqb (o_deprecated o) (a_deprecated a)
  && bool_eqb (o_visible o) (negb (a_unpublished a))
  && option_eqb N.eqb (o_maxbytes o) (declared_maxbytes a)
  && str_eqb (o_ctype o) (mime_type c)
  && match orange_vr (o_versions o) with Some r' => vr_eqb r r' | None => false end
  && bool_eqb (o_ws o) (is_channel a).

(* no doc-comment text is lost between summary and description *)
Definition spec_doc (a : attr) (s d : option ustr) : bool :=
  doc_lossless_b (a_docs a) (mkExtracted s d).

(* routing at version [v] ([None]: unversioned): the declared endpoint
   answers exactly inside its declared range, with the declared operation id,
   content type and body limit *)
Definition in_range (r : vr) (v : option version) : bool :=
  match v with None => true | Some x => vinb version Semver.cmp r x end.

Definition spec_route (a : attr) (r : vr) (c : ctype) (v : option version) (o : oroute) : bool :=
  match o with
  | Some (opid, ct, mb) =>
      in_range r v && str_eqb opid (declared_opid a) && str_eqb ct (mime_type c)
      && option_eqb N.eqb mb (declared_maxbytes a)
  | None => negb (in_range r v)
  end.

(* the document for version [v] shows the operation iff published and in
   range, with the declared fields *)
Definition spec_op (a : attr) (r : vr) (v : version) (o : option oop) : bool * bool :=
  match o with
  | Some p =>
      (negb (a_unpublished a) && in_range r (Some v)
       && str_eqb (p_opid p) (declared_opid a) && strs_eqb (p_tags p) (a_tags a)
       && bool_eqb (p_deprecated p) (a_deprecated a)
       && match declared_req a with Some l => strs_eqb (p_req p) l | None => false end
       && bool_eqb (p_ws p) (is_channel a),
       spec_doc a (p_summary p) (p_description p))
  | None => (a_unpublished a || negb (in_range r (Some v)), true)
  end.

Definition all3 {A} (l : list A) : bool := (length l =? 3)%nat.

Fixpoint all_eq {A} (eqb : A -> A -> bool) (l : list A) : bool :=
  match l with
  | x :: ((y :: _) as t) => eqb x y && all_eq eqb t
  | _ => true
  end.

Definition res_oep_eqb (x y : res N oep) : bool :=
  match x, y with
  | Ok a, Ok b => oep_eqb a b
  | Err a, Err b => a =? b
  | _, _ => false
  end.

(* (fields ok, doc clause ok) over the whole observation of one declaration *)
Definition spec_decl (a : attr) (eps : list (res N oep)) (unv : list oroute)
           (probes : list (str * list oroute * list (option oop) * bool)) : bool * bool :=
  match declared_range (a_versions a), declared_ctype a with
  | Some r, Some c =>
      let f_eps := forallb (fun e => match e with Ok o => spec_ep_fields a r c o | Err _ => false end) eps in
      let d_eps := forallb (fun e => match e with Ok o => spec_doc a (o_summary o) (o_description o)
                                                  | Err _ => true end) eps in
      (* the three styles: identical registration, routing and documents *)
      let same := all_eq res_oep_eqb eps && all_eq oroute_eqb unv
                  && forallb (fun p => match p with (_, rs, ops, same) =>
                        all_eq oroute_eqb rs && all_eq (option_eqb oop_eqb) ops && same end) probes in
      let f_unv := forallb (spec_route a r c None) unv in
      let pr := map (fun p => match p with (vs, rs, ops, _) =>
                  match Semver.parse vs with
                  | Some v =>
                      let os := map (spec_op a r v) ops in
                      (forallb (spec_route a r c (Some v)) rs && forallb fst os, forallb snd os)
                  | None => (false, false)
                  end end) probes in
      (f_eps && same && f_unv && forallb fst pr, d_eps && forallb snd pr)
  | _, _ => (false, false)   (* the compiled declaration does not denote an endpoint *)
  end.

(* ---------- (b) the model: expand, route_view, doc_view ---------- *)

Definition vr_orange (r : vr) : orange :=
  match r with
  | VAll => OAll
  | VFrom a => OFrom (Semver.print a)
  | VUntil b => OUntil (Semver.print b)
  | VFromUntil a b => OFromUntil (Semver.print a) (Semver.print b)
  end.

Definition oep_of (e : endpoint) : oep :=
  mkOep (e_opid e) (method_str (e_method e)) (e_path e) (e_summary e) (e_description e)
    (e_tags e) (e_deprecated e) (e_visible e) (vr_orange (e_versions e))
    (mime_type (e_ctype e)) (e_maxbytes e) (option_map mime_type (e_body_param e))
    (e_websocket e).

Definition oroute_of (x : option (str * ctype * option N)) : oroute :=
  match x with Some (o, c, m) => Some (o, mime_type c, m) | None => None end.

Definition oop_of (d : docop) : oop :=
  mkOop (d_opid d) (d_summary d) (d_description d) (d_tags d) (d_deprecated d)
    (match d_request_body d with Some c => [mime_type c] | None => [] end) (d_websocket d).

Definition styles : list style := [Function; TraitImpl; TraitStub].

Fixpoint forallb2 {A B} (f : A -> B -> bool) (l : list A) (m : list B) : bool :=
  match l, m with
  | [], [] => true
  | x :: l', y :: m' => f x y && forallb2 f l' m'
  | _, _ => false
  end.

Definition model_decl (a : attr) (eps : list (res N oep)) (unv : list oroute)
           (probes : list (str * list oroute * list (option oop) * bool)) : bool :=
  forallb2 (fun st e =>
      match expand st a, e with
      | Ok m, Ok o => oep_eqb (oep_of m) o
      | _, _ => false
      end) styles eps
  && forallb2 (fun st o =>
      match expand st a with
      | Ok m => oroute_eqb (oroute_of (route_view m None)) o
      | Err _ => false
      end) styles unv
  && forallb (fun p => match p with (vs, rs, ops, _) =>
      match Semver.parse vs with
      | None => false
      | Some v =>
          forallb2 (fun st o =>
            match expand st a with
            | Ok m => oroute_eqb (oroute_of (route_view m (Some v))) o
            | Err _ => false
            end) styles rs
          && forallb2 (fun st o =>
            match expand st a with
            | Ok m => option_eqb oop_eqb (option_map oop_of (doc_view m v)) o
            | Err _ => false
            end) styles ops
      end end) probes.

(* ---------- verdict ---------- *)

Definition judge (c : c19case) : N :=
  match c with
  | CDecl a raw_ok eps unv probes =>
      if negb (raw_ok && all3 eps && all3 unv
               && forallb (fun p => match p with (_, rs, ops, _) => all3 rs && all3 ops end) probes)
      then V_MALFORMED else
      let (fields_ok, doc_ok) := spec_decl a eps unv probes in
      let model_ok := model_decl a eps unv probes in
      if fields_ok && doc_ok then (if model_ok then V_AGREE else V_DIVERGE)
      else if fields_ok && k19_class (a_docs a) && model_ok then V_K19
      else V_VIOLATION
  | CDocs v e1 e2 n =>
      match Semver.parse v with
      | None => V_MALFORMED
      | Some _ => if e1 && e2 then V_AGREE else V_VIOLATION
      end
  | CPanic a panicked =>
      if negb (all3 panicked) then V_MALFORMED else
      (* no property clause speaks about a range that cannot exist; what is
         checked is that the model predicts the panic in every style *)
      if forallb2 (fun st p =>
           bool_eqb p match expand st a with Err PanicFromUntil => true | _ => false end)
           styles panicked
      then V_AGREE else V_DIVERGE
  | CRefuse a rf rt =>
      (* refusal at macro time is the model's [CompileErrors]; again no
         property clause, so a mismatch is a divergence *)
      let m := match expand Function a with Err (CompileErrors _) => true | _ => false end in
      let m' := match expand TraitImpl a with Err (CompileErrors _) => true | _ => false end in
      if bool_eqb rf m && bool_eqb rt m'
      then V_AGREE else V_DIVERGE
  end.
