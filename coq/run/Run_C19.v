(* Run_C19.v — evaluates the C19 specification and model on what the real
   macros did with generated declarations.  Verdict codes:
     0 agree   1 violation   2 divergence   9 malformed
   (no known-finding class: K19 was fixed by 9fd4ea2; a reappearance is code 1) *)
From DS Require Import Base Versions Semver DocComment Macro.

Definition V_AGREE : N := 0.
Definition V_VIOLATION : N := 1.
Definition V_DIVERGE : N := 2.
Definition V_MALFORMED : N := 9.

Inductive c19case :=
(* one declaration, in the three styles [Function; TraitImpl; TraitStub]:
   [raw_ok]: rustc's doc attribute strings are the recorded ones;
   [eps]: the registered endpoint (Err 1 refused, 2 panic, 3 absent);
   [unv]: lookup with no version; [probes]: per probe version the lookup and
   the documented operation per style, and whether the three operations are
   the same JSON *)
| CDecl (a : attr) (raw_ok : bool) (eps : list (res N oep)) (unv : list oroute)
        (probes : list (str * list oroute * list (option oop) * bool))
(* the whole documents of the three styles at one version *)
| CDocs (v : str) (fn_eq_impl impl_eq_stub : bool) (operations : N)
(* a range given through constants with from > until: construction panics *)
| CPanic (a : attr) (panicked : list bool)
(* compile-time refusal, function form and trait form *)
| CRefuse (a : attr) (refused_fn refused_trait : bool)
(* a declaration with [n] extractor parameters: refused iff beyond the maximum *)
| CRefuseArity (n : N) (refused_fn refused_trait : bool)
(* a trait-level tag_config with probe endpoints: [cfgs] = get_tag_config()
   of the description built from the implementation and from the stub (of a
   trait that can always be built); [refused] = per style (functions on an
   ApiDescription carrying the declared TagConfig; trait implementation; trait
   stub) the refused operation ids and kinds (1 at-least-one, 2 exactly-one,
   3 invalid tag), in declaration order; [docs_same]: the three documents of
   the always-buildable API are identical *)
| CTagCfg (arg : option tc_arg) (eps : list attr) (cfgs : list (option tag_config))
          (refused : list (list (str * N))) (docs_same : bool).

(* ---------- verdict ---------- *)

Definition judge (c : c19case) : N :=
  match c with
  | CDecl a raw_ok eps unv probes =>
      if negb (raw_ok && all3 eps && all3 unv
               && forallb (fun p => match p with (_, rs, ops, _) => all3 rs && all3 ops end) probes)
      then V_MALFORMED else
      let (fields_ok, doc_ok) := spec_decl a eps unv probes in
      let model_ok := model_decl a eps unv probes in
      if fields_ok && doc_ok then (if model_ok then V_AGREE else V_DIVERGE)
      else V_VIOLATION
  | CDocs v e1 e2 n =>
      match Semver.parse v with
      | None => V_MALFORMED
      | Some _ => if e1 && e2 then V_AGREE else V_VIOLATION
      end
  | CPanic a panicked =>
      if negb (all3 panicked) then V_MALFORMED else
      (* no property clause speaks about a range that cannot exist; what is
         checked is that the model predicts the panic in every style *)
      if forallb2 (fun st p =>
           bool_eqb p match expand st a with Err PanicFromUntil => true | _ => false end)
           styles panicked
      then V_AGREE else V_DIVERGE
  | CRefuse a rf rt =>
      (* refusal at macro time is the model's [CompileErrors]; again no
         property clause, so a mismatch is a divergence *)
      let m := match expand Function a with Err (CompileErrors _) => true | _ => false end in
      let m' := match expand TraitImpl a with Err (CompileErrors _) => true | _ => false end in
      if bool_eqb rf m && bool_eqb rt m'
      then V_AGREE else V_DIVERGE
  | CRefuseArity n rf rt =>
      if bool_eqb rf (negb (arity_compiles n)) && bool_eqb rt (negb (arity_compiles n))
      then V_AGREE else V_DIVERGE
  | CTagCfg arg eps cfgs refused docs_same =>
      if negb ((length cfgs =? 2)%nat && all3 refused) then V_MALFORMED else
      (* a declared configuration that is not in force is a violation *)
      if spec_tagcfg arg eps cfgs refused docs_same
      then (if model_tagcfg arg eps cfgs refused then V_AGREE else V_DIVERGE)
      else V_VIOLATION
  end.
