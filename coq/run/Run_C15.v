(* Run_C15.v — evaluates the C15 model (Pagination.v) and the C15
   specification on full scans performed over HTTP by harness/src/bin/c15.rs.
   Verdict codes: 0 agree, 1 violation (the property statement is false of the
   observed scan), 2 divergence (observed scan <> model's scan although the
   statement holds), 9 malformed case.

   The envelope codec of the model is instantiated with a concrete printer /
   reader of exactly what serde_json writes for the harness's selector
       {"v":"v1","page_start":{"order":"ascending","last":123}}
   so that the tokens the model issues can be compared byte for byte with the
   tokens the server issued (where the harness recorded them). *)
From DS Require Import Base Base64 PageToken Pagination.

Definition V_AGREE : N := 0.
Definition V_VIOLATION : N := 1.
Definition V_DIVERGE : N := 2.
Definition V_MALFORMED : N := 9.

Definition rank (v : N) : N :=
  if v =? 1 then 3 else if v =? 2 then 2 else if v =? 9 then 1 else 0.
Definition worst (a b : N) : N := if rank a <? rank b then b else a.
Definition worst_of (l : list N) : N := fold_left worst l V_AGREE.

Definition bool_eqb (a b : bool) : bool := if a then b else negb b.

Definition PAGE_MAX : N := 10000.      (* server.rs: page_max_nitems *)
Definition PAGE_DEFAULT : N := 100.    (* server.rs: page_default_nitems *)

(* ---------- concrete envelope codec for the harness's selector ---------- *)
Fixpoint dec_digits (fuel : nat) (n : N) (acc : str) : str :=
  match fuel with
  | O => acc
  | S f =>
      let acc' := (48 + n mod 10) :: acc in
      if n / 10 =? 0 then acc' else dec_digits f (n / 10) acc'
  end.
Definition print_dec (n : N) : str := dec_digits 60 n [].

(* the bytes of  {'v':'v1','page_start':{'order':'   with double quotes *)
Definition ENV_PREFIX : str :=
  [123;34;118;34;58;34;118;49;34;44;34;112;97;103;101;95;115;116;97;114;116;34;58;
   123;34;111;114;100;101;114;34;58;34].
(* ascending / descending *)
Definition W_ASC : str := [97;115;99;101;110;100;105;110;103].
Definition W_DESC : str := [100;101;115;99;101;110;100;105;110;103].
(* the bytes of  ','last':   with double quotes *)
Definition ENV_MID : str := [34;44;34;108;97;115;116;34;58].
(* }} *)
Definition ENV_SUFFIX : str := [125;125].

Definition env_ser_json (s : sel) : option (list N) :=
  let (o, k) := s in
  Some (ENV_PREFIX ++ (match o with Asc => W_ASC | Desc => W_DESC end)
        ++ ENV_MID ++ print_dec k ++ ENV_SUFFIX).

Fixpoint strip_prefix (p s : str) : option str :=
  match p, s with
  | [], _ => Some s
  | a :: p', b :: s' => if a =? b then strip_prefix p' s' else None
  | _ :: _, [] => None
  end.

Fixpoint span_digits (s : str) : str * str :=
  match s with
  | c :: r => if is_digit c then let (d, rest) := span_digits r in (c :: d, rest) else ([], s)
  | [] => ([], [])
  end.

(* reads back exactly the canonical form (no leading zeros, value < 2^64) *)
Definition env_de_json (bs : list N) : option (pag_version * sel) :=
  match strip_prefix ENV_PREFIX bs with
  | None => None
  | Some r1 =>
      let after_order :=
        match strip_prefix W_ASC r1 with
        | Some r2 => Some (Asc, r2)
        | None => match strip_prefix W_DESC r1 with
                  | Some r2 => Some (Desc, r2)
                  | None => None
                  end
        end in
      match after_order with
      | None => None
      | Some (o, r2) =>
          match strip_prefix ENV_MID r2 with
          | None => None
          | Some r3 =>
              let (ds, r4) := span_digits r3 in
              if is_nil ds then None
              else if str_eqb r4 ENV_SUFFIX && str_eqb (print_dec (dec_value ds)) ds
                      && (dec_value ds <? 18446744073709551616)
                   then Some (V1, (o, dec_value ds)) else None
          end
      end
  end.

(* ---------- the same for collections keyed by strings ----------
   The framework never looks inside an item: keys are abstracted to their
   rank in the collection (position in the sorted list of names, which the
   judge checks to be strictly ascending in Rust's String order = str_ltb).
   The selector the server puts in the token is
       {'v':'v1','page_start':{'order':'ascending','last':'NAME'}}   (double quotes)
   with NAME written raw (the judge requires names free of double quote,
   backslash and control bytes, which serde_json would escape), so the model's
   tokens are again comparable byte for byte with the server's. *)
Definition ENV_MID_S : str := ENV_MID ++ [34].
Definition ENV_SUFFIX_S : str := [34; 125; 125].

(* how ranks are named: an explicit sorted list, or (for collections too long
   to write out) prefix ++ the rank in decimal, zero-padded to a fixed width *)
Inductive namer :=
| NList (names : list str)
| NPad (prefix : str) (width count : N)
(* integer keys beyond 64 bits / negative (u128, i128): the selector holds the
   key as a JSON number; keys are listed ascending *)
| NNum (nums : list Z).

Definition print_Z (z : Z) : str :=
  if (z <? 0)%Z then 45 :: print_dec (Z.to_N (- z)) else print_dec (Z.to_N z).

Fixpoint Z_sorted (l : list Z) : bool :=
  match l with
  | [] => true
  | x :: r => match r with [] => true | y :: _ => (x <? y)%Z && Z_sorted r end
  end.

(* is the key written into the selector as a JSON string (quoted)? *)
Definition namer_quoted (nm : namer) : bool :=
  match nm with NNum _ => false | _ => true end.

Fixpoint pad_dec (width : nat) (n : N) (acc : str) : str :=
  match width with
  | O => acc
  | S w => pad_dec w (n / 10) ((48 + n mod 10) :: acc)
  end.

Fixpoint index_of (nm : str) (names : list str) (i : N) : option N :=
  match names with
  | [] => None
  | x :: r => if str_eqb nm x then Some i else index_of nm r (i + 1)
  end.

Definition name_of (nm : namer) (k : N) : option str :=
  match nm with
  | NList names => nth_error names (N.to_nat k)
  | NPad p w c => if k <? c then Some (p ++ pad_dec (N.to_nat w) k []) else None
  | NNum nums => option_map print_Z (nth_error nums (N.to_nat k))
  end.

Definition rank_of (nm : namer) (s : str) : option N :=
  match nm with
  | NList names => index_of s names 0
  | NPad p w c =>
      match strip_prefix p s with
      | None => None
      | Some ds =>
          if (N.of_nat (length ds) =? w) && forallb is_digit ds && (dec_value ds <? c)
          then Some (dec_value ds) else None
      end
  | NNum nums => index_of s (map print_Z nums) 0
  end.

Definition namer_count (nm : namer) : N :=
  match nm with
  | NList names => N.of_nat (length names)
  | NPad _ _ c => c
  | NNum nums => N.of_nat (length nums)
  end.

Definition env_ser_names (nmr : namer) (s : sel) : option (list N) :=
  let (o, k) := s in
  match name_of nmr k with
  | Some nm =>
      Some (ENV_PREFIX ++ (match o with Asc => W_ASC | Desc => W_DESC end)
            ++ (if namer_quoted nmr then ENV_MID_S ++ nm ++ ENV_SUFFIX_S
                else ENV_MID ++ nm ++ ENV_SUFFIX))
  | None => None
  end.

Definition strip_suffix (suf s : str) : option str :=
  match strip_prefix (rev_append suf []) (rev_append s []) with
  | Some r => Some (rev_append r [])
  | None => None
  end.

Definition env_de_names (names : namer) (bs : list N) : option (pag_version * sel) :=
  match strip_prefix ENV_PREFIX bs with
  | None => None
  | Some r1 =>
      let after_order :=
        match strip_prefix W_ASC r1 with
        | Some r2 => Some (Asc, r2)
        | None => match strip_prefix W_DESC r1 with
                  | Some r2 => Some (Desc, r2)
                  | None => None
                  end
        end in
      match after_order with
      | None => None
      | Some (o, r2) =>
          match strip_prefix (if namer_quoted names then ENV_MID_S else ENV_MID) r2 with
          | None => None
          | Some r3 =>
              match strip_suffix (if namer_quoted names then ENV_SUFFIX_S else ENV_SUFFIX) r3 with
              | None => None
              | Some nm =>
                  match rank_of names nm with
                  | Some k => Some (V1, (o, k))
                  | None => None
                  end
              end
          end
      end
  end.

Fixpoint names_sorted (names : list str) : bool :=
  match names with
  | [] => true
  | x :: r => match r with [] => true | y :: _ => str_ltb x y && names_sorted r end
  end.

Definition name_plain (nm : str) : bool :=
  forallb (fun c => (32 <=? c) && (c <? 256) && negb (c =? 34) && negb (c =? 92)) nm.

(* fixed-width decimals sort like the numbers they write *)
Definition namer_wf (nm : namer) : bool :=
  match nm with
  | NList names => names_sorted names && forallb name_plain names
  | NPad p w c => name_plain p && (w <=? 20) && (c <=? 10 ^ w)
  | NNum nums => Z_sorted nums
  end.

(* ---------- observations ---------- *)
(* Long key lists are written compactly when they are arithmetic progressions
   (the harness checks that the expansion is exactly the list it has):
   KArith first step down count = first, first +/- step, ... (count keys). *)
Inductive keys :=
| KList (l : list N)
| KOff (base : N) (offsets : list N)      (* base + offset, for runs of large keys *)
| KArith (first step : N) (down : bool) (count : N).

Fixpoint arith (n : nat) (cur step : N) (down : bool) : list N :=
  match n with
  | O => []
  | S m => cur :: arith m (if down then cur - step else cur + step) step down
  end.

Definition expand (k : keys) : list N :=
  match k with
  | KList l => l
  | KOff base offsets => map (N.add base) offsets
  | KArith first step down count => arith (N.to_nat count) first step down
  end.

(* one page: items, token present?, the token (where recorded) *)
Definition page_obs := (list N * bool * option str)%type.
Definition page_raw := (keys * bool * option str)%type.
Definition expand_page (p : page_raw) : page_obs :=
  let '(k, b, t) := p in (expand k, b, t).

Inductive scan_obs :=
| SDone (pages : list page_raw)              (* ended on a page without token *)
| SFailed (status : N) (pages : list page_raw)   (* a request was not answered 200 (0: no response) *)
| SRunaway (pages : list page_raw).          (* the client gave up: still a token after |coll| + 2
                                                requests, or more items received than the collection holds *)

(* Summary of a long scan.  [MDone runs nitems item_hash toks]: the scan ended
   on a page without token; [runs] is the run-length encoding of the sequence
   of (page size, token present) — (size, token, how many consecutive pages);
   [nitems] the number of items received; [item_hash] a 64-bit rolling hash
   (hash64) of the whole item sequence in the order received (keys, or ranks
   for names; a name the collection does not hold counts as rank |coll|);
   [toks] the token bytes of a few pages (page index from 0).  Item equality is
   therefore judged up to a collision of the 64-bit hash. *)
Inductive scan_sum :=
| MDone (runs : list (N * bool * N)) (nitems : N) (item_hash : N) (toks : list (N * str))
| MFailed (status : N) (npages : N)
| MRunaway (npages : N).

Inductive keysrc :=
| KInts (k : keys)
| KNames (nm : namer).

Definition hash64 (l : list N) : N :=
  fold_left (fun h k => N.land (N.lxor (h * 33) k) 18446744073709551615) l 5381.

Inductive c15case :=
| CScan (o : order) (coll : keys) (lim : option N) (obs : scan_obs)
| CScanGrid (o : order) (coll : keys) (rows : list (option N * scan_obs))
(* a collection of names (sorted); items in the observation are ranks (a name
   the collection does not hold is reported as rank |names|) *)
| CScanNames (o : order) (names : namer) (lim : option N) (obs : scan_obs)
(* a scan too long to write out page by page: the harness reports a summary
   (see [scan_sum]); judged against the threaded evaluation of the same model
   (Pagination.fast_scan, proved equal to full_scan: C15_fast_scan_is_scan) *)
| CScanSum (o : order) (coll : keysrc) (lim : option N) (obs : scan_sum).

(* ---------- the property statement, on the observation alone ---------- *)
Definition page_spec (eff : N) (p : page_obs) : bool :=
  let '(its, has_tok, _) := p in
  (N.of_nat (length its) <=? eff) &&            (* no page above the effective limit *)
  bool_eqb has_tok (negb (is_nil its)).         (* token iff non-empty *)

(* [fits k]: can a token be issued for a page that ends on key k (is the
   envelope of its selector at most 384 bytes)?  Computed with the codec.
   The property is stated for collections whose tokens all fit; where an
   item's token cannot be issued, the only admissible alternative to a
   complete scan is an explicit error status for the request whose page would
   end on that item, everything before it delivered correctly — never an
   early end without a token. *)
Definition spec_scan_with (fits : N -> bool)
           (o : order) (coll : list N) (lim : option N) (obs : scan_obs) : bool :=
  let eff := page_limit lim PAGE_MAX PAGE_DEFAULT in
  match obs with
  | SDone raw =>
      let pages := map expand_page raw in
      list_eqb N.eqb (concat (map (fun p : page_obs => fst (fst p)) pages)) (view o coll)
      && forallb (page_spec eff) pages
  | SFailed status raw =>
      let pages := map expand_page raw in
      (400 <=? status) && (status <? 600) &&
      forallb (page_spec eff) pages &&
      forallb (fun p : page_obs => snd (fst p)) pages &&
      match strip_prefix (concat (map (fun p : page_obs => fst (fst p)) pages)) (view o coll) with
      | None => false                           (* what was delivered is not a prefix *)
      | Some rest =>
          match last_opt (takeN eff rest) with
          | None => false                       (* nothing was left to deliver *)
          | Some k => negb (fits k)             (* the failing page ends on an unissuable token *)
          end
      end
  | SRunaway _ => false                         (* the scan must terminate *)
  end.

(* ---------- the model's scan ---------- *)
Definition model_scan_with (ser : sel -> option (list N))
           (de : list N -> option (pag_version * sel))
           (o : order) (coll : list N) (lim : option N) : scan_result :=
  full_scan ser de PAGE_MAX PAGE_DEFAULT coll (length coll + 2) o lim.

Definition model_scan := model_scan_with env_ser_json env_de_json.

Definition page_agrees (m : page) (p : page_obs) : bool :=
  let '(its, has_tok, tok) := p in
  list_eqb N.eqb (items m) its &&
  match next_page m with
  | None => negb has_tok
  | Some t => has_tok && match tok with Some t' => str_eqb t t' | None => true end
  end.

Fixpoint pages_agree (ms : list page) (ps : list page_obs) : bool :=
  match ms, ps with
  | [], [] => true
  | m :: ms', p :: ps' => page_agrees m p && pages_agree ms' ps'
  | _, _ => false
  end.

Definition wf_case (coll : list N) (lim : option N) : bool :=
  sortedb coll && match lim with Some l => (1 <=? l) && (l <=? U32_MAX) | None => true end.

Definition judge_scan_with (ser : sel -> option (list N))
           (de : list N -> option (pag_version * sel))
           (o : order) (coll : list N) (lim : option N) (obs : scan_obs) : N :=
  if negb (wf_case coll lim) then V_MALFORMED else
  let fits := fun k => is_ok (serialize sel ser (o, k)) in
  if negb (spec_scan_with fits o coll lim obs) then V_VIOLATION else
  match model_scan_with ser de o coll lim, obs with
  | Done ms, SDone ps => if pages_agree ms (map expand_page ps) then V_AGREE else V_DIVERGE
  | Failed e ms, SFailed c ps =>
      if (status_of e =? c) && pages_agree ms (map expand_page ps) then V_AGREE else V_DIVERGE
  | _, _ => V_DIVERGE
  end.

Definition judge_scan := judge_scan_with env_ser_json env_de_json.

Definition ranks (n : N) : list N := arith (N.to_nat n) 0 1 false.

Definition judge_names (o : order) (names : namer) (lim : option N) (obs : scan_obs) : N :=
  if negb (namer_wf names) then V_MALFORMED else
  judge_scan_with (env_ser_names names) (env_de_names names) o (ranks (namer_count names)) lim obs.

(* ---------- long scans, summarised ---------- *)
Definition expand_runs (runs : list (N * bool * N)) : list (N * bool) :=
  flat_map (fun r : N * bool * N => let '(sz, t, c) := r in repeat (sz, t) (N.to_nat c)) runs.

Definition sum_sizes (l : list (N * bool)) : N := fold_left (fun a p => a + fst p) l 0.

(* the property statement on the summary *)
Definition spec_sum (o : order) (coll : list N) (lim : option N) (obs : scan_sum) : bool :=
  match obs with
  | MDone runs nitems item_hash _ =>
      let eff := page_limit lim PAGE_MAX PAGE_DEFAULT in
      let ps := expand_runs runs in
      (* every item exactly once, in order: as many items as the collection
         holds and the same rolling hash as the collection in scan order *)
      (nitems =? N.of_nat (length coll)) && (sum_sizes ps =? nitems) &&
      (item_hash =? hash64 (view o coll)) &&
      forallb (fun p : N * bool => (fst p <=? eff) && bool_eqb (snd p) (negb (fst p =? 0))) ps
  | MFailed _ _ => false
  | MRunaway _ => false
  end.

Fixpoint toks_agree (ms : list page) (toks : list (N * str)) : bool :=
  match toks with
  | [] => true
  | (i, t) :: r =>
      match nth_error ms (N.to_nat i) with
      | Some m => option_eqb str_eqb (next_page m) (Some t)
      | None => false
      end && toks_agree ms r
  end.

Definition judge_sum (o : order) (src : keysrc) (lim : option N) (obs : scan_sum) : N :=
  let wf := match src with KInts _ => true | KNames nm => namer_wf nm end in
  let coll := match src with KInts k => expand k | KNames nm => ranks (namer_count nm) end in
  let ser := match src with KInts _ => env_ser_json | KNames nm => env_ser_names nm end in
  if negb (wf && wf_case coll lim) then V_MALFORMED else
  if negb (spec_sum o coll lim obs) then V_VIOLATION else
  match fast_scan ser PAGE_MAX PAGE_DEFAULT coll (length coll + 2) o lim, obs with
  | Done ms, MDone runs nitems item_hash toks =>
      if list_eqb (fun a b : N * bool => (fst a =? fst b) && bool_eqb (snd a) (snd b))
                  (map (fun m => (N.of_nat (length (items m)),
                                  match next_page m with Some _ => true | None => false end)) ms)
                  (expand_runs runs)
         && (hash64 (concat (map items ms)) =? item_hash)
         && toks_agree ms toks
      then V_AGREE else V_DIVERGE
  | _, _ => V_DIVERGE
  end.

Definition judge (c : c15case) : N :=
  match c with
  | CScan o coll lim obs => judge_scan o (expand coll) lim obs
  | CScanGrid o coll rows =>
      let c := expand coll in
      worst_of (map (fun r : option N * scan_obs => judge_scan o c (fst r) (snd r)) rows)
  | CScanNames o names lim obs => judge_names o names lim obs
  | CScanSum o src lim obs => judge_sum o src lim obs
  end.
