(* Run_C17.v — judges one observed shutdown of the live server against C17.

   A case is the task mode, the number of wait_for_shutdown() waiters the
   scenario started, and the observed event log (one global order, appended
   under one lock when the event happens: handler events from inside the
   handler, [OCloseCalled] before close() is called and [OCloseReturned] after
   it returned, [OClientGone] before a client closes its socket, [ORespRead]
   after it has read the last body byte).

   Verdicts: 1 when a clause of the property, evaluated directly on the log
   ([spec]), is false; 2 when the clauses hold but the shutdown model
   (Shutdown.v) does not accept the log, or does not end Finished Ok with the
   listener gone; 9 malformed; 0 otherwise. *)
From DS Require Import Base Shutdown.

Definition V_AGREE : N := 0.
Definition V_VIOLATION : N := 1.
Definition V_DIVERGE : N := 2.
Definition V_MALFORMED : N := 9.

Inductive c17case := C17 (m : mode) (waiters : N) (trace : list oev).

Definition is_release (o : oev) : bool :=
  match o with OCloseReturned _ | OWaiter _ _ => true | _ => false end.

(* the log up to / from the first event satisfying p *)
Fixpoint before (p : oev -> bool) (os : list oev) : list oev :=
  match os with
  | [] => []
  | o :: os' => if p o then [] else o :: before p os'
  end.
Fixpoint from (p : oev -> bool) (os : list oev) : list oev :=
  match os with
  | [] => []
  | o :: os' => if p o then o :: os' else from p os'
  end.

Definition is_close_called (o : oev) : bool := match o with OCloseCalled => true | _ => false end.
Definition entered_of (o : oev) : option N := match o with OEntered c => Some c | _ => None end.

Fixpoint entered_ids (os : list oev) : list N :=
  match os with
  | [] => []
  | OEntered c :: os' => c :: entered_ids os'
  | _ :: os' => entered_ids os'
  end.

(* what happened first to connection c: its response was read completely, cut
   short, the client saw its connection end without a response while it was
   still there, or the client left of its own accord *)
Inductive fate := Served | Truncated | SawEnd | Left | Nothing.
Fixpoint fate_of (c : N) (os : list oev) : fate :=
  match os with
  | [] => Nothing
  | ORespRead x true :: os' => if x =? c then Served else fate_of c os'
  | ORespRead x false :: os' => if x =? c then Truncated else fate_of c os'
  | OSawEof x :: os' => if x =? c then SawEnd else fate_of c os'
  | OClientGone x :: os' => if x =? c then Left else fate_of c os'
  | _ :: os' => fate_of c os'
  end.

Definition ended_in (m : mode) (c : N) (os : list oev) : bool :=
  existsb (fun o => match o with
                    | OCompleted x => x =? c
                    | OHDropped x => match m with CancelOnDisconnect => x =? c | Detached => false end
                    | _ => false
                    end) os.

Definition count_p (p : oev -> bool) (os : list oev) : nat := length (filter p os).

Fixpoint nodup_ids (l : list N) : bool :=
  match l with
  | [] => true
  | x :: l' => negb (existsb (N.eqb x) l') && nodup_ids l'
  end.

Definition spec (m : mode) (w : N) (os : list oev) : bool :=
  let pre_close := before is_close_called os in
  let pre_release := before is_release os in
  let post_release := from is_release os in
  (* close() was called once and returned once, in that order *)
  (Nat.eqb (count_p is_close_called os) 1) &&
  (Nat.eqb (count_p (fun o => match o with OCloseReturned _ => true | _ => false end) os) 1) &&
  (Nat.eqb (count_p is_close_called pre_release) 1) &&
  (* 1. every request whose handler had started when shutdown was requested
        gets its complete response, unless its client left *)
  forallb (fun c => match fate_of c os with Served | Left => true | _ => false end)
          (entered_ids pre_close) &&
  (*    and no client that stayed got a response that was cut short *)
  forallb (fun o => match o with
                    | ORespRead c false => match fate_of c os with Left => true | _ => false end
                    | _ => true
                    end) os &&
  (* 2. shutdown does not finish before every started handler has finished
        (detached: returned; cancel-on-disconnect: returned, or dropped with
        its client gone), and no handler runs afterwards *)
  forallb (fun c => ended_in m c pre_release) (entered_ids os) &&
  forallb (fun o => match o with OEntered _ | OCompleted _ => false | _ => true end) post_release &&
  (match m with Detached => forallb (fun o => match o with OHDropped _ => false | _ => true end) os
              | CancelOnDisconnect => true end) &&
  (* 3. afterwards the port does not accept connections (probed at least once,
        after close() returned; 2 = this server's listening socket is still open) *)
  negb (Nat.eqb (count_p (fun o => match o with OConnectAfter _ => true | _ => false end) os) 0) &&
  forallb (fun o => match o with OConnectAfter _ => false | _ => true end)
          (before (fun o => match o with OCloseReturned _ => true | _ => false end) os) &&
  forallb (fun o => match o with OConnectAfter r => negb (r =? 2) | _ => true end) os &&
  (* 4. every waiter is released, all with the result close() returned *)
  (let res := flat_map (fun o => match o with OCloseReturned b | OWaiter _ b => [b] | _ => [] end) os in
   match res with
   | [] => false
   | b :: rest => forallb (Bool.eqb b) rest
   end) &&
  (let js := flat_map (fun o => match o with OWaiter j _ => [j] | _ => [] end) os in
   nodup_ids js && (N.of_nat (length js) =? w)).

Definition judge (c : c17case) : N :=
  match c with
  | C17 m w os =>
      if negb (spec m w os) then V_VIOLATION else
      match replay_obs m os with
      | None => V_DIVERGE
      | Some (s, _) =>
          match ph s with
          | Finished true => if listening s then V_DIVERGE else V_AGREE
          | _ => V_DIVERGE
          end
      end
  end.

Definition labels (c : c17case) : option (list ev) :=
  match c with C17 m _ os => option_map snd (replay_obs m os) end.
