(* Run_C14.v — evaluates the C14 model (PageToken.v) and the C14 specification
   on cases produced by harness/src/bin/c14.rs.  Verdict codes:
     0 agree   1 violation (the property statement is false of what the
     implementation did)   2 divergence (implementation <> model although the
     property statement holds)   9 malformed case.

   Oracles.  The JSON envelope is library code (serde_json); the harness reads
   the token's bytes independently of dropshot — its own lenient base64
   decoder (both alphabets, padding optional, trailing bits ignored) and its
   own mirror of the envelope, version checked by hand — and reports
   [env_oracle] for the bytes it decoded, together with a hash of those bytes.
   The judge decodes the token itself ([lenient_decode], below) and refuses
   the case as malformed if the hashes differ, so the oracle is only ever
   applied to the bytes it was computed for.  Length bound, strict base64
   decoding, the accept/refuse decision, whichpage, limit parsing and the
   clamp are evaluated by the model. *)
From DS Require Import Base Base64 PageToken.

Definition V_AGREE : N := 0.
Definition V_VIOLATION : N := 1.
Definition V_DIVERGE : N := 2.
Definition V_MALFORMED : N := 9.

(* worst of two verdicts: violation > divergence > malformed > agree *)
Definition rank (v : N) : N :=
  if v =? 1 then 3 else if v =? 2 then 2 else if v =? 9 then 1 else 0.
Definition worst (a b : N) : N := if rank a <? rank b then b else a.
Definition worst_of (l : list N) : N := fold_left worst l V_AGREE.

Definition bool_eqb (a b : bool) : bool := if a then b else negb b.

(* ---------- spec-side lenient base64 (what "is base64 at all" means) ---------- *)
Definition dec_char_any (c : N) : option N :=
  match dec_char UrlSafe c with
  | Some s => Some s
  | None => dec_char Standard c
  end.

Fixpoint strip_pad (rt : str) : str :=
  match rt with
  | c :: r => if c =? pad_char then strip_pad r else rt
  | [] => []
  end.

Fixpoint sextets_of (t : str) : option (list N) :=
  match t with
  | [] => Some []
  | c :: r =>
      match dec_char_any c, sextets_of r with
      | Some s, Some l => Some (s :: l)
      | _, _ => None
      end
  end.

Fixpoint bytes_of_sextets (l : list N) : option (list N) :=
  match l with
  | [] => Some []
  | [_] => None
  | [a; b] => Some [a * 4 + b / 16]
  | [a; b; c] => Some [a * 4 + b / 16; (b mod 16) * 16 + c / 4]
  | a :: b :: c :: d :: r =>
      match bytes_of_sextets r with
      | Some y => Some (a * 4 + b / 16 :: (b mod 16) * 16 + c / 4 :: (c mod 4) * 64 + d :: y)
      | None => None
      end
  end.

Definition lenient_decode (t : str) : option (list N) :=
  match sextets_of (rev_append (strip_pad (rev_append t [])) []) with
  | Some l => bytes_of_sextets l
  | None => None
  end.

(* djb2 (xor variant), 32 bit: h' = ((h * 33) xor b) land 0xffffffff *)
Definition djb2 (bs : list N) : N :=
  fold_left (fun h b => N.land (N.lxor (h * 33) b) 4294967295) bs 5381.

(* ---------- oracles and observations ---------- *)
Inductive env_oracle :=
| EnvNone                               (* the bytes are not an envelope for the selector type *)
| EnvSome (is_v1 : bool) (sel : str).   (* envelope; version; selector (canonical JSON bytes) *)

(* issued: the token is literally what ResultsPage::new returned for some
   selector; dec_hash: djb2 of the harness's lenient decoding, if any *)
Inductive tokinfo := TI (issued : bool) (dec_hash : option N) (env : env_oracle).

Inductive tok_obs := TAccept (sel : str) | TRefuse | TPanic.

(* consumer ScanParams of the query cases: { a: String, b: Option<String> } *)
Definition scan_t := (str * option str)%type.
Definition K_A : str := [97].
Definition K_B : str := [98].
Definition scan_de (raw : list (str * str)) : option scan_t :=
  match lookup_last K_A raw with
  | None => None
  | Some a => Some (a, lookup_last K_B raw)
  end.

Inductive qobs :=
| QFirst (a : str) (b : option str) (limit : option N)
| QNext (sel : str) (limit : option N)
| QRefuse
| QPanic.

Inductive live_obs :=
| LOk (limit : N) (nitems : N) (first : option N) (has_token : bool)
| LStatus (code : N)
| LFail.                                 (* no well-formed HTTP response *)

Inductive edit :=
| ESubst (pos : N) (cp : N)              (* replace the byte at pos by code point cp < 256 *)
| ETrunc (len : N)                       (* keep the first len bytes *)
| EAppend (suffix : str)
| EInsert (pos : N) (cp : N)
| EDelete (pos : N).

(* Long byte strings are written compactly: a list of (chunk, count) parts,
   each chunk repeated count times (the harness checks that the expansion is
   exactly the string it used). *)
Inductive cstr := CS (parts : list (str * N)).
Definition cx (c : cstr) : str :=
  let '(CS parts) := c in
  flat_map (fun p : str * N => concat (repeat (fst p) (N.to_nat (snd p)))) parts.

(* key, value, number of consecutive occurrences *)
Definition ckvs := list (cstr * cstr * N).
Definition cx_kvs (l : ckvs) : list (str * str) :=
  flat_map (fun e : cstr * cstr * N =>
              let '(k, v, c) := e in repeat (cx k, cx v) (N.to_nat c)) l.

Inductive ctok_obs := CTAccept (sel : cstr) | CTRefuse | CTPanic.
Definition cx_obs (o : ctok_obs) : tok_obs :=
  match o with CTAccept s => TAccept (cx s) | CTRefuse => TRefuse | CTPanic => TPanic end.

(* http::Uri refuses a request target longer than u16::MAX - 1 bytes; hyper
   answers such a request itself (4xx) and dropshot never sees it *)
Definition URI_MAX_LEN : N := 65534.

Inductive c14case :=
(* selector (canonical JSON), envelope bytes written by the harness's own
   mirror struct (None: serde_json cannot serialise this selector), what
   ResultsPage::new did (token or status; 0 = panic), and what happened to the
   issued token on the way back *)
| CIssue (sel : str) (env : option (list N)) (obs : res N str) (back : tok_obs)
| CAccept (tok : str) (ti : tokinfo) (obs : tok_obs)
| CGrid (base : str) (rows : list (edit * option N * env_oracle * tok_obs))
| CQuery (kvs : list (str * str)) (ti : tokinfo) (obs : qobs)
(* live server: /live/{n}?kvs ; marker = the oracle's reading of the token's
   selector {"last": marker} *)
| CLive (kvs : list (str * str)) (ti : tokinfo) (marker : N) (n : N) (obs : live_obs)
(* the same cases with long strings / many repeated parameters written
   compactly; judged by the same functions after expansion.  [target_len] is
   the length in bytes of the request target the harness sent. *)
| CIssueC (sel : cstr) (env : option cstr) (obs : res N cstr) (back : ctok_obs)
| CAcceptC (tok : cstr) (ti : tokinfo) (obs : ctok_obs)
| CQueryC (kvs : ckvs) (ti : tokinfo) (obs : qobs)
| CLiveC (target_len : N) (kvs : ckvs) (ti : tokinfo) (marker : N) (n : N) (obs : live_obs).

(* ---------- token judgement ---------- *)
Definition utf8_cp (cp : N) : str :=
  if cp <? 128 then [cp] else [192 + cp / 64; 128 + cp mod 64].

Definition apply_edit (base : str) (e : edit) : str :=
  match e with
  | ESubst pos cp =>
      firstn (N.to_nat pos) base ++ utf8_cp cp ++ skipn (S (N.to_nat pos)) base
  | ETrunc len => firstn (N.to_nat len) base
  | EAppend suffix => base ++ suffix
  | EInsert pos cp => firstn (N.to_nat pos) base ++ utf8_cp cp ++ skipn (N.to_nat pos) base
  | EDelete pos => firstn (N.to_nat pos) base ++ skipn (S (N.to_nat pos)) base
  end.

Definition env_result (env : env_oracle) : option (pag_version * str) :=
  match env with
  | EnvNone => None
  | EnvSome v1 s => Some (if v1 then V1 else VOther, s)
  end.

(* the envelope reader, as a function of the decoded bytes: defined on the
   bytes the oracle was computed for *)
Definition env_de_of (lenient : option (list N)) (env : env_oracle)
  : list N -> option (pag_version * str) :=
  fun bs =>
    match lenient with
    | Some lb => if str_eqb bs lb then env_result env else None
    | None => None
    end.

(* the oracle is consistent with the judge's own decoding, and the strict
   decoding (when defined) agrees with the lenient one *)
Definition tok_wf_with (lenient : option (list N)) (tok : str) (dec_hash : option N) : bool :=
  option_eqb N.eqb (option_map djb2 lenient) dec_hash &&
  match b64_decode UrlSafe tok with
  | Some bs => match lenient with Some lb => str_eqb bs lb | None => false end
  | None => true
  end.

(* the property's refusal clause: over-long, not base64 (in any dialect), not
   an envelope of the right shape, or not version v1 *)
Definition tok_wf (tok : str) (dec_hash : option N) : bool :=
  tok_wf_with (lenient_decode tok) tok dec_hash.

Definition must_refuse_with (lenient : option (list N)) (tok : str) (env : env_oracle) : bool :=
  (MAX_TOKEN_LENGTH <? slen tok) ||
  match lenient with
  | None => true
  | Some _ => match env with
              | EnvNone => true
              | EnvSome v1 _ => negb v1
              end
  end.

Definition must_refuse (tok : str) (env : env_oracle) : bool :=
  must_refuse_with (lenient_decode tok) tok env.

Definition oracle_sel (env : env_oracle) : option str :=
  match env with EnvSome true s => Some s | _ => None end.

Definition spec_token (lenient : option (list N)) (tok : str) (ti : tokinfo) (obs : tok_obs) : bool :=
  let '(TI issued _ env) := ti in
  match obs with
  | TPanic => false                                     (* never a panic *)
  | TRefuse => negb issued                               (* an issued token is accepted back *)
  | TAccept s =>
      negb (must_refuse_with lenient tok env) &&         (* malformed tokens are refused *)
      option_eqb str_eqb (oracle_sel env) (Some s)       (* and yields that selector *)
  end.

Definition model_token (lenient : option (list N)) (tok : str) (ti : tokinfo) : res perr str :=
  let '(TI _ _ env) := ti in
  deserialize str (env_de_of lenient env) tok.

Definition judge_token (tok : str) (ti : tokinfo) (obs : tok_obs) : N :=
  let '(TI _ dec_hash _) := ti in
  let lenient := lenient_decode tok in
  if negb (tok_wf_with lenient tok dec_hash) then V_MALFORMED else
  if negb (spec_token lenient tok ti obs) then V_VIOLATION else
  match model_token lenient tok ti, obs with
  | Ok s, TAccept s' => if str_eqb s s' then V_AGREE else V_DIVERGE
  | Err _, TRefuse => V_AGREE
  | _, _ => V_DIVERGE
  end.

(* ---------- limit strings: the property's wording ---------- *)
Definition plain_numeral (s : str) : bool := negb (is_nil s) && forallb is_digit s.
(* value of an optionally '+'-signed decimal numeral *)
Definition numeric (s : str) : option N :=
  match s with
  | 43 :: ds => if plain_numeral ds then Some (dec_value ds) else None
  | _ => if plain_numeral s then Some (dec_value s) else None
  end.
(* "a zero, negative or non-numeric limit is refused" *)
Definition limit_must_refuse (s : str) : bool :=
  match numeric s with None => true | Some v => v =? 0 end.
(* a plain positive decimal that fits the type is "the client's limit" *)
Definition limit_must_accept (s : str) : bool :=
  plain_numeral s && (1 <=? dec_value s) && (dec_value s <=? U32_MAX).

Definition values_of (k : str) (kvs : list (str * str)) : list str :=
  map snd (filter (fun kv => str_eqb (fst kv) k) kvs).

(* what the property says about the limit a handler is given *)
Definition spec_limit (kvs : list (str * str)) (accepted : bool) (lim : option N) : bool :=
  match values_of K_LIMIT kvs with
  | [] => negb accepted || option_eqb N.eqb lim None
  | [s] =>
      if accepted
      then negb (limit_must_refuse s) && option_eqb N.eqb lim (numeric s)
      else true
  | _ => true                                  (* several limits: not specified *)
  end.

(* may the request be refused at all?  Not if everything the property talks
   about is in order: an issued token (or, without token, valid scan
   parameters) and no limit or one plainly valid limit. *)
Definition limits_plainly_fine (kvs : list (str * str)) : bool :=
  match values_of K_LIMIT kvs with
  | [] => true
  | [s] => limit_must_accept s
  | _ => false
  end.

Definition one_valid_limit (kvs : list (str * str)) : bool :=
  match values_of K_LIMIT kvs with
  | [s] => limit_must_accept s
  | _ => false
  end.

Definition spec_query (kvs : list (str * str)) (ti : tokinfo) (obs : qobs) : bool :=
  let '(TI issued _ env) := ti in
  match values_of K_PAGE_TOKEN kvs with
  | [] =>
      (* no token: scan parameters decide (this half is the model's business:
         C09/C10 own query decoding); limit clause applies *)
      match obs with
      | QPanic => false
      | QNext _ _ => false
      | QFirst _ _ l => spec_limit kvs true l
      | QRefuse =>
          (* refusing a plainly valid limit on an otherwise valid first-page
             request contradicts "the client's limit capped at the maximum" *)
          negb (one_valid_limit kvs && match scan_de kvs with Some _ => true | None => false end)
      end
  | [tok] =>
      match obs with
      | QPanic => false
      | QFirst _ _ _ => false                  (* the token alone determines the page *)
      | QNext s l =>
          negb (must_refuse tok env) && option_eqb str_eqb (oracle_sel env) (Some s)
          && spec_limit kvs true l
      | QRefuse => negb (issued && limits_plainly_fine kvs)
      end
  | _ =>
      (* several page_token entries: which one counts is not specified; still
         no panic and never a first page *)
      match obs with
      | QPanic => false
      | QFirst _ _ _ => false
      | _ => true
      end
  end.

Definition model_query (kvs : list (str * str)) (ti : tokinfo) : res perr (pag_params str scan_t) :=
  let '(TI _ _ env) := ti in
  let tok := match lookup_last K_PAGE_TOKEN kvs with Some t => t | None => [] end in
  parse_params str scan_t (env_de_of (lenient_decode tok) env) scan_de kvs.

Definition query_wf (kvs : list (str * str)) (ti : tokinfo) : bool :=
  let '(TI _ dec_hash _) := ti in
  match lookup_last K_PAGE_TOKEN kvs with
  | Some tok => tok_wf tok dec_hash
  | None => true
  end.

Definition judge_query (kvs : list (str * str)) (ti : tokinfo) (obs : qobs) : N :=
  if negb (query_wf kvs ti) then V_MALFORMED else
  if negb (spec_query kvs ti obs) then V_VIOLATION else
  match model_query kvs ti, obs with
  | Ok p, QFirst a b l =>
      match pp_page p with
      | First (a', b') =>
          if str_eqb a a' && option_eqb str_eqb b b' && option_eqb N.eqb l (pp_limit p)
          then V_AGREE else V_DIVERGE
      | Next _ => V_DIVERGE
      end
  | Ok p, QNext s l =>
      match pp_page p with
      | Next s' =>
          if str_eqb s s' && option_eqb N.eqb l (pp_limit p) then V_AGREE else V_DIVERGE
      | First _ => V_DIVERGE
      end
  | Err _, QRefuse => V_AGREE
  | _, _ => V_DIVERGE
  end.

(* ---------- live server ---------- *)
Definition PAGE_MAX : N := 10000.      (* server.rs: page_max_nitems *)
Definition PAGE_DEFAULT : N := 100.    (* server.rs: page_default_nitems *)

(* the live endpoint has no scan parameters *)
Definition scan_de_empty (raw : list (str * str)) : option scan_t := Some ([], None).

Definition model_live (kvs : list (str * str)) (ti : tokinfo) (marker n : N) : live_obs :=
  let '(TI _ _ env) := ti in
  let tok := match lookup_last K_PAGE_TOKEN kvs with Some t => t | None => [] end in
  match parse_params str scan_t (env_de_of (lenient_decode tok) env) scan_de_empty kvs with
  | Err e => LStatus (status_of e)
  | Ok p =>
      let limit := page_limit (pp_limit p) PAGE_MAX PAGE_DEFAULT in
      let start := match pp_page p with First _ => 0 | Next _ => marker end in
      let nitems := N.min limit (n - start) in
      LOk limit nitems (if nitems =? 0 then None else Some (start + 1)) (negb (nitems =? 0))
  end.

Definition live_obs_eqb (a b : live_obs) : bool :=
  match a, b with
  | LOk l1 n1 f1 t1, LOk l2 n2 f2 t2 =>
      (l1 =? l2) && (n1 =? n2) && option_eqb N.eqb f1 f2 && bool_eqb t1 t2
  | LStatus c1, LStatus c2 => c1 =? c2
  | LFail, LFail => true
  | _, _ => false
  end.

Definition spec_live (kvs : list (str * str)) (ti : tokinfo) (obs : live_obs) : bool :=
  let '(TI issued _ env) := ti in
  let toks := values_of K_PAGE_TOKEN kvs in
  let lims := values_of K_LIMIT kvs in
  let tok_bad := match toks with [tok] => must_refuse tok env | _ => false end in
  let lim_bad := match lims with [s] => limit_must_refuse s | _ => false end in
  match obs with
  | LFail => false
  | LStatus c =>
      (400 <=? c) && (c <? 500) &&                       (* a refusal is 4xx, never 5xx *)
      negb (match toks with
            | [] => one_valid_limit kvs
            | [_] => issued && limits_plainly_fine kvs
            | _ => false
            end)
  | LOk limit nitems _ _ =>
      negb tok_bad && negb lim_bad &&
      (nitems <=? limit) &&
      match lims with
      | [] => limit =? PAGE_DEFAULT                       (* the default when absent *)
      | [s] => match numeric s with
               | Some v => limit =? N.min v PAGE_MAX      (* client's limit capped at max *)
               | None => false
               end
      | _ => true
      end
  end.

Definition judge_live (kvs : list (str * str)) (ti : tokinfo) (marker n : N) (obs : live_obs) : N :=
  if negb (query_wf kvs ti) then V_MALFORMED else
  if negb (spec_live kvs ti obs) then V_VIOLATION else
  if live_obs_eqb (model_live kvs ti marker n) obs then V_AGREE else V_DIVERGE.

(* ---------- issue ---------- *)
Definition judge_issue (sel : str) (env : option (list N)) (obs : res N str) (back : tok_obs) : N :=
  if negb (match env with Some bs => bytes_ok bs | None => true end) then V_MALFORMED else
  (* spec: an issued token is accepted back and yields the same selector *)
  let spec := match obs with
              | Ok _ => match back with TAccept s => str_eqb s sel | _ => false end
              | Err _ => true
              end in
  if negb spec then V_VIOLATION else
  match serialize str (fun _ => env) sel, obs with
  | Ok t, Ok t' => if str_eqb t t' then V_AGREE else V_DIVERGE
  | Err e, Err c => if status_of e =? c then V_AGREE else V_DIVERGE
  | _, _ => V_DIVERGE
  end.

Definition judge (c : c14case) : N :=
  match c with
  | CIssue sel env obs back => judge_issue sel env obs back
  | CAccept tok ti obs => judge_token tok ti obs
  | CGrid base rows =>
      worst_of (map (fun r : edit * option N * env_oracle * tok_obs =>
                       let '(e, h, env, obs) := r in
                       judge_token (apply_edit base e) (TI false h env) obs) rows)
  | CQuery kvs ti obs => judge_query kvs ti obs
  | CLive kvs ti marker n obs => judge_live kvs ti marker n obs
  | CIssueC sel env obs back =>
      judge_issue (cx sel) (option_map cx env)
                  (match obs with Ok t => Ok (cx t) | Err c => Err c end) (cx_obs back)
  | CAcceptC tok ti obs => judge_token (cx tok) ti (cx_obs obs)
  | CQueryC kvs ti obs => judge_query (cx_kvs kvs) ti obs
  | CLiveC target_len kvs ti marker n obs =>
      if URI_MAX_LEN <? target_len then
        (* refused by the HTTP library before dropshot: must be a 4xx *)
        match obs with
        | LStatus c => if (400 <=? c) && (c <? 500) then V_AGREE else V_VIOLATION
        | LOk _ _ _ _ => V_DIVERGE
        | LFail => V_VIOLATION
        end
      else judge_live (cx_kvs kvs) ti marker n obs
  end.
