(* Run_C18.v — judges what the live servers did under the faults of the C18
   harness.  Verdict codes (shared by all Run_*.v): 0 agree, 1 violation (the
   specification is false of what the implementation did), 2 divergence
   (implementation <> model although the specification holds), 9 malformed
   case, 118 the case falls in known-finding class K18 ([k18_obs]).

   The specification, per faulty connection (property C18):
     (a) whatever the server sent back is nothing but complete, syntactically
         valid HTTP/1.x responses (HttpSyntax.parse_answer on the RAW bytes);
         an empty answer is fine (closed silently); a last response cut short
         is tolerated only when the CLIENT went away first or the transport
         was reset (EGone), never when the server closed or kept the
         connection open;
     (b) every status is in 100..599, and when the generator built the request
         malformed every final (non-1xx) status is 4xx or 5xx;
     (c) afterwards a well-formed request on a FRESH connection gets 200.
   Where the server legitimately does not speak HTTP/1: after a complete
   HTTP/2 client preface the answer must be well-formed HTTP/2 frames starting
   with SETTINGS; on the TLS listener, TLS records.

   The model (Conn.v), where the generator knows what hyper parses and what
   dropshot's stages decide ([script]): the statuses are exactly those
   [conn_step] predicts, and a predicted panic ends the connection. *)
From DS Require Import Base HttpSyntax Conn.

Definition V_AGREE : N := 0.
Definition V_VIOLATION : N := 1.
Definition V_DIVERGE : N := 2.
Definition V_MALFORMED : N := 9.
Definition V_K18 : N := 118.

Inductive endst :=
| EClosed      (* the server closed: the client read EOF *)
| EGone        (* the client left first (close, RST) or the transport was reset *)
| ETimeout.    (* still open at the deadline *)

(* [unread]: the generator built the request malformed ONLY in the framing of
   its chunked body and addressed it to an endpoint that does not read the
   body (class K18) *)
Inductive fobs :=
| F (malformed head h2 unread : bool) (script : option (list areq)) (mode : task_mode)
    (ans : list N) (e : endst).

Inductive c18case :=
| CFault (f : fobs) (health : N)
| CSeq (fs : list fobs) (valid : list N) (health : N)
  (* [health]/[hans]: status and raw bytes of GET /health over a complete TLS
     handshake on a fresh connection, after the fault; [health2]: the same
     once more after a pause (= [health] where there is no second round) *)
| CTls (ans : list N) (e : endst) (alive : bool) (probe : list N) (health health2 : N) (hans : list N)
  (* [peers] clients began a TLS handshake and stall, still connected, while
     the listener is probed: plain-bytes liveness ([alive], [probe]) and the
     full-handshake health request twice ([h1] with its bytes [hans], [h2]);
     [h3] the same after the peers have gone *)
| CTlsStall (peers : N) (alive : bool) (probe : list N) (h1 h2 h3 : N) (hans : list N)
  (* accept(2) made to fail with EMFILE while a connection waited in the
     listen queue: [filled] the descriptor table was really full, [logged] the
     acceptor's "accept error" warnings during the episode, [ans] what the
     waiting connection was then answered (plain listener), [served] its
     status (TLS listener: 200 = the negotiation was taken up), [health] *)
| CAccept (tls filled : bool) (logged : N) (ans : list N) (served health : N).

Definition is_gone (e : endst) : bool := match e with EGone => true | _ => false end.
Definition is_timeout (e : endst) : bool := match e with ETimeout => true | _ => false end.

(* clause (b) *)
Definition status_class_ok (malformed : bool) (sts : list N) : bool :=
  forallb (fun s => (100 <=? s) && (s <? 600)
                    && (negb malformed || (s <? 200) || (400 <=? s))) sts.

(* the statuses of the complete responses, whatever follows them *)
Definition statuses_of (a : answer) : list N :=
  match a with
  | AComplete l => l
  | APartial l => l
  | AInvalid l => l
  | AFuel => []
  end.

(* clauses (a) and (b): 0 holds, 1 violated, 9 the recogniser ran out of budget *)
Definition spec_answer (malformed head h2 : bool) (ans : list N) (e : endst) : N :=
  if h2 then
    if is_nil ans || valid_h2_answer ans || is_gone e then V_AGREE else V_VIOLATION
  else
    match parse_answer head (negb (is_timeout e)) ans with
    | AComplete sts => if status_class_ok malformed sts then V_AGREE else V_VIOLATION
    | APartial sts =>
        if is_gone e && status_class_ok malformed sts then V_AGREE else V_VIOLATION
    | AInvalid _ => V_VIOLATION
    | AFuel => V_MALFORMED
    end.

(* the model's prediction for a connection on which hyper parses exactly the
   requests [script] (the oracle is the generator's knowledge of the bytes it
   built) *)
Definition predicted (mode : task_mode) (script : list areq) : cstate :=
  conn_step areq (fun _ => (script, TIncomplete [])) (respond mode) (Open [] []) (Bytes []).

Definition model_agrees (mode : task_mode) (script : list areq) (head : bool)
           (ans : list N) (e : endst) : bool :=
  let obs := statuses_of (parse_answer head (negb (is_timeout e)) ans) in
  match predicted mode script with
  | Open _ sent => list_eqb N.eqb obs sent
  | Closed sent =>
      (* the connection's task died (handler panic): nothing more is sent and
         the connection does not stay open *)
      list_eqb N.eqb obs sent && negb (is_timeout e)
  end.

(* Known finding K18 (open): a request whose chunked body framing is invalid,
   sent to an endpoint that never reads the body, is answered 2xx and the
   connection is then closed.  The class: the generator's [unread] mark, and
   the answer is nothing but complete, syntactically valid 2xx responses, at
   least one, on a connection that did not stay open.  Inside the class the
   model agrees with the code (Conn.k18_class, ConnProofs.k18_refuted). *)
Definition k18_obs (malformed head h2 unread : bool) (ans : list N) (e : endst) : bool :=
  malformed && unread && negb h2 && negb (is_timeout e)
  && match parse_answer head true ans with
     | AComplete sts =>
         negb (is_nil sts) && forallb (fun s => (200 <=? s) && (s <? 300)) sts
     | _ => false
     end.

Definition judge_fault (f : fobs) : N :=
  match f with
  | F malformed head h2 unread script mode ans e =>
      let s := spec_answer malformed head h2 ans e in
      if (s =? V_VIOLATION) && k18_obs malformed head h2 unread ans e then V_K18
      else if negb (s =? V_AGREE) then s
      else match script with
           | None => V_AGREE
           | Some sc => if model_agrees mode sc head ans e then V_AGREE else V_DIVERGE
           end
  end.

(* clause (c); the model: [ConnProofs.wellformed_request_answered_after_faults]
   with [respond] of the health request *)
Definition health_areq : areq := AR true true RouteFound [] BNone (HOk 200).
Definition health_expected (mode : task_mode) : N :=
  match respond mode health_areq with Resp s _ => s | ConnPanic => 0 end.
Definition mode_of (f : fobs) : task_mode := match f with F _ _ _ _ _ m _ _ => m end.

(* worst verdict: a violation beats a malformed case beats a divergence beats
   the known-finding class *)
Definition worst (a b : N) : N :=
  if (a =? V_VIOLATION) || (b =? V_VIOLATION) then V_VIOLATION
  else if (a =? V_MALFORMED) || (b =? V_MALFORMED) then V_MALFORMED
  else if (a =? V_DIVERGE) || (b =? V_DIVERGE) then V_DIVERGE
  else if (a =? V_K18) || (b =? V_K18) then V_K18
  else V_AGREE.

Definition judge_health (mode : task_mode) (h : N) : N :=
  if (h =? 200) && (health_expected mode =? 200) then V_AGREE else V_VIOLATION.

Definition judge (c : c18case) : N :=
  match c with
  | CFault f health => worst (judge_fault f) (judge_health (mode_of f) health)
  | CSeq fs valid health =>
      match fs with
      | [] => V_MALFORMED
      | f0 :: _ =>
          if negb (length valid =? length fs)%nat then V_MALFORMED else
          worst (fold_left (fun acc f => worst acc (judge_fault f)) fs V_AGREE)
                (worst (if forallb (N.eqb 200) valid then V_AGREE else V_VIOLATION)
                       (judge_health (mode_of f0) health))
      end
  | CTls ans e alive probe health health2 hans =>
      (* the TLS acceptor is still accepting and negotiating, whatever it
         wrote before a handshake completed is TLS records, and a client that
         completes a handshake on a fresh connection is answered 200 *)
      if alive
         && (is_nil ans || valid_tls_answer ans || is_gone e)
         && (is_nil probe || valid_tls_answer probe)
         && (health =? 200) && (health2 =? 200) && (health_expected Detached =? 200)
         && match parse_answer false false hans with
            | AComplete sts => list_eqb N.eqb sts [200]
            | _ => false
            end
      then V_AGREE else V_VIOLATION
  | CTlsStall peers alive probe h1 h2 h3 hans =>
      (* the property: peers that stall in the middle of a handshake do not
         take the listener down for anybody else *)
      let spec := alive && (is_nil probe || valid_tls_answer probe)
                  && (h1 =? 200) && (h2 =? 200) && (h3 =? 200)
                  && match parse_answer false false hans with
                     | AComplete sts => list_eqb N.eqb sts [200]
                     | _ => false
                     end in
      (* the model: [peers] sockets accepted whose negotiations stay pending,
         then a fresh connection whose negotiation completes: it is served
         (ConnProofs.fresh_connection_unaffected) and the others still pend *)
      let n := N.to_nat (N.min peers 4096) in
      let evs := map (fun k => Loop (AcceptResult (Ok (N.of_nat (S k))))) (seq 0 n)
                 ++ open_and_send true 0 [] in
      let s := srv_run areq (fun _ => ([health_areq], TIncomplete [])) (respond Detached)
                       evs (srv_init true) in
      let model :=
        match s_loop s, lookup 0 (s_conns s) with
        | Accepting, Some (Open _ [st]) => (st =? 200) && (length (s_pending s) =? n)%nat
        | _, _ => false
        end in
      if negb spec then V_VIOLATION else if model then V_AGREE else V_DIVERGE
  | CAccept tls filled logged ans served health =>
      if negb filled then V_AGREE          (* the episode could not be set up: nothing observed *)
      else
        (* the property: the server was not taken down — the connection that
           waited is served, a fresh one is served, the answer is valid HTTP *)
        let spec := (served =? 200) && (health =? 200)
                    && match parse_answer false false ans with
                       | AComplete sts => tls || list_eqb N.eqb sts [200]
                       | _ => false
                       end in
        (* the model: [logged] failed accepts (sleep and retry), then the
           socket: the loop is still accepting, has slept that often, and the
           connection is answered.  Whether the failing accept was reached
           before the table was released is a matter of scheduling: it is
           recorded (tags), not asserted. *)
        let evs := repeat (Loop (AcceptResult (Err (OtherKind 24)))) (N.to_nat (N.min logged 64))
                   ++ open_and_send tls 1 [] in
        let s := srv_run areq (fun _ => ([health_areq], TIncomplete [])) (respond Detached)
                         evs (srv_init tls) in
        let model :=
          match s_loop s, lookup 1 (s_conns s) with
          | Accepting, Some (Open _ [st]) =>
              (st =? 200) && (s_slept s =? N.min logged 64)
          | _, _ => false
          end in
        if negb spec then V_VIOLATION else if model then V_AGREE else V_DIVERGE
  end.
