(* Run_C06.v — judges document cases from the harness (bin openapi): for every
   chain version, the operations read back from the real document against the
   declarative specification (published endpoints whose range contains v) and
   against the model [doc]; every $ref must resolve inside the document; the
   bytes must not depend on registration order or on the run; and what the
   document shows must be what the router serves. *)
From DS Require Import Base Versions Router RouterSpec RouterProofs OpenApiGen DocTags RefClosure.

Definition V_AGREE : N := 0.
Definition V_VIOLATION : N := 1.
Definition V_DIVERGE : N := 2.
Definition V_MALFORMED : N := 9.
Definition ncmp := N.compare.
Notation ep := (endpoint N).

Inductive dobs :=
| DObs (ops : list (str * str * str)) (refs keys : list str)
       (* the names of the top-level tag array in document order, and the tag
          array of each operation (by operation id) *)
       (tags : list str) (optags : list (str * list str))
       (same_perm same_twice : bool)
| DPanic.

Inductive dcase :=
| CDoc (eps : list (str * ep))
       (* tags declared per endpoint (by operation id) and the configured names *)
       (eptags : list (str * list str)) (cfg : list str)
       (obs : list dobs) (found : list (list (option str)))
  (* the definitions gathered for a parameter schema (ReferenceVisitor):
     definition graph, the references of the schema itself, and the keys found
     under components.schemas (None: the real code panicked) *)
| CDeps (dfs : list (str * list str)) (roots : list str) (obs : option (list str * list str * bool)).

Fixpoint parse_all (eps : list (str * ep)) : option (list (decl N)) :=
  match eps with
  | [] => Some []
  | pe :: eps' =>
      match parse_template (fst pe), parse_all eps' with
      | Ok t, Some l => Some ((t, snd pe) :: l)
      | _, _ => None
      end
  end.

Definition op_eqb (a b : str * str * str) : bool :=
  str_eqb (fst (fst a)) (fst (fst b)) && str_eqb (snd (fst a)) (snd (fst b)) && str_eqb (snd a) (snd b).
Definition sub_ops (a b : list (str * str * str)) : bool := forallb (fun x => existsb (op_eqb x) b) a.
Definition same_ops (a b : list (str * str * str)) : bool :=
  sub_ops a b && sub_ops b a && (length a =? length b)%nat.

(* the property, read off the declared table alone *)
Definition spec_ops (acc : list (decl N)) (v : N) : list (str * str * str) :=
  flat_map (fun d : decl N =>
              if e_visible (snd d) && vinb N ncmp (e_versions (snd d)) v
              then [(doc_path (undoc (fst d)), str_upper (e_method (snd d)), e_id (snd d))]
              else []) acc.

Definition model_ops (r : node N) (v : N) : option (list (str * str * str)) :=
  match doc N ncmp r v with
  | DocOk ops => Some (map (fun x => (fst (fst x), snd (fst x), e_id (snd x))) ops)
  | DocPanic => None
  end.

Fixpoint assoc_tags (m : list (str * list str)) (id : str) : list str :=
  match m with
  | [] => []
  | (k, ts) :: m' => if str_eqb k id then ts else assoc_tags m' id
  end.
Definition strs_eqb (a b : list str) : bool := list_eqb str_eqb a b.

Fixpoint judge_versions (eptags : list (str * list str)) (cfg : list str)
         (acc : list (decl N)) (r : node N) (v : N) (obs : list dobs)
         (found : list (list (option str))) : list N :=
  match obs, found with
  | o :: obs', f :: found' =>
      let served_ok :=
        (* unpublished endpoints are omitted yet still served: the router
           answers each endpoint's own witness request by the declaration
           (published or not) whose template, method and range match it *)
        (length f =? length acc)%nat &&
        forallb (fun df : decl N * option str =>
                   let d := fst df in
                   match expect N ncmp acc (e_method (snd d)) (witness_segs (fst d)) (Some v), snd df with
                   | XFound d' _, Some id => str_eqb id (e_id (snd d'))
                   | X404, None => true
                   | X405 _, None => true
                   | _, _ => false
                   end) (combine acc f) in
      (match o with
       | DPanic =>
           (* only a PUBLISHED endpoint SERVED at v whose method OpenAPI has no slot for
              may do that (the model's DocPanic); an unpublished one, or one outside
              its version range, must not disturb the document *)
           match doc N ncmp r v with
           | DocPanic => V_AGREE
           | DocOk _ => V_VIOLATION
           end
       | DObs ops refs keys tags optags same_perm same_twice =>
           if negb (same_ops ops (spec_ops acc v) && forallb (fun x => mem_str x keys) refs
                    && same_perm && same_twice && served_ok)
           then V_VIOLATION
           else match model_ops r v with
                | Some m =>
                    (* the model: same operations; the tag array is the
                       strictly sorted union of the configured names and the
                       tags of the endpoints served at v; an operation carries
                       its endpoint's tags unchanged *)
                    if same_ops ops m
                       && strs_eqb tags (doc_tags N ncmp (fun e => assoc_tags eptags (e_id e)) cfg r v)
                       && forallb (fun it : str * list str => strs_eqb (snd it) (assoc_tags eptags (fst it))) optags
                       && (length optags =? length ops)%nat
                    then V_AGREE else V_DIVERGE
                | None => V_DIVERGE
                end
       end) :: judge_versions eptags cfg acc r (v + 1) obs' found'
  | [], [] => []
  | _, _ => [V_MALFORMED]
  end.

Definition worse (a b : N) : N :=
  let rank c := if c =? 9 then 5 else if c =? 1 then 4 else if c =? 2 then 3 else if c =? 0 then 0 else 1 in
  if rank a <? rank b then b else a.

Definition same_set (a b : list str) : bool :=
  forallb (fun x => mem_str x b) a && forallb (fun x => mem_str x a) b.

Definition judge (c : dcase) : N :=
  match c with
  | CDeps dfs roots obs =>
      (* the property: every schema reference of the document resolves inside
         it; the model: the components hold exactly the definitions reachable
         from the parameter / header schema, and a parameter struct over
         scalar-resolving definitions is accepted *)
      match dependencies dfs roots, obs with
      | Ok out, Some (ks, refs, q_ok) =>
          if negb (forallb (fun x => mem_str x ks) refs) then V_VIOLATION
          else if same_set out ks && q_ok then V_AGREE else V_DIVERGE
      | Err (CE_invalid_ref _), None => V_AGREE
      | Err CE_fuel, _ => V_MALFORMED
      | _, _ => V_DIVERGE
      end
  | CDoc eps eptags cfg obs found =>
      match parse_all eps with
      | None => V_MALFORMED
      | Some acc =>
          match build N ncmp acc with
          | Err _ => V_MALFORMED       (* the harness only emits accepted tables *)
          | Ok r => fold_left worse (judge_versions eptags cfg acc r 0 obs found) 0
          end
      end
  end.
