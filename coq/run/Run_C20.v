(* Run_C20.v — evaluates the C20 model and specification on cases produced by
   harness/src/bin/c20.rs.  Verdict codes:
     0 agree   1 violation (the specification is false of what the
     implementation did)   2 divergence (implementation <> model although the
     specification holds or is silent)   9 malformed case *)
From DS Require Import Base Base64 Sha1 Websocket.

Definition V_AGREE : N := 0.
Definition V_VIOLATION : N := 1.
Definition V_DIVERGE : N := 2.
Definition V_MALFORMED : N := 9.

(* [rep p n]: the byte string [p] repeated [n] times.  The harness writes long
   periodic stretches of a header value this way (harness/src/bin/c20.rs,
   [g_big], which decodes its own term and compares it with the bytes sent)
   instead of tens of thousands of numerals. *)
Definition rep (p : str) (n : N) : str := concat (repeat p (N.to_nat n)).

(* what came back after a 101 *)
Inductive echo_obs :=
  (* small payloads: the pieces sent and the bytes received, compared here *)
| EchoBytes (pieces : list str) (received : str) (eof : bool)
  (* large payloads: lengths and the first differing offset, compared by the harness *)
| EchoSummary (sent recv : N) (mismatch : option N) (eof : bool)
  (* a handshake that carried a large request body: [leaked] = bytes received
     in excess of the payload, [leak_ok] = those leading bytes are the last
     [leaked] bytes of the body as it went on the wire, [mismatch] = first
     offset at which what follows them differs from the payload (compared by
     the harness) *)
| EchoLeak (sent recv leaked : N) (leak_ok : bool) (mismatch : option N) (eof : bool).

(* the request body of a handshake, as it went on the wire (chunk framing
   included): byte for byte when small, else its length *)
Inductive body_desc := BodyBytes (w : str) | BodyAbstract (len : N).
Definition body_len (b : body_desc) : N :=
  match b with BodyBytes w => N.of_nat (length w) | BodyAbstract n => n end.

Inductive hs_obs :=
  (* 101: every response header (lower-cased name, value), the echo, how far
     the handler-entered counter moved *)
| O101 (hdrs : list header) (echo : echo_obs) (entered : N)
  (* any other status; followup: 0 the connection answered a second, ordinary
     HTTP request, 1 it was closed without data, 2 the second request's bytes
     came back raw, 3 anything else, 4 not probed *)
| OStatus (code followup entered : N)
  (* no parseable response *)
| OBroken (what : N).

(* one stream of an HTTP/2 connection *)
Inductive h2_res :=
| H2Status (code : N)      (* final response *)
| H2NoFinal                (* none within the timeout *)
| H2Error (k : N).         (* stream or connection failed *)

Inductive c20case :=
  (* header lines as sent (name, raw value between the colon and CRLF) *)
| CHandshake (wire : list (str * str)) (obs : hs_obs)
  (* the same with a request body: [framing] are the field lines sent after
     [wire] (Content-Length / Transfer-Encoding / Trailer / Expect) *)
| CHandshakeB (wire framing : list (str * str)) (body : body_desc) (obs : hs_obs)
  (* over a whole run: number of 101 answers, total handler entries *)
| CTotals (n101 entered : N)
  (* one HTTP/2 connection: the requests to the channel endpoint, one stream
     each (fields sent, body length); per stream what came back; whether an
     ordinary request was then answered 200 on the same connection; how far
     the handler-entered counter moved over the whole connection *)
| CH2 (reqs : list (list (str * str) * N)) (res : list h2_res) (usable : bool) (entered : N).

(* ---------- well-formed cases: lines hyper's parser lets through and that do
   not change its framing ---------- *)
Definition is_tchar (c : N) : bool :=
  ((48 <=? c) && (c <=? 57)) || ((65 <=? c) && (c <=? 90)) || ((97 <=? c) && (c <=? 122)) ||
  existsb (N.eqb c) [33;35;36;37;38;39;42;43;45;46;94;95;96;124;126].
Definition value_byte_ok (c : N) : bool :=
  (c =? 9) || ((32 <=? c) && (c <=? 126)) || ((128 <=? c) && (c <=? 255)).
(* "content-length" "transfer-encoding" "expect" "host" *)
Definition reserved_names : list str :=
  [ [99;111;110;116;101;110;116;45;108;101;110;103;116;104];
    [116;114;97;110;115;102;101;114;45;101;110;99;111;100;105;110;103];
    [101;120;112;101;99;116]; [104;111;115;116] ].
Definition wire_ok (w : list (str * str)) : bool :=
  (N.of_nat (length w) <=? 300) &&
  forallb (fun l => negb (is_nil (fst l)) && forallb is_tchar (fst l)
                    && forallb value_byte_ok (snd l)
                    && negb (mem_str (str_lower (fst l)) reserved_names)) w.

(* hyper contract (hyper 1.6 role.rs DEFAULT_MAX_HEADERS, httparse
   TooManyHeaders -> Parse::TooLarge): the request parser holds 100 field
   lines; a request with more is answered 431 by hyper itself and the
   connection is closed, before dropshot sees anything.  The harness always
   sends a Host line before the lines of the case. *)
Definition hyper_max_fields : N := 100.
Definition too_many_fields (w : list (str * str)) : bool :=
  hyper_max_fields <? N.of_nat (length w) + 1.

(* ---------- the property, executable ---------- *)

(* [carries], [lacks], [classify] (MustAccept k | MustReject | Unspecified) are
   defined in Websocket.v; WebsocketProofs.v proves what they mean and that the
   model meets them. *)

Definition none_N (o : option N) : bool := match o with None => true | Some _ => false end.

(* What must come back through the pipe.

   Without a request body: exactly the payload, then a clean end of stream.

   With a request body (measured on the unchanged tree, and hyper's doing:
   dropshot does not read the body of a channel request, and hyper upgrades
   the connection after consuming however much of the unread body one
   decoding step gave it - all of a small body that arrived in one piece,
   the first chunk of a chunked one, the first buffer-full of a 64 KiB one):
   the bytes of the body that hyper did not consume reach the channel handler
   ahead of the payload.  So the client must get back some SUFFIX of the body
   as it went on the wire (possibly empty) followed by exactly the payload:
   every byte written after the point where hyper stopped reading the request
   flows unmodified and in order. *)
Definition echo_ok (body : option body_desc) (e : echo_obs) : bool :=
  match body, e with
  | None, EchoBytes pieces received eof => str_eqb received (client_receives pieces) && eof
  | None, EchoSummary sent recv mismatch eof => (sent =? recv) && none_N mismatch && eof
  | None, EchoLeak _ _ _ _ _ _ => false
  | Some (BodyBytes bw), EchoBytes pieces received eof =>
      let lp := length (client_receives pieces) in
      let lr := length received in
      let leaked := (lr - lp)%nat in
      eof && (lp <=? lr)%nat && (leaked <=? length bw)%nat
      && str_eqb received (client_receives (skipn (length bw - leaked) bw :: pieces))
  | Some (BodyAbstract _), EchoBytes _ _ _ => false
  | Some _, EchoSummary sent recv mismatch eof => (sent =? recv) && none_N mismatch && eof
  | Some b, EchoLeak sent recv leaked leak_ok mismatch eof =>
      eof && leak_ok && (recv =? sent + leaked) && none_N mismatch && (leaked <=? body_len b)
  end.

(* 101 Switching Protocols whose Sec-WebSocket-Accept is the given value.
   (The statement of C20 asks nothing of the response's other fields; they are
   compared with the model below.) *)
Definition is_upgrade_101 (hdrs : list header) (accept : str) : bool :=
  list_eqb str_eqb (get_all n_accept hdrs) [accept].

Definition refused_ok (code followup entered : N) : bool :=
  (400 <=? code) && (code <? 500)
  && ((followup =? 0) || (followup =? 1) || (followup =? 4))   (* not upgraded *)
  && (entered =? 0).                                            (* handler not invoked *)

Definition spec (c : cls) (accept : str) (body : option body_desc) (obs : hs_obs) : bool :=
  match c, obs with
  | MustAccept _, O101 hdrs echo entered =>
      is_upgrade_101 hdrs accept && echo_ok body echo && (entered =? 1)
  | MustAccept _, _ => false
  | MustReject, OStatus code followup entered => refused_ok code followup entered
  | MustReject, _ => false
  | Unspecified, _ => true
  end.

(* ---------- agreement with the model ---------- *)

(* some of the request body came through the pipe *)
Definition body_left_over (e : echo_obs) : bool :=
  match e with
  | EchoBytes pieces received _ => (length (client_receives pieces) <? length received)%nat
  | EchoSummary _ _ _ _ => false
  | EchoLeak _ _ leaked _ _ _ => 0 <? leaked
  end.

Definition model_agrees (m : outcome) (body : option body_desc) (obs : hs_obs) : bool :=
  match obs with
  | O101 hdrs echo entered =>
      (status (resp m) =? 101)
      && (let got := filter (fun h => mem_str (fst h) [n_connection; n_upgrade; n_accept]) hdrs in
          let same := list_eqb (fun a b => str_eqb (fst a) (fst b) && str_eqb (snd a) (snd b)) in
          (* in the order [handle] adds them *)
          same got (resp_headers (resp m))
          (* hyper contract: when it stops reading a request body before its
             end (the rest then flows through the pipe) it also disables
             keep-alive, which rewrites the Connection field as a request
             asking to close does *)
          || (body_left_over echo && same got (set_connection_close (resp_headers (resp m)))))
      && echo_ok body echo
      && (entered =? (if handler_invoked m then 1 else 0))
  | OStatus code followup entered =>
      (status (resp m) =? code) && negb (upgraded m)
      && ((followup =? 4) ||
          (followup =? (if existsb (fun h => str_eqb (snd h) t_close) (resp_headers (resp m))
                        then 1 else 0)))
      && (entered =? 0) && negb (handler_invoked m)
  | OBroken _ => false
  end.

(* ---------- HTTP/2 ---------- *)

(* Connection-specific fields cannot be sent in HTTP/2 (RFC 9113 §8.2.2);
   a case that lists one is not something the client put on the wire.
   "connection" "upgrade" "keep-alive" "proxy-connection" "transfer-encoding" "te" *)
Definition h2_forbidden : list str :=
  [ n_connection; n_upgrade; t_keep_alive;
    [112;114;111;120;121;45;99;111;110;110;101;99;116;105;111;110];
    [116;114;97;110;115;102;101;114;45;101;110;99;111;100;105;110;103]; [116;101] ].
Definition h2_fields_ok (w : list (str * str)) : bool :=
  wire_ok w &&
  forallb (fun l => negb (mem_str (str_lower (fst l)) h2_forbidden)
                    && str_eqb (trim_ows (snd l)) (snd l)) w.   (* HPACK values arrive as sent *)

(* One stream.  The request necessarily lacks the Connection and Upgrade
   elements, so the property demands a 4xx final response (and, over the
   connection, no handler entry); the model says 400. *)
Definition h2_stream_verdict (w : list (str * str)) (r : h2_res) : N :=
  let hs := map deliver w in
  match classify hs with
  | MustReject =>
      match r with
      | H2Status code =>
          if (400 <=? code) && (code <? 500)
          then (if code =? status (resp (served hs)) then V_AGREE else V_DIVERGE)
          else V_VIOLATION            (* a 101, or any other non-4xx answer *)
      | H2NoFinal => V_VIOLATION      (* no final response *)
      | H2Error _ => V_VIOLATION      (* no 4xx response either *)
      end
  | _ => V_MALFORMED   (* unreachable: no Connection field *)
  end.

Fixpoint h2_verdicts (reqs : list (list (str * str) * N)) (res : list h2_res) : list N :=
  match reqs, res with
  | [], [] => []
  | (w, _) :: reqs', r :: res' =>
      (if h2_fields_ok w then h2_stream_verdict w r else V_MALFORMED) :: h2_verdicts reqs' res'
  | _, _ => [V_MALFORMED]
  end.

(* the field lines a body adds: "content-length" "transfer-encoding" "trailer" "expect" *)
Definition framing_names : list str :=
  [ [99;111;110;116;101;110;116;45;108;101;110;103;116;104];
    [116;114;97;110;115;102;101;114;45;101;110;99;111;100;105;110;103];
    [116;114;97;105;108;101;114]; [101;120;112;101;99;116] ].
Definition framing_ok (f : list (str * str)) : bool :=
  negb (is_nil f) &&
  forallb (fun l => mem_str (str_lower (fst l)) framing_names && forallb value_byte_ok (snd l)) f.

(* one HTTP/1.1 handshake: [wire] the lines of the case, [framing] the lines
   a body adds (none without a body) *)
Definition handshake_verdict (wire framing : list (str * str)) (body : option body_desc)
           (obs : hs_obs) : N :=
  if too_many_fields (wire ++ framing) then
    (* outside what hyper lets through: the property is silent, the
       contract above is the expectation *)
    match obs with
    | OStatus 431 followup 0 =>
        if (followup =? 1) || (followup =? 4) then V_AGREE else V_DIVERGE
    | _ => V_DIVERGE
    end
  else
  let hs := map deliver (wire ++ framing) in
  let cl := classify hs in
  (* the digest the property demands: of the key the request carries *)
  let accept := match cl with MustAccept k => accept_key k | _ => [] end in
  if negb (spec cl accept body obs) then V_VIOLATION
  else if model_agrees (served hs) body obs then V_AGREE
  else V_DIVERGE.

Definition judge (c : c20case) : N :=
  match c with
  | CHandshake wire obs =>
      if negb (wire_ok wire) then V_MALFORMED else handshake_verdict wire [] None obs
  | CHandshakeB wire framing body obs =>
      (* a request body changes nothing in what the property demands: the
         four elements decide; only the pipe's expectation knows about it *)
      if negb (wire_ok wire && framing_ok framing) then V_MALFORMED
      else handshake_verdict wire framing (Some body) obs
  | CH2 reqs res usable entered =>
      let vs := h2_verdicts reqs res in
      if is_nil reqs || existsb (N.eqb V_MALFORMED) vs then V_MALFORMED
      else if existsb (N.eqb V_VIOLATION) vs || negb (entered =? 0) then V_VIOLATION
      else if existsb (N.eqb V_DIVERGE) vs || negb usable then V_DIVERGE
      else V_AGREE
  | CTotals n101 entered =>
      (* the handler is entered exactly once per upgraded connection *)
      if n101 =? entered then V_AGREE else V_VIOLATION
  end.
