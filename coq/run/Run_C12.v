(* Run_C12.v — evaluates the C12 model (Response.v) and the property's
   specification on cases produced by harness/src/bin/c12.rs.
   Verdict codes: 0 agree, 1 violation, 2 divergence, 9 malformed,
   112 known-finding class K12 (a declared header field whose type is not a
   plain string makes every response a 500). *)
From Coq Require Import String.
From DS Require Import Base Response.

Definition V_AGREE : N := 0.
Definition V_VIOLATION : N := 1.
Definition V_DIVERGE : N := 2.
Definition V_MALFORMED : N := 9.
Definition V_K12 : N := 112.

Definition strs_eqb := list_eqb str_eqb.

(* what to_result() returned: an HttpError (its status) or a response
   (status, headers, body bytes, whether the body parsed back with serde_json
   into the handler's type to a value equal to the original) *)
Inductive tobs :=
| TErr (status : N)
| TResp (status : N) (headers : hmap) (body : str) (roundtrip : bool).

Inductive c12case :=
(* kind: 0 Ok 1 Created 2 Accepted 3 Deleted 4 UpdatedNoContent;
   wrapped: through HttpResponseHeaders; freeform: FreeformBody payload;
   ser: serde_json::to_string of the value (None: it failed) or the freeform bytes *)
| CTyped (kind : N) (wrapped freeform : bool) (ser : option str)
         (declared : list (str * fval)) (ops : list hop) (obs : tobs)
(* kind: 5 found 6 see_other 7 temporary_redirect; obs = Err st: the
   constructor refused with that status *)
| CRedirect (kind : N) (loc : str) (ops : list hop) (obs : res N tobs).

(* the value type of the model instance: the oracle's answer itself *)
Definition VT := option str.
Definition ser_oracle (v : VT) : option str := v.

Definition coded_of (kind : N) (freeform : bool) (ser : option str) : option (coded VT) :=
  let p := if freeform
           then match ser with Some b => Some (PFreeform b) | None => None end
           else Some (PJson ser) in
  match kind, p with
  | 0, Some p => Some (ROk p)
  | 1, Some p => Some (RCreated p)
  | 2, Some p => Some (RAccepted p)
  | 3, _ => Some RDeleted
  | 4, _ => Some RUpdatedNoContent
  | _, _ => None
  end.

Definition redirect_of (kind : N) : option (coded VT) :=
  match kind with
  | 5 => Some RFoundStatus
  | 6 => Some RSeeOtherStatus
  | 7 => Some RTemporaryRedirectStatus
  | _ => None
  end.

(* the declared fields with their names as header names (computed once) *)
Definition named (declared : list (str * fval)) : list (option str * fval) :=
  map (fun f => (header_name (fst f), snd f)) declared.

(* the values declared for header name n *)
Fixpoint candidates_n (d : list (option str * fval)) (n : str) : list str :=
  match d with
  | [] => []
  | (Some k, FStr v) :: t => if str_eqb k n then v :: candidates_n t n else candidates_n t n
  | _ :: t => candidates_n t n
  end.
Definition candidates (declared : list (str * fval)) (n : str) : list str :=
  candidates_n (named declared) n.

Definition explicit_honoured (hs explicit : hmap) : bool :=
  forallb (fun e => option_eqb strs_eqb (hm_get hs (fst e)) (Some (snd e))) explicit.

(* "declared response headers are sent with the given values, headers added
   explicitly override declared ones of the same name" *)
Definition declared_honoured (hs explicit : hmap) (declared : list (str * fval)) : bool :=
  let d := named declared in
  forallb (fun f =>
             match f with
             | (Some n, FStr v) =>
                 if hm_has explicit n then true
                 else match hm_get hs n with
                      | Some [x] =>
                          let c := candidates_n d n in
                          mem_str x c &&
                          match c with [_] => str_eqb x v | _ => true end
                      | _ => false
                      end
             | (None, FStr _) => false
             | (_, FOther) => true
             end) d.

Definition has_bad_name (declared : list (str * fval)) : bool :=
  existsb (fun f => match header_name (fst f) with None => true | Some _ => false end) declared.
Definition has_bad_value (declared : list (str * fval)) : bool :=
  existsb (fun f => match snd f with FStr v => negb (header_legal v) | FOther => false end) declared.
Definition has_other (declared : list (str * fval)) : bool :=
  existsb (fun f => match snd f with FOther => true | _ => false end) declared.

Definition is_error_status (s : N) : bool := (400 <=? s) && (s <=? 599).

Definition body_agrees (b : body) (bytes : str) : bool :=
  match b with
  | BEmpty => is_nil bytes
  | BBytes x => str_eqb x bytes
  | BErrJson _ _ _ => false
  end.

Definition agree (m : res N response) (o : tobs) : bool :=
  match m, o with
  | Err e, TErr st => e =? st
  | Ok r, TResp st hs bytes _ =>
      (st =? r_status r) && hm_wf hs && hm_wf (r_headers r) && hm_equiv hs (r_headers r) &&
      body_agrees (r_body r) bytes
  | _, _ => false
  end.

Definition judge_typed (kind : N) (wrapped freeform : bool) (ser : option str)
           (declared : list (str * fval)) (ops : list hop) (o : tobs) : N :=
  match coded_of kind freeform ser, hm_of_ops ops [] with
  | None, _ | _, None => V_MALFORMED
  | Some c, Some explicit =>
      if negb wrapped && negb (is_nil declared && is_nil ops) then V_MALFORMED else
      let model := if wrapped
                   then to_result_headers VT ser_oracle (mkHresp c declared explicit)
                   else to_result_coded VT ser_oracle c in
      let is_json := (kind <=? 2) && negb freeform in
      let ser_failed := is_json && match ser with None => true | Some _ => false end in
      match o with
      | TResp st hs bytes rt =>
          let ct_named := hm_has explicit H_CONTENT_TYPE ||
                          negb (is_nil (candidates declared H_CONTENT_TYPE)) in
          let spec :=
            (st =? status_of c) &&
            (if is_json
             then rt && option_eqb str_eqb ser (Some bytes) &&
                  (ct_named || option_eqb strs_eqb (hm_get hs H_CONTENT_TYPE) (Some [CT_JSON]))
             else if kind <=? 2 then true
             else is_nil bytes) &&
            explicit_honoured hs explicit &&
            declared_honoured hs explicit declared in
          if negb spec then V_VIOLATION
          else if agree model o then V_AGREE else V_DIVERGE
      | TErr st =>
          if negb (is_error_status st) then V_VIOLATION
          else if ser_failed || has_bad_name declared || has_bad_value declared
          then (if agree model o then V_AGREE else V_DIVERGE)
          else if has_other declared && agree model o then V_K12
          else V_VIOLATION          (* a response that could be sent was refused *)
      end
  end.

Definition judge_redirect (kind : N) (loc : str) (ops : list hop) (o : res N tobs) : N :=
  match redirect_of kind, hm_of_ops ops [] with
  | None, _ | _, None => V_MALFORMED
  | Some c, Some explicit =>
      let legal := header_legal loc in
      let mctor := redirect c loc in
      match o with
      | Err st =>
          if legal || negb (is_error_status st) then V_VIOLATION
          else match mctor with
               | Err e => if e =? st then V_AGREE else V_DIVERGE
               | Ok _ => V_DIVERGE
               end
      | Ok (TErr st) =>
          (* accepted by the constructor, refused by to_result *)
          if legal then V_VIOLATION else V_DIVERGE
      | Ok (TResp st hs bytes rt) =>
          if negb legal then V_VIOLATION else
          let spec :=
            (st =? status_of c) && is_nil bytes &&
            explicit_honoured hs explicit &&
            (hm_has explicit H_LOCATION ||
             option_eqb strs_eqb (hm_get hs H_LOCATION) (Some [loc])) in
          if negb spec then V_VIOLATION else
          match mctor with
          | Ok h =>
              if agree (to_result_headers VT ser_oracle (with_explicit h explicit))
                       (TResp st hs bytes rt)
              then V_AGREE else V_DIVERGE
          | Err _ => V_DIVERGE
          end
      end
  end.

Definition judge (c : c12case) : N :=
  match c with
  | CTyped kind wrapped freeform ser declared ops o =>
      judge_typed kind wrapped freeform ser declared ops o
  | CRedirect kind loc ops o => judge_redirect kind loc ops o
  end.
