(* Run_C09.v — evaluates the C09 / C10 model and specification on cases
   produced by the harness (harness/src/bin/extract).  Verdict codes:
     0 agree   1 violation (the specification is false of what the
     implementation did)   2 divergence (implementation <> model although the
     specification holds)   9 malformed case   1xx known-finding class xx.

   A case carries the request as the client built it (the wire strings), the
   value the client meant to convey ([intended = Some v]: a valid stream, the
   property is C09; [None]: a deliberately malformed stream, the property is
   C10), and the observation: status, error-body shape, whether the endpoint's
   handler-entered counter moved, what the handler echoed (typed values and
   its RequestContext's request information), whether the server still
   answers afterwards. *)
From DS Require Import Base Utf8 Pct Scalars Query Extract.

Definition V_AGREE : N := 0.
Definition V_VIOLATION : N := 1.
Definition V_DIVERGE : N := 2.
Definition V_MALFORMED : N := 9.
(* K-Q128: a query / form field of type u128 or i128 is refused whatever its value *)
Definition V_K128 : N := 191.
(* K-B128: a JSON body type with a u128 / i128 field in a position serde buffers
   (behind flatten, in an untagged or internally tagged enum, or in an adjacently
   tagged one whose content precedes its tag) is refused whatever the value *)
Definition V_K128B : N := 194.

(* run-length notation for long byte strings in case terms: the harness
   writes a value in which a unit of 1..80 bytes repeats as [rep n unit ++ ..];
   lossless, expanded here before anything is evaluated *)
Definition rep (n : N) (s : str) : str := N.iter n (app s) [].

Inductive rinfo := RI (method uri : str) (marker : option str) (port : N).

Inductive obs :=
| ONone
  (* [cls]: which error site, told by the fixed head of the message (Extract.xerr_class) *)
| OErr (status : N) (shape entered usable : bool) (cls : N)
| OOk (entered : bool) (structs : list (list (str * fval))) (raw : option str)
      (parts : option (list (str * str))) (ri : option rinfo) (usable : bool).

Definition named := list (str * fval).

(* payloads the Coq VM cannot hold (64 Ki elements and more): each value is
   abstracted by the harness to (length, first 32 bytes, last 32 bytes,
   FNV-1a-64 hash) *)
Inductive dig := Dig (len : N) (pre suf : str) (hash : N).
Definition dig_eqb (a b : dig) : bool :=
  match a, b with
  | Dig l p s h, Dig l' p' s' h' => (l =? l') && str_eqb p p' && str_eqb s s' && (h =? h')
  end.
Inductive lobs :=
| LNone
| LErr (status : N)
| LOk (entered usable : bool) (got : list dig) (ri : option rinfo).

(* the body extractor of a multi-extractor endpoint *)
Inductive mbody :=
| MBNone
| MBJson (ct : hdr) (cap : N) (frames : list str) (oracle : option named)
| MBForm (sp : spec) (ct : hdr) (cap : N) (frames : list str)
| MBRaw (cap : N) (frames : list str)
| MBMultipart (ct : hdr).

Inductive fsrc :=
| FPath (rawseg : str)
| FQuery (q : option str).

Inductive ccase :=
| CPath (sp : spec) (ws : list (str * wseg)) (intended : option (list fval)) (rq : rinfo) (o : obs)
| CQuery (sp : spec) (q : option str) (intended : option (list fval)) (rq : rinfo) (o : obs)
| CForm (sp : spec) (ct : hdr) (cap : N) (frames : list str) (intended : option (list fval))
        (rq : rinfo) (o : obs)
  (* [oracle]: what serde_json makes of the concatenated frames as ONE JSON
     document ([serde_json::from_slice]: a value, then end of input - what
     body.rs does), obtained by calling the library directly (the parser is a
     Section variable of the theorems) *)
| CJson (ct : hdr) (cap : N) (frames : list str) (oracle : option named)
        (intended : option named) (rq : rinfo) (o : obs)
  (* a JSON body whose type goes through serde's buffering (flatten, untagged /
     internally / adjacently tagged enums with data).  The derived code for
     such types is not modelled beyond the parser oracle: the specification
     decides.  [buf128]: the value holds a 128-bit integer in a buffered position *)
| CJsonB (buf128 : bool) (ct : hdr) (cap : N) (frames : list str) (oracle : option named)
         (intended : option named) (rq : rinfo) (o : obs)
| CRaw (streaming : bool) (ct : hdr) (cap : N) (frames : list str) (rq : rinfo) (o : obs)
| CMultipart (ct : hdr) (cap : N) (frames : list str)
             (intended : option (str * list (str * str))) (rq : rinfo) (o : obs)
| CAll (psp : spec) (ws : list (str * wseg)) (qsp : spec) (q : option str)
       (ct : hdr) (cap : N) (frames : list str) (oracle : option named)
       (intended : option (list fval * list fval * named)) (rq : rinfo) (o : obs)
  (* an endpoint with two or three extractors and faults at several stages at
     once (malformed stream only): [extract3] over the stages present *)
| CMulti (path : option (spec * list (str * wseg))) (query : option (spec * option str))
         (body : mbody) (rq : rinfo) (o : obs)
  (* a struct { v: f32 } / { v: f64 } as path or query parameter: [intended] and
     the echoed value are IEEE bit patterns; the handler echoes [to_bits()] *)
| CFloat (double : bool) (src : fsrc) (intended : option N) (rq : rinfo) (o : obs)
  (* a valid request with a payload of 64 Ki bytes or more: the values sent and
     the values echoed as digests; the specification alone is evaluated *)
| CLargeOk (sent : list dig) (rq : rinfo) (o : lobs)
  (* refused in front of the extractors (the HTTP parser, the router): no
     model here, the specification alone is evaluated *)
| CNoModel (want_shape : bool) (rq : rinfo) (o : obs).

(* ---------- equality tests ---------- *)

Definition bool_eqb (a b : bool) : bool := if a then b else negb b.

Definition fval_eqb (a b : fval) : bool :=
  match a, b with
  | FvOne x, FvOne y => sval_eqb x y
  | FvOpt x, FvOpt y => option_eqb sval_eqb x y
  | FvSeq x, FvSeq y => list_eqb sval_eqb x y
  | _, _ => false
  end.

Definition named_eqb (a b : named) : bool :=
  list_eqb (fun x y => str_eqb (fst x) (fst y) && fval_eqb (snd x) (snd y)) a b.

Definition pairs_eqb (a b : list (str * str)) : bool :=
  list_eqb (fun x y => str_eqb (fst x) (fst y) && str_eqb (snd x) (snd y)) a b.

Definition with_names (sp : spec) (vals : list fval) : named := combine (map fst sp) vals.

Definition rinfo_eqb (a b : rinfo) : bool :=
  match a, b with
  | RI m u k p, RI m' u' k' p' =>
      str_eqb m m' && str_eqb u u' && option_eqb str_eqb k k' && (p =? p')
  end.

(* the handler's request context shows this request's own method, URI,
   marker header and peer port *)
Definition ri_ok (ri : option rinfo) (rq : rinfo) : bool :=
  match ri with Some r => rinfo_eqb r rq | None => false end.

(* ---------- the two specifications ---------- *)

(* C09: the handler ran once, its typed arguments equal the client's values,
   its request context is this request's, the server lives on *)
Definition spec_delivered (o : obs) (rq : rinfo) (structs : list named)
           (raw : option str) (parts : option (list (str * str))) : bool :=
  match o with
  | OOk entered ss r ps ri usable =>
      entered && list_eqb named_eqb ss structs && option_eqb str_eqb r raw &&
      option_eqb pairs_eqb ps parts && ri_ok ri rq && usable
  | _ => false
  end.

(* C10: a 4xx arrived, shaped as an error body, the handler was not entered,
   the server lives on *)
Definition spec_refused (want_shape : bool) (o : obs) : bool :=
  match o with
  | OErr status shape entered usable _ =>
      (400 <=? status) && (status <? 500) && (shape || negb want_shape) && negb entered && usable
  | _ => false
  end.

Definition obs_status (o : obs) : option N :=
  match o with
  | OErr s _ _ _ _ => Some s
  | OOk _ _ _ _ _ _ => Some 200
  | ONone => None
  end.

(* a clean refusal (used by the known-finding classes) *)
Definition refused_cleanly (o : obs) : bool := spec_refused true o.

(* verdict for a case whose model result is [m] (the extraction) *)
Definition verdict_valid (spec : bool) (model_agrees : bool) : N :=
  if spec then (if model_agrees then V_AGREE else V_DIVERGE) else V_VIOLATION.

Definition obs_class (o : obs) : N :=
  match o with OErr _ _ _ _ c => c | _ => 98 end.

(* the harness could not tell the error site from the message (no property
   speaks of wording: a reworded message must not break the check) *)
Definition CLASS_UNKNOWN : N := 255.

(* agreement: the status is the model's, and the error site (which extractor,
   which check) is the model's WHEN the harness recognised one; a recognised
   site that differs is a divergence *)
Definition verdict_malformed {A} (o : obs) (m : res xerr A) : N :=
  match m with
  | Ok _ => V_MALFORMED          (* the generator produced a decodable input *)
  | Err e =>
      if spec_refused true o then
        (if option_eqb N.eqb (obs_status o) (xerr_status e) &&
            ((obs_class o =? CLASS_UNKNOWN) || (obs_class o =? xerr_class e))
         then V_AGREE else V_DIVERGE)
      else V_VIOLATION
  end.

(* ---------- the judge ---------- *)

Definition is_unsupported128 (e : xerr) : bool :=
  match e with
  | XBadQuery MUnsupported128 | XForm MUnsupported128 => true
  | _ => false
  end.

Definition oracle_fn (o : option named) : str -> option named := fun _ => o.

Definition echoed (o : obs) : list named :=
  match o with OOk _ ss _ _ _ _ => ss | _ => [] end.

Definition judge (c : ccase) : N :=
  match c with
  | CPath sp ws intended rq o =>
      let m := extract_path sp ws in
      match intended with
      | Some v =>
          verdict_valid (spec_delivered o rq [with_names sp v] None None)
            (match m with Ok v' => list_eqb named_eqb (echoed o) [with_names sp v'] | Err _ => false end)
      | None => verdict_malformed o m
      end
  | CQuery sp q intended rq o =>
      let m := extract_query sp q in
      match intended with
      | Some v =>
          let spec := spec_delivered o rq [with_names sp v] None None in
          match m with
          | Err e =>
              if negb spec && is_unsupported128 e && refused_cleanly o then V_K128
              else verdict_valid spec false
          | Ok v' => verdict_valid spec (list_eqb named_eqb (echoed o) [with_names sp v'])
          end
      | None => verdict_malformed o m
      end
  | CForm sp ct cap frames intended rq o =>
      let m := extract_typed_body (oracle_fn None) CtForm sp ct cap frames in
      match intended with
      | Some v =>
          let spec := spec_delivered o rq [with_names sp v] None None in
          match m with
          | Err e =>
              if negb spec && is_unsupported128 e && refused_cleanly o then V_K128
              else verdict_valid spec false
          | Ok (TForm v') => verdict_valid spec (list_eqb named_eqb (echoed o) [with_names sp v'])
          | Ok (TJson _) => V_MALFORMED
          end
      | None => verdict_malformed o m
      end
  | CJson ct cap frames oracle intended rq o =>
      let m := extract_typed_body (oracle_fn oracle) CtJson [] ct cap frames in
      match intended with
      | Some v =>
          verdict_valid (spec_delivered o rq [v] None None)
            (match m with Ok (TJson v') => list_eqb named_eqb (echoed o) [v'] | _ => false end)
      | None => verdict_malformed o m
      end
  | CJsonB buf128 ct cap frames oracle intended rq o =>
      let m := extract_typed_body (oracle_fn oracle) CtJson [] ct cap frames in
      match intended with
      | Some v =>
          let spec := spec_delivered o rq [v] None None in
          if negb spec && buf128 && refused_cleanly o && negb (is_ok m) then V_K128B
          else verdict_valid spec
                 (match m with Ok (TJson v') => list_eqb named_eqb (echoed o) [v'] | _ => false end)
      | None => verdict_malformed o m
      end
  | CRaw streaming ct cap frames rq o =>
      let spec := spec_delivered o rq [] (Some (concat frames)) None in
      let model :=
        if streaming then
          match stream_yield cap 0 frames with
          | (ys, true) => Some (concat ys)
          | (_, false) => None
          end
        else match extract_untyped_body cap frames with Ok b => Some b | Err _ => None end in
      verdict_valid spec
        (match o, model with
         | OOk _ _ (Some r) _ _ _, Some b => str_eqb r b
         | _, _ => false
         end)
  | CMultipart ct cap frames intended rq o =>
      let m := extract_multipart ct in
      match intended with
      | Some (b, parts) =>
          let spec := spec_delivered o rq [] None (Some parts) in
          match m with
          | Ok b' =>
              (* relative to multer's contract: with the right boundary the
                 parts come out; so the model agrees iff it found the boundary *)
              verdict_valid spec (str_eqb b b')
          | Err _ => verdict_valid spec false
          end
      | None => verdict_malformed o m
      end
  | CAll psp ws qsp q ct cap frames oracle intended rq o =>
      let m := extract3 (extract_path psp ws) (extract_query qsp q)
                        (extract_typed_body (oracle_fn oracle) CtJson [] ct cap frames) in
      match intended with
      | Some (pv, qv, bv) =>
          verdict_valid
            (spec_delivered o rq [with_names psp pv; with_names qsp qv; bv] None None)
            (match m with
             | Ok (pv', qv', TJson bv') =>
                 list_eqb named_eqb (echoed o) [with_names psp pv'; with_names qsp qv'; bv']
             | _ => false
             end)
      | None => verdict_malformed o m
      end
  | CMulti path query body rq o =>
      let mp := match path with Some (sp, ws) => do _ <- extract_path sp ws; Ok tt | None => Ok tt end in
      let mq := match query with Some (sp, q) => do _ <- extract_query sp q; Ok tt | None => Ok tt end in
      let mb :=
        match body with
        | MBNone => Ok tt
        | MBJson ct cap frames oracle =>
            do _ <- extract_typed_body (oracle_fn oracle) CtJson [] ct cap frames; Ok tt
        | MBForm sp ct cap frames =>
            do _ <- extract_typed_body (oracle_fn None) CtForm sp ct cap frames; Ok tt
        | MBRaw cap frames => do _ <- extract_untyped_body cap frames; Ok tt
        | MBMultipart ct => do _ <- extract_multipart ct; Ok tt
        end in
      verdict_malformed o (extract3 mp mq mb)
  | CFloat double src intended rq o =>
      let m := match src with
               | FPath r => extract_path_float double r
               | FQuery q => extract_query_float double [118] q
               end in
      let as_named (b : N) : named := [([118], FvOne (VInt (Z.of_N b)))] in
      match intended with
      | Some b =>
          verdict_valid (spec_delivered o rq [as_named b] None None)
            (match m with Ok b' => list_eqb named_eqb (echoed o) [as_named b'] | Err _ => false end)
      | None => verdict_malformed o m
      end
  | CLargeOk sent rq o =>
      match o with
      | LOk entered usable got ri =>
          if entered && usable && list_eqb dig_eqb sent got && ri_ok ri rq then V_AGREE else V_VIOLATION
      | _ => V_VIOLATION
      end
  | CNoModel want_shape rq o =>
      if spec_refused want_shape o then V_AGREE else V_VIOLATION
  end.

(* which stream a case belongs to *)
Definition is_valid_stream (c : ccase) : bool :=
  match c with
  | CPath _ _ (Some _) _ _ | CQuery _ _ (Some _) _ _ | CForm _ _ _ _ (Some _) _ _
  | CJson _ _ _ _ (Some _) _ _ | CJsonB _ _ _ _ _ (Some _) _ _ | CRaw _ _ _ _ _ _ | CMultipart _ _ _ (Some _) _ _
  | CAll _ _ _ _ _ _ _ _ (Some _) _ _ | CLargeOk _ _ _ | CFloat _ _ (Some _) _ _ => true
  | _ => false
  end.

(* C09 judges the valid streams only *)
Definition judge09 (c : ccase) : N := if is_valid_stream c then judge c else V_MALFORMED.
