(* Run_C07.v — evaluates the C07 specification and model on cases produced by
   harness/src/bin/c07.  A case is what the DOCUMENT says about one operation
   (parameters, request body, responses, the components it refers to), one
   request built from that alone, and what the live server answered.

   Verdict codes: 0 agree, 1 violation (the property is false of what the
   server did), 2 divergence (the model of Params.v / DocTruth.v disagrees
   with the document or the server although the property holds), 9 malformed
   (the harness built a request that is not valid for the document),
   171 known-finding class K7a (a parameter that belongs to a flattened struct
   and is of integer or bool type: documented like any other, refused whatever
   its value). *)
From Coq Require Import String.
From DS Require Import Base Json Schema J2Oas SchemaSem Utf8 Pct Scalars Query.
From DS Require Import Params DocTruth.
From DS Require J2OasSpec Extract Response.
From DSR Require Run_C08.
Open Scope N_scope.

Definition V_AGREE : N := 0.
Definition V_VIOLATION : N := 1.
Definition V_DIVERGE : N := 2.
Definition V_MALFORMED : N := 9.
Definition V_K7A : N := 171.

(* ------------------------------------------------------------ the document *)

Inductive rkey :=
| RCode (n : N)        (* "200" *)
| RRange (d : N)       (* "4XX" *)
| RDefault.            (* default *)

Record dresp := mkDResp {
  dr_key : rkey;
  dr_description : str;
  dr_content : list (str * option oschema);   (* media type -> schema *)
  dr_headers : list (str * bool)              (* name, required *)
}.

Record docop := mkDocOp {
  do_params : list dparam;
  do_body : option (bool * list (str * option oschema));   (* required, content *)
  do_responses : list dresp      (* references into components.responses resolved *)
}.

(* ------------------------------------------------------------ the request *)

Record sent := mkSent {
  se_name : str;
  se_loc : ploc;
  se_value : json;     (* generated from the parameter's documented schema *)
  se_wire : str        (* as written into the path / query (before percent-encoding) *)
}.

Inductive reqbody :=
| RbNone
| RbVal (ct : str) (j : json)     (* JSON or url-encoded: a value of the documented schema *)
| RbBytes (ct : str).             (* octet-stream / multipart: {type: string, format: binary} *)

Record docreq := mkReq {
  rq_sent : list sent;
  rq_omitted : option str;        (* the required query parameter left out, if any *)
  rq_illtyped : option str;       (* the parameter given a text that is NOT valid for its
                                     documented schema, if any *)
  rq_body : reqbody
}.

(* ------------------------------------------------------------ the answer *)

Inductive obody :=
| ObEmpty
| ObJson (j : json)
| ObBytes (len : N)
| ObBadJson.

Record c07obs := mkObs {
  ob_status : N;
  ob_ctype : option str;
  ob_body : obody;
  ob_entered : N;             (* how often the handler was entered by this request *)
  ob_headers : list str       (* response header names, lower case *)
}.

(* what a schema2struct case observed in the document *)
Inductive s2sobs :=
| SoParams (ps : list (str * bool * option str))   (* name, required, description *)
| SoPanic.

Inductive c07case :=
(* one request to one operation *)
| CReq (pp pq : option pspec) (op : docop) (comps : list (str * oschema))
       (req : docreq) (obs : c07obs)
(* one operation of the document against the model: the parameter structs'
   specifications and titles, the response type (None: hand-rolled
   Response<Body>), the declared response header names, whether the error
   type is dropshot's HttpError, the body extractor, and - when the response
   body type is Option<T> for a referenceable T - T's reference *)
| CDoc (pp pq : option pspec) (tp tq : str) (rk : option (ckind * bkind))
       (hdrs : list str) (http_error : bool) (bx : option body_extractor)
       (optref : option str)
       (op : docop) (comps : list (str * oschema))
(* schema2struct alone: an arbitrary schema as Query<T>'s schema *)
| CS2S (defs : list (str * schema)) (s : schema) (obs : s2sobs).

(* ------------------------------------------------------------ helpers *)

Definition bool_eqb := Bool.eqb.
Definition optstr_eqb := option_eqb str_eqb.

Definition FUEL : nat := 12.
Definition envO (comps : list (str * oschema)) := J2OasSpec.env_oas pat_doc fmt_doc FUEL comps.
Definition valid (comps : list (str * oschema)) (o : oschema) (j : json) : bool :=
  valid_oas (envO comps) pat_doc fmt_doc o j.

Definition S_APPLICATION_JSON : str := bs "application/json".
Definition S_FORM : str := bs "application/x-www-form-urlencoded".

(* the media type of a Content-Type value: up to ';', blanks trimmed, lower case *)
Definition media_type (ct : str) : str := Extract.mime_type_of ct.

Definition key_code (k : rkey) (st : N) : bool := match k with RCode n => n =? st | _ => false end.
Definition key_range (k : rkey) (st : N) : bool := match k with RRange d => st / 100 =? d | _ => false end.
Definition key_default (k : rkey) : bool := match k with RDefault => true | _ => false end.

(* OpenAPI 3.0 Responses Object: an explicit code takes precedence over a
   range, a range over default *)
Definition find_resp (rs : list dresp) (st : N) : option dresp :=
  match find (fun r => key_code (dr_key r) st) rs with
  | Some r => Some r
  | None =>
      match find (fun r => key_range (dr_key r) st) rs with
      | Some r => Some r
      | None => find (fun r => key_default (dr_key r)) rs
      end
  end.

Definition content_lookup (content : list (str * option oschema)) (mt : str)
  : option (option oschema) :=
  match Json.lookup mt content with
  | Some e => Some e
  | None => Json.lookup STAR_STAR content
  end.

(* the response fits the documented entry: a content type the entry lists and
   a body valid against the schema under it; no content listed: no body *)
Definition content_ok (comps : list (str * oschema)) (r : dresp) (o : c07obs) : bool :=
  match dr_content r with
  | [] => match ob_body o, ob_ctype o with ObEmpty, None => true | _, _ => false end
  | content =>
      match ob_ctype o with
      | None => false
      | Some ct =>
          let mt := media_type ct in
          match content_lookup content mt with
          | None => false
          | Some sch =>
              if str_eqb mt S_APPLICATION_JSON then
                match ob_body o, sch with
                | ObJson j, Some s => valid comps s j
                | ObJson _, None => true
                | _, _ => false
                end
              else
                match ob_body o with ObBadJson => false | _ => true end
          end
      end
  end.

Definition response_ok (comps : list (str * oschema)) (op : docop) (o : c07obs) : bool :=
  match find_resp (do_responses op) (ob_status o) with
  | None => false
  | Some r => content_ok comps r o
  end.

(* declared response headers are sent (model: C12) *)
Definition headers_ok (op : docop) (o : c07obs) : bool :=
  match find_resp (do_responses op) (ob_status o) with
  | None => true
  | Some r => forallb (fun h => negb (snd h) || mem_str (str_lower (fst h)) (ob_headers o))
                      (dr_headers r)
  end.

Definition find_param (ps : list dparam) (n : str) (l : ploc) : option dparam :=
  find (fun p => str_eqb (dp_name p) n && ploc_eqb (dp_loc p) l) ps.

Definition is_sent (req : docreq) (p : dparam) : bool :=
  existsb (fun s => str_eqb (se_name s) (dp_name p) && ploc_eqb (se_loc s) (dp_loc p)) (rq_sent req).

(* a sent parameter is a documented one and carries a value valid for its
   documented schema, written as a client writes primitives *)
Definition sent_ok (comps : list (str * oschema)) (ps : list dparam) (ill : option str) (s : sent) : bool :=
  match find_param ps (se_name s) (se_loc s) with
  | None => false
  | Some p =>
      negb (is_null (se_value s))
      (* the ill-typed one is a string that its documented schema refuses *)
      && (if option_eqb str_eqb ill (Some (se_name s))
          then negb (valid comps (dp_schema p) (se_value s))
               && match se_value s with JStr _ => true | _ => false end
          else valid comps (dp_schema p) (se_value s))
      && match wire_of_json (se_value s) with
         | Some w => str_eqb w (se_wire s)
         | None => false
         end
      && utf8_valid (se_wire s)
      && match se_loc s with
         | LPath => negb (is_nil (se_wire s)) && negb (str_eqb (se_wire s) Extract.DOT)
                    && negb (str_eqb (se_wire s) Extract.DOTDOT)
         | LQuery => true
         end
  end.

Definition body_wf (comps : list (str * oschema)) (op : docop) (b : reqbody) : bool :=
  match do_body op, b with
  | None, RbNone => true
  | Some (_, content), RbVal ct j =>
      match Json.lookup ct content with
      | Some (Some s) => valid comps s j
      | _ => false
      end
  | Some (_, content), RbBytes ct => Json.has_key ct content
  | _, _ => false
  end.

Definition loc_names (l : ploc) (ss : list sent) : list str :=
  map se_name (filter (fun s => ploc_eqb (se_loc s) l) ss).

Definition req_wf (comps : list (str * oschema)) (op : docop) (req : docreq) : bool :=
  forallb (sent_ok comps (do_params op) (rq_illtyped req)) (rq_sent req)
  (* an ill-typed value only in a request that otherwise has everything *)
  && match rq_illtyped req, rq_omitted req with
     | Some n, None => existsb (fun s => str_eqb (se_name s) n) (rq_sent req)
     | Some _, Some _ => false
     | None, _ => true
     end
  && Extract.names_distinct (loc_names LPath (rq_sent req))
  && Extract.names_distinct (loc_names LQuery (rq_sent req))
  (* every path parameter is filled in *)
  && forallb (fun p => match dp_loc p with LPath => is_sent req p | LQuery => true end) (do_params op)
  && body_wf comps op (rq_body req)
  (* the omitted parameter is a required query parameter that is not sent, and
     the only one *)
  && match rq_omitted req with
     | None => forallb (fun p => negb (dp_required p) || is_sent req p) (do_params op)
     | Some n =>
         match find_param (do_params op) n LQuery with
         | Some p => dp_required p && negb (is_sent req p)
         | None => false
         end
     end.

Definition all_required_sent (op : docop) (req : docreq) : bool :=
  forallb (fun p => negb (dp_required p) || is_sent req p) (do_params op).

(* ------------------------------------------------------------ the model on a request *)

Definition entries_of (l : ploc) (ss : list sent) : list (str * str) :=
  map (fun s => (se_name s, se_wire s)) (filter (fun s => ploc_eqb (se_loc s) l) ss).

Definition model_query (pq : option pspec) (ss : list sent) : res Extract.xerr (list Extract.fval) :=
  match pq with
  | None => Ok []
  | Some fs => extract_query_p fs (Some (form_encode (entries_of LQuery ss)))
  end.

Definition model_path (pp : option pspec) (ss : list sent) : res Extract.xerr (list Extract.fval) :=
  match pp with
  | None => Ok []
  | Some fs =>
      extract_path_p fs (map (fun kv => (fst kv, Extract.WOne (pct_encode (snd kv))))
                             (entries_of LPath ss))
  end.

Definition model_accepts (pp pq : option pspec) (ss : list sent) : bool :=
  is_ok (model_path pp ss) && is_ok (model_query pq ss).

(* a specification is given exactly for the locations that have parameters *)
Definition specs_match (pp pq : option pspec) (op : docop) : bool :=
  bool_eqb (match pp with Some _ => true | None => false end)
           (existsb (fun p => ploc_eqb (dp_loc p) LPath) (do_params op))
  && bool_eqb (match pq with Some _ => true | None => false end)
              (existsb (fun p => ploc_eqb (dp_loc p) LQuery) (do_params op)).

Definition spec_flat_bad (o : option pspec) : list str :=
  match o with Some fs => flat_bad fs | None => [] end.

(* K7: the request carries a parameter that sits in a flattened struct and is
   of integer or bool type *)
Definition k7_class (pp pq : option pspec) (req : docreq) : bool :=
  existsb (fun s => match se_loc s with
                    | LPath => mem_str (se_name s) (spec_flat_bad pp)
                    | LQuery => mem_str (se_name s) (spec_flat_bad pq)
                    end) (rq_sent req).

Definition is_4xx (st : N) : bool := (400 <=? st) && (st <? 500).

Definition judge_req (pp pq : option pspec) (op : docop)
           (comps : list (str * oschema)) (req : docreq) (o : c07obs) : N :=
  if negb (req_wf comps op req && specs_match pp pq op) then V_MALFORMED else
  let accepted := ob_entered o =? 1 in
  let refused := (ob_entered o =? 0) && is_4xx (ob_status o) in
  let resp := response_ok comps op o in
  let model_acc := model_accepts pp pq (rq_sent req) in
  match rq_illtyped req with
  | Some _ =>
      (* not a request the document describes: nothing is promised about its
         acceptance, but clause 3 holds of whatever error the framework
         answers with (and clause 2 if it is accepted after all); the model
         refuses it with a 400 before the handler *)
      if resp then (if refused && negb model_acc then V_AGREE else V_DIVERGE)
      else V_VIOLATION
  | None =>
  if all_required_sent op req then
    (* clause 1a: a request with every required parameter and a valid body is accepted;
       clauses 2 and 3: whatever comes back is what the document lists *)
    if accepted && resp then
      (if model_acc && headers_ok op o then V_AGREE else V_DIVERGE)
    else if k7_class pp pq req && refused && resp && negb model_acc then V_K7A
    else V_VIOLATION
  else
    (* clause 1b: a required parameter is missing: 4xx, handler not entered;
       clause 3: the error body is the documented one *)
    if refused && resp then (if model_acc then V_DIVERGE else V_AGREE)
    else V_VIOLATION
  end.

(* ------------------------------------------------------------ the document against the model *)

Definition dparam_eqb (a b : dparam) : bool :=
  str_eqb (dp_name a) (dp_name b) && ploc_eqb (dp_loc a) (dp_loc b)
  && bool_eqb (dp_required a) (dp_required b)
  && optstr_eqb (dp_description a) (dp_description b)
  && Run_C08.oschema_eqb (dp_schema a) (dp_schema b).

Definition model_params (l : ploc) (title : str) (o : option pspec) : res doc_err (list dparam) :=
  match o with
  | None => Ok []
  | Some fs => doc_params l title fs
  end.

Definition model_comps_ok (o : option pspec) (comps : list (str * oschema)) : bool :=
  match o with
  | None => true
  | Some fs =>
      forallb (fun d => match snd d, Json.lookup (fst d) comps with
                        | Ok m, Some c => Run_C08.oschema_eqb m c
                        | _, _ => false
                        end) (doc_components fs)
  end.

Definition any_oschema : oschema := OItem sdata_default KAny.

Definition content_shape_ok (d : doc_content) (content : list (str * option oschema)) : bool :=
  match d, content with
  | DcNone, [] => true
  | DcJson, [(mt, Some _)] => str_eqb mt S_APPLICATION_JSON
  | DcAny, [(mt, Some s)] => str_eqb mt STAR_STAR && Run_C08.oschema_eqb s any_oschema
  | _, _ => false
  end.

Definition ERROR_REF : str := ref_name S_ERROR.

Definition error_entry_ok (r : option dresp) : bool :=
  match r with
  | Some r =>
      match dr_content r with
      | [(mt, Some (ORef n))] => str_eqb mt S_APPLICATION_JSON && str_eqb n ERROR_REF
      | _ => false
      end
  | None => false
  end.

Definition judge_doc (pp pq : option pspec) (tp tq : str) (rk : option (ckind * bkind))
           (hdrs : list str) (http_error : bool) (bx : option body_extractor)
           (optref : option str) (op : docop) (comps : list (str * oschema)) : N :=
  let params_ok :=
    match model_params LPath tp pp, model_params LQuery tq pq with
    | Ok a, Ok b => list_eqb dparam_eqb (a ++ b) (do_params op)
    | _, _ => false
    end in
  let comps_ok := model_comps_ok pp comps && model_comps_ok pq comps in
  let resp_ok :=
    match rk with
    | Some (c, b) =>
        body_kind_ok c b &&
        let d := doc_response c b in
        match find (fun r => key_code (dr_key r) (rd_code d)) (do_responses op) with
        | Some r =>
            str_eqb (dr_description r) (rd_description d)
            && content_shape_ok (rd_content d) (dr_content r)
            && list_eqb str_eqb (map fst (dr_headers r)) hdrs
            (* Option<T>, T referenceable: the nullable marker is published *)
            && match optref, dr_content r with
               | None, _ => true
               | Some n, [(_, Some s)] =>
                   match j2oas None (option_ref_schema n) with
                   | Ok m => Run_C08.oschema_eqb m s
                   | Err _ => false
                   end
               | Some _, _ => false
               end
        | None => false
        end
        (* exactly one response besides the error ranges *)
        && (length (filter (fun r => match dr_key r with RRange _ => false | _ => true end)
                           (do_responses op)) =? 1)%nat
    | None =>
        match do_responses op with
        | [r] => key_default (dr_key r) && is_nil (dr_description r)
                 && content_shape_ok DcAny (dr_content r)
        | _ => false
        end
    end in
  let err_ok :=
    match rk with
    | None => true     (* a hand-rolled response documents no error responses *)
    | Some _ =>
        let r4 := find (fun r => match dr_key r with RRange 4 => true | _ => false end) (do_responses op) in
        let r5 := find (fun r => match dr_key r with RRange 5 => true | _ => false end) (do_responses op) in
        if http_error then
          error_entry_ok r4 && error_entry_ok r5
          && match error_oschema, Json.lookup ERROR_REF comps with
             | Ok m, Some c => Run_C08.oschema_eqb m c
             | _, _ => false
             end
        else
          match r4, r5 with Some _, Some _ => true | _, _ => false end
    end in
  let body_ok :=
    match bx, do_body op with
    | None, None => true
    | Some b, Some (required, content) =>
        bool_eqb required (doc_body_required b)
        && match content with
           | [(mt, Some _)] => str_eqb mt (doc_body_ctype b)
           | _ => false
           end
    | _, _ => false
    end in
  if params_ok && comps_ok && resp_ok && err_ok && body_ok then V_AGREE else V_DIVERGE.

(* ------------------------------------------------------------ schema2struct alone *)

Definition s2s_triple_eqb (a b : str * bool * option str) : bool :=
  str_eqb (fst (fst a)) (fst (fst b)) && bool_eqb (snd (fst a)) (snd (fst b))
  && optstr_eqb (snd a) (snd b).

Definition judge_s2s (defs : list (str * schema)) (s : schema) (o : s2sobs) : N :=
  match schema2struct S2S_FUEL defs s true, o with
  | Err S2Fuel, _ => V_MALFORMED
  | Err _, SoPanic => V_AGREE
  | Ok ms, SoParams ps =>
      (* a member whose schema the converter cannot publish makes the document
         generator panic; those cases observe SoPanic *)
      match members_to_params LQuery ms with
      | Ok _ =>
          if list_eqb s2s_triple_eqb
                      (map (fun m => (sm_name m, sm_required m, sm_description m)) ms) ps
          then V_AGREE else V_DIVERGE
      | Err _ => V_DIVERGE
      end
  | Ok ms, SoPanic =>
      match members_to_params LQuery ms with
      | Ok _ => V_DIVERGE
      | Err _ => V_AGREE
      end
  | Err _, SoParams _ => V_DIVERGE
  end.

Definition judge (c : c07case) : N :=
  match c with
  | CReq pp pq op comps req o => judge_req pp pq op comps req o
  | CDoc pp pq tp tq rk hdrs he bx optref op comps => judge_doc pp pq tp tq rk hdrs he bx optref op comps
  | CS2S defs s o => judge_s2s defs s o
  end.

(* ---------- tools/c07_xcheck.py: the verdicts of valid_oas on every
   (documented schema, instance) pair of a request case, formats ignored as
   the independent validator ignores them ---------- *)
Definition fmt_true (f : str) (j : json) : bool := true.
Definition xvalid (comps : list (str * oschema)) (o : oschema) (j : json) : N :=
  if valid_oas (J2OasSpec.env_oas pat_doc fmt_true FUEL comps) pat_doc fmt_true o j then 1 else 0.
Definition xvec (c : c07case) : list N :=
  match c with
  | CReq _ _ op comps req o =>
      map (fun s => match find_param (do_params op) (se_name s) (se_loc s) with
                    | Some p => xvalid comps (dp_schema p) (se_value s)
                    | None => 9
                    end) (rq_sent req)
      ++ match do_body op, rq_body req with
         | Some (_, content), RbVal ct j =>
             match Json.lookup ct content with
             | Some (Some s) => [xvalid comps s j]
             | _ => [9]
             end
         | _, _ => []
         end
      ++ match find_resp (do_responses op) (ob_status o), ob_body o, ob_ctype o with
         | Some r, ObJson j, Some ct =>
             match content_lookup (dr_content r) (media_type ct) with
             | Some (Some s) => [xvalid comps s j]
             | _ => []
             end
         | _, _, _ => []
         end
  | _ => []
  end.
