(* DocTruthProofs.v — proofs about DocTruth.v (C07). *)
From Coq Require Import String.
From DS Require Import Base Json Schema J2Oas SchemaSem Response ResponseProofs Errors ErrorsProofs DocTruth.
From DS Require Extract ExtractProofs.
Open Scope N_scope.

(* ------------------------------------------------------------ responses *)

Section Resp.
  Variable V : Type.
  Variable json_ser : V -> option str.

  (* C07 theorem 4: for every response type, what to_result produces carries
     the status under which the document lists the response, a content type
     the document lists there, and no body exactly when no content is listed *)
  Theorem success_status_documented (c : coded V) r :
    to_result_coded V json_ser c = Ok r ->
    let d := doc_response (ckind_of c) (bkind_of c) in
    body_kind_ok (ckind_of c) (bkind_of c) = true /\
    r_status r = rd_code d /\
    content_fits (rd_content d) r = true.
  Proof.
    destruct c as [p|p|p| | | | |]; try destruct p as [v|b];
      unfold to_result_coded, payload_to_response, json_to_response, freeform_to_response, empty_to_response;
      try (destruct (json_ser v) as [s|]; [|discriminate]);
      intros [= <-]; repeat split.
  Qed.

  Theorem empty_iff_no_content (c : coded V) r :
    to_result_coded V json_ser c = Ok r ->
    (rd_content (doc_response (ckind_of c) (bkind_of c)) = DcNone <-> r_body r = BEmpty).
  Proof.
    destruct c as [p|p|p| | | | |]; try destruct p as [v|b];
      unfold to_result_coded, payload_to_response, json_to_response, freeform_to_response, empty_to_response;
      try (destruct (json_ser v) as [s|]; [|discriminate]);
      intros [= <-]; cbn; split; try reflexivity; try discriminate.
  Qed.

  (* HttpResponseHeaders<T, H> documents T's status and T's content *)
  Theorem headers_status_documented (h : hresp V) r :
    to_result_headers V json_ser h = Ok r ->
    let d := doc_response (ckind_of (hr_body h)) (bkind_of (hr_body h)) in
    r_status r = rd_code d /\ (rd_content d = DcNone <-> r_body r = BEmpty).
  Proof.
    intros H. destruct (headers_keep_status_and_body V json_ser h r H) as (r0 & H0 & Hs & Hb).
    destruct (success_status_documented _ _ H0) as (_ & Hs0 & _).
    pose proof (empty_iff_no_content _ _ H0) as He.
    cbn zeta. rewrite Hs, Hb. split; [|exact He].
    rewrite <- Hs0. destruct (hr_body h) as [p|p|p| | | | |]; try destruct p as [v|b];
      unfold to_result_coded, payload_to_response, json_to_response, freeform_to_response, empty_to_response in H0;
      try (destruct (json_ser v) as [s|]; [|discriminate]);
      injection H0 as <-; reflexivity.
  Qed.
End Resp.

(* ------------------------------------------------------------ error bodies *)

Definition error_oschema_term : oschema :=
  OItem (mkSData false false false false None None (Some S_ERROR_DESCRIPTION) None [])
        (KType (OTObject (mkOObject
           [(S_ERROR_CODE, OItem sdata_default (KType (OTString (mkOString VEmpty None [] None None))));
            (S_MESSAGE, OItem sdata_default (KType (OTString (mkOString VEmpty None [] None None))));
            (S_REQUEST_ID, OItem sdata_default (KType (OTString (mkOString VEmpty None [] None None))))]
           [S_MESSAGE; S_REQUEST_ID] None None None))).

Lemma error_oschema_eq : error_oschema = Ok error_oschema_term.
Proof. vm_compute. reflexivity. Qed.

(* C07 theorem 5: the body of every error response the framework generates
   (HttpError::into_response) is valid against the documented error schema:
   request_id and message are strings and present; error_code is a string or
   absent (skip_serializing_if) - never null, which the schema (a plain,
   non-nullable string, not required) would refuse *)
Theorem framework_error_body_valid env pat_ok fmt_ok id code msg :
  valid_oas env pat_ok fmt_ok error_oschema_term (err_body_json id code msg) = true /\
  valid_js env pat_ok fmt_ok error_schema (err_body_json id code msg) = true.
Proof. destruct code as [c|]; split; vm_compute; reflexivity. Qed.

Theorem into_response_body_valid env pat_ok fmt_ok e id r :
  into_response e id = Ok r ->
  exists j, body_json (r_body r) = Some j /\
            valid_oas env pat_ok fmt_ok error_oschema_term j = true /\
            error_documented (r_status r) = (is_client_error (e_status e) || is_server_error (e_status e)).
Proof.
  intros H. destruct (response_contract e id r H) as (Hs & Hb & _).
  rewrite Hb, Hs. cbn [body_json]. eexists. split; [reflexivity|]. split.
  - apply framework_error_body_valid.
  - unfold error_documented, is_client_error, is_server_error. lia.
Qed.

(* a null error_code would NOT be valid: the hand-written schema is what makes
   skip_serializing_if necessary *)
Example null_error_code_invalid env pat_ok fmt_ok :
  valid_oas env pat_ok fmt_ok error_oschema_term
    (JObj [(S_REQUEST_ID, JStr []); (S_ERROR_CODE, JNull); (S_MESSAGE, JStr [])]) = false.
Proof. vm_compute. reflexivity. Qed.

(* ------------------------------------------------------------ Option<T> at a site *)

Definition option_ref_oschema (r : str) : oschema :=
  OItem (mkSData true false false false None None None None []) (KAllOf [ORef r]).

(* the nullable marker beside the reference is kept (finding K7b, repaired by
   16fe29f: before, the bare reference was published) *)
Theorem option_ref_published name r : j2oas name (option_ref_schema r) = Ok (option_ref_oschema r).
Proof. reflexivity. Qed.

(* the body of None, null, is valid for the published schema; any other body
   is valid exactly when it is valid for the referenced component *)
Theorem option_ref_accepts env pat_ok fmt_ok name r o :
  j2oas name (option_ref_schema r) = Ok o ->
  valid_oas env pat_ok fmt_ok o JNull = true /\
  forall j, is_null j = false -> valid_oas env pat_ok fmt_ok o j = env r j.
Proof.
  rewrite option_ref_published. intros [= <-]. split; [reflexivity|].
  intros j Hn. cbn [valid_oas option_ref_oschema sd_nullable valid_okind forallb].
  rewrite Hn, andb_true_r. reflexivity.
Qed.

(* ------------------------------------------------------------ request bodies *)

Import Extract.

(* a request that carries the documented content type passes the content-type
   check of a typed body: what can still fail is the size cap and the parse *)
Theorem doc_body_ctype_accepted (V : Type) (json_de : str -> option V) c sp cap frames e :
  c = CtJson \/ c = CtForm ->
  extract_typed_body json_de c sp (HVal (doc_body_ctype (BxTyped c))) cap frames = Err e ->
  e = XBodyTooLarge \/ e = XJson \/ exists m, e = XForm m.
Proof.
  intros Hc. unfold extract_typed_body.
  destruct (buffer_body cap frames) as [body|eb] eqn:Hb; cbn [bind].
  - destruct Hc as [-> | ->]; cbn [doc_body_ctype mime_of].
    + change (content_type_str (HVal CT_JSON)) with (@Ok xerr _ CT_JSON). cbn [bind].
      change (from_mime_type (mime_type_of CT_JSON)) with (Some CtJson).
      destruct (json_de body); [discriminate|]. intros [= <-]. auto.
    + change (content_type_str (HVal CT_FORM)) with (@Ok xerr _ CT_FORM). cbn [bind].
      change (from_mime_type (mime_type_of CT_FORM)) with (Some CtForm).
      destruct (urlenc_struct sp (Query.form_parse body)); [discriminate|]. intros [= <-]. eauto.
  - intros [= <-]. left.
    rewrite ExtractProofs.buffer_body_spec in Hb.
    destruct (ExtractProofs.total frames <=? cap); [discriminate|]. injection Hb as <-. reflexivity.
Qed.

(* the untyped extractors do not look at the content type at all *)
Theorem untyped_body_any_ctype cap frames :
  extract_untyped_body cap frames = buffer_body cap frames.
Proof. reflexivity. Qed.
