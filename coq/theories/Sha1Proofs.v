(* Sha1Proofs.v — structural facts about the SHA-1 model of Sha1.v and the
   published test vectors.

   What is proved (for every message, no bound):
     - [w32] is reduction modulo 2^32; every word operation stays below 2^32;
     - the padded message is a whole number of 64-byte blocks, it starts with
       the message, and nothing of it is dropped on the way to the
       compression function: the blocks handed to [compress] have exactly 16
       words each and their concatenation, re-serialised, is the padded
       message (so the "short window" branch of [expand] is never taken);
     - every word of every intermediate state is below 2^32;
     - the digest has 20 bytes, each below 256.
   What is NOT proved: that this function "is" SHA-1 — there is nothing to
   prove it against except the standard's text, which Sha1.v transcribes.  The
   FIPS 180 / RFC 3174 vectors below are tests of that transcription
   (labelled [Example], evaluated by the kernel). *)
From DS Require Import Base Sha1 Base64Proofs.
Require Import ZifyBool ZifyN.
Ltac Zify.zify_post_hook ::= Z.div_mod_to_equations.

(* ---------- 32-bit words ---------- *)

Lemma mask32_ones : mask32 = N.ones 32.
Proof. reflexivity. Qed.

Lemma w32_mod x : w32 x = x mod 4294967296.
Proof. unfold w32. rewrite mask32_ones, N.land_ones. reflexivity. Qed.

Lemma w32_lt x : w32 x < 4294967296.
Proof. rewrite w32_mod. lia. Qed.

Lemma w32_id x : x < 4294967296 -> w32 x = x.
Proof. intros H. rewrite w32_mod. lia. Qed.

Lemma lt32_iff x : x < 4294967296 <-> w32 x = x.
Proof. split; [apply w32_id|]. intros <-. apply w32_lt. Qed.

Lemma add32_lt a b : add32 a b < 4294967296.
Proof. apply w32_lt. Qed.

Lemma add32_mod a b : add32 a b = (a + b) mod 4294967296.
Proof. apply w32_mod. Qed.

Lemma lor_lt32 a b : a < 4294967296 -> b < 4294967296 -> N.lor a b < 4294967296.
Proof.
  rewrite !lt32_iff. unfold w32. intros Ha Hb.
  rewrite N.land_lor_distr_l, Ha, Hb. reflexivity.
Qed.

Lemma land_lxor_distr_l a b c : N.land (N.lxor a b) c = N.lxor (N.land a c) (N.land b c).
Proof.
  apply N.bits_inj. intros n.
  rewrite N.land_spec, !N.lxor_spec, !N.land_spec.
  destruct (N.testbit a n), (N.testbit b n), (N.testbit c n); reflexivity.
Qed.

Lemma lxor_lt32 a b : a < 4294967296 -> b < 4294967296 -> N.lxor a b < 4294967296.
Proof.
  rewrite !lt32_iff. unfold w32. intros Ha Hb.
  rewrite land_lxor_distr_l, Ha, Hb. reflexivity.
Qed.

Lemma rotl32_lt n x : x < 4294967296 -> rotl32 n x < 4294967296.
Proof.
  intros Hx. unfold rotl32. apply lor_lt32; [apply w32_lt|].
  rewrite N.shiftr_div_pow2.
  assert (0 < 2 ^ (32 - n)) by (apply N.neq_0_lt_0, N.pow_nonzero; discriminate).
  assert (x / 2 ^ (32 - n) <= x) by (apply N.div_le_upper_bound; nia).
  lia.
Qed.

(* rotation by n is multiplication by 2^n with the high bits wrapped round *)
Lemma rotl32_spec n x :
  rotl32 n x = N.lor ((x * 2 ^ n) mod 4294967296) (x / 2 ^ (32 - n)).
Proof.
  unfold rotl32. rewrite w32_mod, N.shiftl_mul_pow2, N.shiftr_div_pow2. reflexivity.
Qed.

(* ---------- padding ---------- *)

Lemma be64_length x : length (be64 x) = 8%nat.
Proof. reflexivity. Qed.

Lemma sha1_pad_length m :
  N.of_nat (length (sha1_pad m)) =
  N.of_nat (length m) + 1 + pad_zeros (N.of_nat (length m)) + 8.
Proof.
  unfold sha1_pad. cbn zeta.
  rewrite app_length. cbn [length]. rewrite app_length, repeat_length, be64_length.
  lia.
Qed.

(* the padded message is a whole number of 64-byte blocks *)
Theorem sha1_pad_blocks m : N.of_nat (length (sha1_pad m)) mod 64 = 0.
Proof. rewrite sha1_pad_length. unfold pad_zeros. lia. Qed.

(* ... the shortest such: fewer than 64 bytes of 0x80-and-zeros are added *)
Lemma pad_zeros_lt len : pad_zeros len < 64.
Proof. unfold pad_zeros. lia. Qed.

(* it starts with the message, then 0x80 *)
Lemma sha1_pad_prefix m : firstn (length m) (sha1_pad m) = m.
Proof.
  unfold sha1_pad. cbn zeta. rewrite firstn_app, firstn_all, Nat.sub_diag.
  cbn [firstn]. apply app_nil_r.
Qed.

Lemma sha1_pad_bytes_ok m : bytes_ok m = true -> bytes_ok (sha1_pad m) = true.
Proof.
  intros Hm. unfold sha1_pad, bytes_ok in *. cbn zeta.
  rewrite forallb_app, Hm. cbn [forallb andb].
  rewrite forallb_app.
  assert (Hz : forall k, forallb byte_ok (repeat 0 k) = true)
    by (induction k as [|k IH]; cbn [repeat forallb]; [reflexivity|rewrite IH; reflexivity]).
  rewrite Hz. unfold be64, byte_ok. cbn [forallb andb].
  repeat match goal with |- context [?a mod 256 <? 256] =>
    replace (a mod 256 <? 256) with true by lia end.
  reflexivity.
Qed.

(* ---------- bytes <-> words ---------- *)

Lemma words_of_bytes_length bs :
  N.of_nat (length (words_of_bytes bs)) = N.of_nat (length bs) / 4.
Proof.
  induction bs as [|a|a b|a b c|a b c d l IH] using list_ind4; try reflexivity.
  cbn [words_of_bytes length]. rewrite !Nat2N.inj_succ. lia.
Qed.

Lemma bytes_of_word_of_bytes a b c d :
  a < 256 -> b < 256 -> c < 256 -> d < 256 ->
  bytes_of_word (a * 16777216 + b * 65536 + c * 256 + d) = [a; b; c; d].
Proof. intros. unfold bytes_of_word. repeat f_equal; lia. Qed.

(* no byte is lost or altered by the conversion when the length is a multiple
   of four *)
Lemma words_of_bytes_lossless bs :
  bytes_ok bs = true -> N.of_nat (length bs) mod 4 = 0 ->
  flat_map bytes_of_word (words_of_bytes bs) = bs.
Proof.
  induction bs as [|a|a b|a b c|a b c d l IH] using list_ind4; intros Hok Hlen;
    try reflexivity; try (cbn [length] in Hlen; exfalso; lia).
  cbn [bytes_ok forallb] in Hok. unfold byte_ok in Hok.
  rewrite !andb_true_iff in Hok. destruct Hok as (Ha & Hb & Hc & Hd & Hl).
  cbn [words_of_bytes flat_map].
  rewrite bytes_of_word_of_bytes by lia.
  cbn [app]. rewrite IH; [reflexivity|exact Hl|].
  cbn [length] in Hlen. rewrite !Nat2N.inj_succ in Hlen. lia.
Qed.

Lemma word_of_bytes_lt a b c d :
  a < 256 -> b < 256 -> c < 256 -> d < 256 ->
  a * 16777216 + b * 65536 + c * 256 + d < 4294967296.
Proof. lia. Qed.

(* ---------- blocks ---------- *)

(* the list of blocks [sha1_blocks] hands to [compress] *)
Fixpoint block_list (n : nat) (ws : list N) : list (list N) :=
  match n with
  | O => []
  | S n' => firstn 16 ws :: block_list n' (skipn 16 ws)
  end.

Lemma sha1_blocks_fold n : forall ws h,
  sha1_blocks n ws h = fold_left compress (block_list n ws) h.
Proof.
  induction n as [|n IH]; intros ws h; [reflexivity|].
  cbn [sha1_blocks block_list fold_left]. apply IH.
Qed.

Lemma block_list_ok n : forall ws, length ws = (16 * n)%nat ->
  Forall (fun b => length b = 16%nat) (block_list n ws) /\ concat (block_list n ws) = ws.
Proof.
  induction n as [|n IH]; intros ws Hlen.
  - destruct ws; [split; [constructor|reflexivity]|discriminate].
  - cbn [block_list concat].
    destruct (IH (skipn 16 ws)) as [Hall Hcat]; [rewrite skipn_length; lia|].
    split.
    + constructor; [rewrite firstn_length; lia|exact Hall].
    + rewrite Hcat. apply firstn_skipn.
Qed.

Lemma div16_exact l k : N.of_nat l = 16 * k -> l = (16 * (l / 16))%nat.
Proof.
  intros H. assert (Hl : l = (N.to_nat k * 16)%nat) by lia.
  subst l. rewrite Nat.div_mul by discriminate. lia.
Qed.

(* Everything [compress] ever sees, for any message: blocks of exactly 16 words,
   which together are the padded message. *)
Theorem sha1_blocks_exact m :
  bytes_ok m = true ->
  let ws := words_of_bytes (sha1_pad m) in
  let bl := block_list (length ws / 16) ws in
  Forall (fun b => length b = 16%nat) bl /\
  flat_map bytes_of_word (concat bl) = sha1_pad m /\
  sha1 m = digest_bytes (fold_left compress bl init_state).
Proof.
  intros Hm ws bl.
  pose proof (sha1_pad_blocks m) as Hp.
  pose proof (words_of_bytes_length (sha1_pad m)) as Hw. fold ws in Hw.
  assert (Hlen : length ws = (16 * (length ws / 16))%nat).
  { apply (div16_exact _ (N.of_nat (length (sha1_pad m)) / 64)). lia. }
  destruct (block_list_ok _ ws Hlen) as [Hall Hcat]. fold bl in Hall, Hcat.
  split; [exact Hall|]. split.
  - rewrite Hcat. apply words_of_bytes_lossless; [apply sha1_pad_bytes_ok; exact Hm|lia].
  - unfold sha1. cbn zeta. fold ws. rewrite sha1_blocks_fold. reflexivity.
Qed.

(* ---------- message schedule ---------- *)

Lemma expand_length n : forall win, length win = 16%nat -> length (expand n win) = n.
Proof.
  induction n as [|n IH]; intros win Hlen; [reflexivity|].
  do 16 (destruct win as [|? win]; [discriminate|]).
  destruct win; [|discriminate].
  cbn [expand length]. f_equal. apply IH. reflexivity.
Qed.

(* the schedule of a 16-word block has 80 words: the window never runs short *)
Theorem schedule_length block : length block = 16%nat -> length (schedule block) = 80%nat.
Proof. apply expand_length. Qed.

Definition word_ok (w : N) : Prop := w < 4294967296.

Lemma expand_words_ok n : forall win, Forall word_ok win -> Forall word_ok (expand n win).
Proof.
  induction n as [|n IH]; intros win Hwin; [constructor|].
  cbn [expand].
  do 16 (destruct win as [|? win]; [constructor|]).
  destruct win; [|constructor].
  repeat match goal with H : Forall word_ok (_ :: _) |- _ => inversion H; subst; clear H end.
  constructor; [assumption|].
  apply IH. repeat (constructor; [assumption|]).
  constructor; [|constructor].
  unfold word_ok in *. apply rotl32_lt. repeat apply lxor_lt32; assumption.
Qed.

(* ---------- state invariant ---------- *)

Definition state_ok (s : state) : Prop :=
  sa s < 4294967296 /\ sb s < 4294967296 /\ sc s < 4294967296 /\
  sd s < 4294967296 /\ se s < 4294967296.

Lemma init_state_ok : state_ok init_state.
Proof. unfold state_ok, init_state; cbn. lia. Qed.

(* every intermediate state of the 80 rounds has all five words below 2^32 *)
Lemma rounds_ok ws : forall t s, state_ok s -> state_ok (rounds t ws s).
Proof.
  induction ws as [|w ws IH]; intros t s Hs; [exact Hs|].
  destruct s as [a b c d e]. cbn [rounds]. apply IH.
  destruct Hs as (Ha & Hb & Hc & Hd & He). cbn [sa sb sc sd se] in *.
  unfold state_ok. cbn [sa sb sc sd se].
  repeat split; try assumption; [apply add32_lt|apply rotl32_lt; assumption].
Qed.

Lemma compress_ok h block : state_ok (compress h block).
Proof. unfold compress, state_ok. cbn [sa sb sc sd se]. repeat split; apply add32_lt. Qed.

Lemma sha1_blocks_ok n : forall ws h, state_ok h -> state_ok (sha1_blocks n ws h).
Proof.
  induction n as [|n IH]; intros ws h Hh; [exact Hh|].
  cbn [sha1_blocks]. apply IH, compress_ok.
Qed.

(* ---------- the digest ---------- *)

Lemma bytes_of_word_length w : length (bytes_of_word w) = 4%nat.
Proof. reflexivity. Qed.

Lemma bytes_of_word_ok w : bytes_ok (bytes_of_word w) = true.
Proof.
  unfold bytes_of_word, bytes_ok, byte_ok. cbn [forallb].
  repeat match goal with |- context [?a mod 256 <? 256] =>
    replace (a mod 256 <? 256) with true by lia end.
  reflexivity.
Qed.

Theorem sha1_length m : length (sha1 m) = 20%nat.
Proof. reflexivity. Qed.

Theorem sha1_bytes_ok m : bytes_ok (sha1 m) = true.
Proof.
  unfold sha1, digest_bytes, bytes_ok. cbn zeta.
  rewrite !forallb_app.
  fold (bytes_ok (bytes_of_word (sa (sha1_blocks (length (words_of_bytes (sha1_pad m)) / 16)
                                             (words_of_bytes (sha1_pad m)) init_state)))).
  repeat rewrite (fun w => bytes_of_word_ok w : forallb byte_ok (bytes_of_word w) = true).
  reflexivity.
Qed.

(* the four bytes of a state word are its big-endian representation: nothing
   of the word is cut off *)
Lemma bytes_of_word_value w : w < 4294967296 ->
  match bytes_of_word w with
  | [a; b; c; d] => a * 16777216 + b * 65536 + c * 256 + d = w
  | _ => False
  end.
Proof. intros H. unfold bytes_of_word. lia. Qed.

Theorem sha1_state_ok m :
  let ws := words_of_bytes (sha1_pad m) in
  state_ok (sha1_blocks (length ws / 16) ws init_state).
Proof. apply sha1_blocks_ok, init_state_ok. Qed.

(* ---------- published test vectors (tests of the transcription) ---------- *)

(* FIPS 180 / RFC 3174 TEST1: "abc" *)
Example sha1_vector_abc :
  hex (sha1 [97; 98; 99]) =
  (* a9993e364706816aba3e25717850c26c9cd0d89d *)
  [97;57;57;57;51;101;51;54;52;55;48;54;56;49;54;97;98;97;51;101;
   50;53;55;49;55;56;53;48;99;50;54;99;57;99;100;48;100;56;57;100].
Proof. vm_compute. reflexivity. Qed.

(* the empty message: da39a3ee5e6b4b0d3255bfef95601890afd80709 *)
Example sha1_vector_empty :
  hex (sha1 []) =
  [100;97;51;57;97;51;101;101;53;101;54;98;52;98;48;100;51;50;53;53;
   98;102;101;102;57;53;54;48;49;56;57;48;97;102;100;56;48;55;48;57].
Proof. vm_compute. reflexivity. Qed.

(* TEST2: "abcdbcdecdefdefgefghfghighijhijkijkljklmklmnlmnomnopnopq" (56 bytes:
   the padding does not fit the first block) *)
Example sha1_vector_two_blocks :
  hex (sha1 [97;98;99;100;98;99;100;101;99;100;101;102;100;101;102;103;101;102;103;104;
             102;103;104;105;103;104;105;106;104;105;106;107;105;106;107;108;106;107;108;109;
             107;108;109;110;108;109;110;111;109;110;111;112;110;111;112;113]) =
  (* 84983e441c3bd26ebaae4aa1f95129e5e54670f1 *)
  [56;52;57;56;51;101;52;52;49;99;51;98;100;50;54;101;98;97;97;101;
   52;97;97;49;102;57;53;49;50;57;101;53;101;53;52;54;55;48;102;49].
Proof. vm_compute. reflexivity. Qed.

(* TEST4: "01234567" repeated 80 times (640 bytes, an exact multiple of the block
   size): dea356a2cddd90c7a7ecedc5ebb563934f460452 *)
Example sha1_vector_640 :
  hex (sha1 (concat (repeat [48;49;50;51;52;53;54;55] 80))) =
  [100;101;97;51;53;54;97;50;99;100;100;100;57;48;99;55;97;55;101;99;
   101;100;99;53;101;98;98;53;54;51;57;51;52;102;52;54;48;52;53;50].
Proof. vm_compute. reflexivity. Qed.

(* TEST3 of RFC 3174 (one million 'a') takes ~45 s under vm_compute and is
   left out of the build; 1000 'a' stands in for "many blocks":
   291e9a6c66994949b57ba5e650361e98fc36b1ba *)
Example sha1_vector_1000a :
  hex (sha1 (repeat 97 1000)) =
  [50;57;49;101;57;97;54;99;54;54;57;57;52;57;52;57;98;53;55;98;
   97;53;101;54;53;48;51;54;49;101;57;56;102;99;51;54;98;49;98;97].
Proof. vm_compute. reflexivity. Qed.

Theorem sha1_digest_shape m : length (sha1 m) = 20%nat /\ bytes_ok (sha1 m) = true.
Proof. split; [exact (sha1_length m)|exact (sha1_bytes_ok m)]. Qed.
