(* Pagination.v — executable model of a full scan of a paginated collection
   (C15): the framework pieces ResultsPage::new, the page-token codec
   (PageToken.v) and RequestContext::page_limit, composed with the stated
   contract of a well-behaved handler over a sorted in-memory collection.
   Definitions only; proofs are in PaginationProofs.v.

   What is framework code (transcribed): [results_page] = ResultsPage::new
   (pagination.rs), [serialize]/[deserialize] (PageToken.v), [page_limit]
   (handler.rs).  What is the handler contract (user code, modelled, the same
   as the handlers of dropshot/examples/pagination-basic.rs and of the
   harness): [page_items] — "the first [limit] items strictly after the
   marker, in the order of the scan". *)
From DS Require Import Base Base64 PageToken.

(* enum PaginationOrder { Ascending, Descending } *)
Inductive order := Asc | Desc.
Definition order_eqb (a b : order) : bool :=
  match a, b with Asc, Asc => true | Desc, Desc => true | _, _ => false end.

(* a collection: keys in strictly ascending order (a BTreeMap's key order) *)
Fixpoint sortedb (l : list N) : bool :=
  match l with
  | [] => true
  | x :: r => match r with [] => true | y :: _ => (x <? y) && sortedb r end
  end.

(* the collection as the scan traverses it *)
(* [rev_append coll []] = [rev coll] (List.rev_alt), linear when evaluated *)
Definition view (o : order) (coll : list N) : list N :=
  match o with Asc => coll | Desc => rev_append coll [] end.

(* "a precedes b in the scan's order" *)
Definition ltb_of (o : order) (a b : N) : bool :=
  match o with Asc => a <? b | Desc => b <? a end.

(* is key k strictly after the marker (the last item the client saw)? *)
Definition after (o : order) (marker : option N) (k : N) : bool :=
  match marker with None => true | Some m => ltb_of o m k end.

(* Iterator::take(n) with n : N (no conversion of n to unary) *)
Fixpoint takeN {A} (n : N) (l : list A) : list A :=
  match l with
  | [] => []
  | x :: r => if n =? 0 then [] else x :: takeN (N.pred n) r
  end.
Fixpoint dropN {A} (n : N) (l : list A) : list A :=
  match l with
  | [] => []
  | x :: r => if n =? 0 then l else dropN (N.pred n) r
  end.

(* the handler contract: range((Excluded(marker), Unbounded)).take(limit), or
   .rev() of range((Unbounded, Excluded(marker))) for a descending scan *)
Definition page_items (o : order) (coll : list N) (marker : option N) (limit : N) : list N :=
  takeN limit (filter (after o marker) (view o coll)).

(* slice::last *)
Fixpoint last_opt {A} (l : list A) : option A :=
  match l with
  | [] => None
  | x :: r => match r with [] => Some x | _ :: _ => last_opt r end
  end.

(* struct ResultsPage { next_page: Option<String>, items: Vec<Item> } *)
Record page := { next_page : option str; items : list N }.

Inductive scan_result :=
| Done (pages : list page)               (* a page without token was reached *)
| OutOfFuel (pages : list page)
| Failed (e : perr) (pages : list page). (* a request was answered with an error *)

Section Pagination.
  (* the selector of the harness's endpoints: (order of the scan, last key seen) *)
  Definition sel := (order * N)%type.
  Variable env_ser : sel -> option (list N).
  Variable env_de : list N -> option (pag_version * sel).
  (* ServerConfig::page_max_nitems, page_default_nitems *)
  Variable max default : N.
  Variable coll : list N.

  (* ResultsPage::new(items, scan_params, get_page_selector):
       next_page = items.last().map(|last| serialize_page_token(
                      get_page_selector(last, scan_params))).transpose()?   *)
  Definition results_page (its : list N) (scan_params : order)
             (get_page_selector : N -> order -> sel) : res perr page :=
    match last_opt its with
    | None => Ok {| next_page := None; items := its |}
    | Some last_item =>
        match serialize sel env_ser (get_page_selector last_item scan_params) with
        | Ok token => Ok {| next_page := Some token; items := its |}
        | Err e => Err e
        end
    end.

  (* the handler: limit = rqctx.page_limit(&pag_params); the scan's order and
     marker come from the scan parameters (first page) or from the token
     alone (next pages) *)
  Definition handler (which : which_page sel order) (lim : option N) : res perr page :=
    let limit := page_limit lim max default in
    match which with
    | First o => results_page (page_items o coll None limit) o (fun k o => (o, k))
    | Next (o, k) => results_page (page_items o coll (Some k) limit) o (fun k o => (o, k))
    end.

  (* one request of the client: no token on the first request (scan
     parameters say the order), the previous page's token afterwards *)
  Definition request (o0 : order) (lim : option N) (tok : option str) : res perr page :=
    match tok with
    | None => handler (First o0) lim
    | Some t =>
        match deserialize sel env_de t with
        | Ok s => handler (Next s) lim
        | Err e => Err e
        end
    end.

  Definition cons_pages (p : page) (r : scan_result) : scan_result :=
    match r with
    | Done ps => Done (p :: ps)
    | OutOfFuel ps => OutOfFuel (p :: ps)
    | Failed e ps => Failed e (p :: ps)
    end.

  (* follow next_page tokens until a page carries none *)
  Fixpoint scan (fuel : nat) (o0 : order) (lim : option N) (tok : option str) : scan_result :=
    match fuel with
    | O => OutOfFuel []
    | S f =>
        match request o0 lim tok with
        | Err e => Failed e []
        | Ok p =>
            match next_page p with
            | None => Done [p]
            | Some t => cons_pages p (scan f o0 lim (Some t))
            end
        end
    end.

  Definition full_scan (fuel : nat) (o0 : order) (lim : option N) : scan_result :=
    scan fuel o0 lim None.

  (* The same scan computed without going back through the token and the
     collection on every request: the items not yet delivered are threaded
     along instead of being recomputed from the decoded marker.  Proved equal
     to [full_scan] (PaginationProofs.fast_scan_is_scan) for sorted
     collections under the envelope contract; used to evaluate scans of tens of
     thousands of pages, where [scan] (one pass over the whole collection per
     page) is too slow. *)
  Fixpoint chunk_scan (fuel : nat) (o : order) (lim : option N) (rest : list N) : scan_result :=
    match fuel with
    | O => OutOfFuel []
    | S f =>
        let limit := page_limit lim max default in
        match results_page (takeN limit rest) o (fun k o => (o, k)) with
        | Err e => Failed e []
        | Ok p =>
            match next_page p with
            | None => Done [p]
            | Some _ => cons_pages p (chunk_scan f o lim (dropN limit rest))
            end
        end
    end.

  Definition fast_scan (fuel : nat) (o : order) (lim : option N) : scan_result :=
    chunk_scan fuel o lim (view o coll).
End Pagination.

(* number of requests of a complete scan: ceil(n / eff) non-empty pages and
   one final empty page *)
Definition expected_requests (n eff : N) : N := (n + eff - 1) / eff + 1.
