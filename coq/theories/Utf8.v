(* Utf8.v — UTF-8 well-formedness exactly as Rust's [str::from_utf8]
   (= RFC 3629 = Unicode Table 3-7, "Well-Formed UTF-8 Byte Sequences"):

     00..7F
     C2..DF 80..BF
     E0     A0..BF 80..BF
     E1..EC 80..BF 80..BF
     ED     80..9F 80..BF
     EE..EF 80..BF 80..BF
     F0     90..BF 80..BF 80..BF
     F1..F3 80..BF 80..BF 80..BF
     F4     80..8F 80..BF 80..BF

   No overlong forms (C0, C1, E0 80..9F, F0 80..8F), no surrogates
   (ED A0..BF), nothing above U+10FFFF (F4 90.., F5..FF).  A "byte" >= 256 is
   in none of the ranges, so it makes the string invalid.
   Model only; proofs in PctProofs.v. *)
From DS Require Import Base.

Definition in_range (lo hi c : N) : bool := (lo <=? c) && (c <=? hi).

(* continuation byte 80..BF *)
Definition utf8_cont (c : N) : bool := in_range 128 191 c.

(* admissible second byte of a 3-byte sequence, given its lead byte E0..EF *)
Definition utf8_second3 (b0 b1 : N) : bool :=
  if b0 =? 224 then in_range 160 191 b1
  else if b0 =? 237 then in_range 128 159 b1
  else in_range 128 191 b1.

(* admissible second byte of a 4-byte sequence, given its lead byte F0..F4 *)
Definition utf8_second4 (b0 b1 : N) : bool :=
  if b0 =? 240 then in_range 144 191 b1
  else if b0 =? 244 then in_range 128 143 b1
  else in_range 128 191 b1.

Fixpoint utf8_valid (s : str) : bool :=
  match s with
  | [] => true
  | b0 :: t0 =>
      if b0 <? 128 then utf8_valid t0
      else if in_range 194 223 b0 then
        match t0 with
        | b1 :: t1 => utf8_cont b1 && utf8_valid t1
        | _ => false
        end
      else if in_range 224 239 b0 then
        match t0 with
        | b1 :: b2 :: t2 => utf8_second3 b0 b1 && utf8_cont b2 && utf8_valid t2
        | _ => false
        end
      else if in_range 240 244 b0 then
        match t0 with
        | b1 :: b2 :: b3 :: t3 =>
            utf8_second4 b0 b1 && utf8_cont b2 && utf8_cont b3 && utf8_valid t3
        | _ => false
        end
      else false
  end.
