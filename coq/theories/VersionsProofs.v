(* VersionsProofs.v — the range theorems, for every total order. *)
From DS Require Import Base Versions.

(* [cmp] is a total order whose [Eq] is equality, with a least element —
   what Rust's derived [Ord]/[Eq] on [semver::Version] give; proved of the
   concrete model in Semver.v and of [N.compare]. *)
Record total_order (V : Type) (cmp : V -> V -> comparison) (bot : V) : Prop := {
  to_eq : forall a b, cmp a b = Eq -> a = b;
  to_refl : forall a, cmp a a = Eq;
  to_antisym : forall a b, cmp b a = CompOpp (cmp a b);
  to_trans : forall a b c, cmp a b = Lt -> cmp b c = Lt -> cmp a c = Lt;
  to_bot : forall v, cmp bot v <> Gt
}.

Section Proofs.
  Variable V : Type.
  Variable cmp : V -> V -> comparison.
  Variable bot : V.
  Hypothesis TO : total_order V cmp bot.
  Let cmp_eq := to_eq V cmp bot TO.
  Let cmp_refl := to_refl V cmp bot TO.
  Let cmp_antisym := to_antisym V cmp bot TO.
  Let cmp_trans := to_trans V cmp bot TO.
  Let bot_min := to_bot V cmp bot TO.

  Notation vlt := (vlt V cmp).
  Notation vle := (vle V cmp).
  Notation veq := (veq V cmp).
  Notation lt := (lt V cmp).
  Notation le := (le V cmp).
  Notation vin := (vin V cmp).
  Notation vinb := (vinb V cmp).
  Notation vmatches := (vmatches V cmp).
  Notation overlaps := (overlaps V cmp).
  Notation wf_range := (wf_range V cmp).
  Notation until_bot := (until_bot V cmp bot).
  Notation k2_class := (k2_class V cmp bot).

  (* ---- order facts ---- *)
  Lemma vlt_iff a b : vlt a b = true <-> lt a b.
  Proof. unfold Versions.vlt, Versions.lt. destruct (cmp a b); split; congruence. Qed.
  Lemma vle_iff a b : vle a b = true <-> le a b.
  Proof. unfold Versions.vle, Versions.le. destruct (cmp a b); split; congruence. Qed.
  Lemma veq_iff a b : veq a b = true <-> a = b.
  Proof.
    unfold Versions.veq. split.
    - destruct (cmp a b) eqn:H; try discriminate. intros _. auto.
    - intros ->. rewrite cmp_refl. reflexivity.
  Qed.

  Lemma lt_irrefl a : ~ lt a a.
  Proof. unfold Versions.lt. rewrite cmp_refl. discriminate. Qed.
  Lemma lt_trans a b c : lt a b -> lt b c -> lt a c.
  Proof. apply cmp_trans. Qed.
  Lemma le_refl a : le a a.
  Proof. unfold Versions.le. rewrite cmp_refl. discriminate. Qed.
  Lemma lt_le a b : lt a b -> le a b.
  Proof. unfold Versions.lt, Versions.le. intros ->. discriminate. Qed.
  Lemma le_cases a b : le a b <-> lt a b \/ a = b.
  Proof.
    unfold Versions.le, Versions.lt. split.
    - destruct (cmp a b) eqn:H; intros Hn; auto; congruence.
    - intros [->| ->]; [discriminate|]. rewrite cmp_refl. discriminate.
  Qed.
  Lemma not_le_lt a b : ~ le a b <-> lt b a.
  Proof.
    unfold Versions.le, Versions.lt. rewrite (cmp_antisym a b).
    destruct (cmp a b); cbn [CompOpp]; split; intros H; try congruence;
      try (exfalso; apply H; discriminate).
  Qed.
  Lemma not_lt_le a b : ~ lt a b <-> le b a.
  Proof.
    unfold Versions.le, Versions.lt. rewrite (cmp_antisym a b).
    destruct (cmp a b); cbn [CompOpp]; split; intros H; try congruence;
      try (exfalso; apply H; reflexivity).
  Qed.
  Lemma le_lt_dec a b : {le a b} + {lt b a}.
  Proof.
    unfold Versions.le, Versions.lt. rewrite (cmp_antisym a b).
    destruct (cmp a b); cbn [CompOpp]; (left; discriminate) || (right; reflexivity).
  Qed.
  Lemma le_lt_trans a b c : le a b -> lt b c -> lt a c.
  Proof. rewrite le_cases. intros [H| ->]; eauto using lt_trans. Qed.
  Lemma lt_le_trans a b c : lt a b -> le b c -> lt a c.
  Proof. rewrite le_cases. intros H [H'| <-]; eauto using lt_trans. Qed.
  Lemma le_trans a b c : le a b -> le b c -> le a c.
  Proof.
    rewrite !le_cases. intros [H| ->] [H'| <-]; eauto using lt_trans.
  Qed.
  Lemma le_antisym a b : le a b -> le b a -> a = b.
  Proof.
    rewrite !le_cases. intros [H| ->] [H'| H']; auto.
    exfalso. exact (lt_irrefl _ (lt_trans _ _ _ H H')).
  Qed.
  Lemma lt_neq a b : lt a b -> a <> b.
  Proof. intros H ->. exact (lt_irrefl _ H). Qed.

  (* ---- C05.1: matches means membership ---- *)
  Lemma vinb_iff r v : vinb r v = true <-> vin r v.
  Proof.
    destruct r as [|a|a b|b]; cbn [Versions.vinb Versions.vin].
    - tauto.
    - apply vle_iff.
    - destruct (veq a b) eqn:Hab.
      + apply veq_iff in Hab. subst b. rewrite veq_iff. split.
        * intros ->. left; auto.
        * intros [[_ ->]|[Hn _]]; congruence.
      + assert (a <> b) by (intros ->; rewrite (proj2 (veq_iff b b) eq_refl) in Hab; discriminate).
        rewrite andb_true_iff, vle_iff, vlt_iff. split.
        * intros [? ?]. right; auto.
        * intros [[? _]|[_ [? ?]]]; [congruence|auto].
    - apply vlt_iff.
  Qed.

  Theorem matches_iff_in r v :
    wf_range r -> (vmatches r (Some v) = true <-> vin r v).
  Proof.
    destruct r as [|a|a b|b]; cbn [Versions.wf_range Versions.vmatches Versions.vin]; intros Hwf.
    - tauto.
    - apply vle_iff.
    - rewrite andb_true_iff, orb_true_iff, andb_true_iff, vle_iff, vlt_iff, !veq_iff.
      split.
      + intros [Hav [Hvb|[-> ->]]].
        * right. split; [|auto]. intros ->.
          exact (lt_irrefl _ (le_lt_trans _ _ _ Hav Hvb)).
        * left; auto.
      + intros [[-> ->]|[Hn [Hav Hvb]]].
        * split; [apply le_refl|right; auto].
        * split; auto.
    - apply vlt_iff.
  Qed.

  Theorem matches_none r : vmatches r None = true.
  Proof. reflexivity. Qed.

  (* the four membership equations of the property text *)
  Corollary matches_from a v : vmatches (VFrom a) (Some v) = true <-> le a v.
  Proof. apply (matches_iff_in (VFrom a) v I). Qed.
  Corollary matches_until b v : vmatches (VUntil b) (Some v) = true <-> lt v b.
  Proof. apply (matches_iff_in (VUntil b) v I). Qed.
  Corollary matches_all v : vmatches VAll (Some v) = true.
  Proof. reflexivity. Qed.
  Corollary matches_from_until a b v :
    lt a b -> (vmatches (VFromUntil a b) (Some v) = true <-> le a v /\ lt v b).
  Proof.
    intros Hab. rewrite (matches_iff_in (VFromUntil a b) v (lt_le _ _ Hab)).
    cbn [Versions.vin]. split.
    - intros [[-> _]|[_ H]]; [exfalso; exact (lt_irrefl _ Hab)|exact H].
    - intros H. right. split; [apply lt_neq; exact Hab|exact H].
  Qed.
  Corollary matches_one_version a v :
    vmatches (VFromUntil a a) (Some v) = true <-> v = a.
  Proof.
    rewrite (matches_iff_in (VFromUntil a a) v (le_refl a)). cbn [Versions.vin].
    split; [intros [[_ ->]|[Hn _]]; congruence|intros ->; left; auto].
  Qed.

  (* ---- C05.2 ---- *)
  Theorem from_until_ok_iff a b :
    is_ok (from_until V cmp a b) = true <-> le a b.
  Proof.
    unfold from_until. destruct (vlt b a) eqn:H; cbn [is_ok].
    - apply vlt_iff in H. split; [discriminate|]. intros Hle.
      exfalso. exact (lt_irrefl _ (le_lt_trans _ _ _ Hle H)).
    - split; [intros _|auto]. apply not_lt_le. rewrite <- vlt_iff. congruence.
  Qed.

  Theorem from_until_value a b r :
    from_until V cmp a b = Ok r -> r = VFromUntil a b /\ wf_range r.
  Proof.
    intros H. assert (Hok : is_ok (from_until V cmp a b) = true) by (rewrite H; reflexivity).
    apply from_until_ok_iff in Hok. unfold from_until in H.
    destruct (vlt b a); [discriminate|]. inversion H; subst. split; auto.
  Qed.

  (* ---- C05.3: overlap iff a shared version ---- *)

  Lemma vin_from_until_lo a b : le a b -> vin (VFromUntil a b) a.
  Proof.
    intros Hab. cbn [Versions.vin]. apply le_cases in Hab. destruct Hab as [Hlt| ->].
    - right. split; [apply lt_neq; auto|]. split; [apply le_refl|auto].
    - left; auto.
  Qed.

  Lemma vin_from_until_ge a b v : vin (VFromUntil a b) v -> le a v.
  Proof. cbn [Versions.vin]. intros [[_ ->]|[_ [H _]]]; [apply le_refl|auto]. Qed.

  Lemma vin_from_until_le a b v : vin (VFromUntil a b) v -> le v b.
  Proof.
    cbn [Versions.vin]. intros [[-> ->]|[_ [_ H]]]; [apply le_refl|apply lt_le; auto].
  Qed.

  (* if v is in [a,b) (or {a}) and a <= w <= v then w is in as well *)
  Lemma vin_from_until_down a b v w :
    vin (VFromUntil a b) v -> le a w -> le w v -> vin (VFromUntil a b) w.
  Proof.
    cbn [Versions.vin]. intros [[-> ->]|[Hn [Hav Hvb]]] Haw Hwv.
    - left. split; auto. apply le_antisym; auto.
    - right. split; auto. split; auto. eapply le_lt_trans; eauto.
  Qed.

  Lemma until_nonempty b : b <> bot -> exists v, lt v b.
  Proof.
    intros Hb. exists bot. specialize (bot_min b).
    unfold Versions.lt. destruct (cmp bot b) eqn:H; try congruence.
    apply cmp_eq in H. congruence.
  Qed.

  Lemma until_bot_false b : until_bot (VUntil b) = false -> b <> bot.
  Proof.
    cbn [Versions.until_bot]. intros H ->.
    rewrite (proj2 (veq_iff bot bot) eq_refl) in H. discriminate.
  Qed.

  Theorem overlaps_iff_shared r1 r2 :
    wf_range r1 -> wf_range r2 -> k2_class r1 r2 = false ->
    (overlaps r1 r2 = true <-> exists v, vin r1 v /\ vin r2 v).
  Proof.
    intros Hwf1 Hwf2 Hk.
    pose proof (matches_iff_in r1) as M1. pose proof (matches_iff_in r2) as M2.
    specialize (fun v => M1 v Hwf1). specialize (fun v => M2 v Hwf2).
    unfold Versions.k2_class in Hk. apply orb_false_iff in Hk. destruct Hk as [Hk1 Hk2].
    destruct r1 as [|a1|a1 b1|b1], r2 as [|a2|a2 b2|b2];
      cbn [Versions.overlaps];
      cbn [Versions.wf_range] in Hwf1, Hwf2.
    (* All, _ *)
    - split; [intros _; exists bot; cbn; auto|auto].
    - split; [intros _; exists a2; cbn; split; [auto|apply le_refl]|auto].
    - split; [intros _; exists a2; split; [cbn; auto|apply vin_from_until_lo; auto]|auto].
    - rewrite andb_true_r in Hk2. apply until_bot_false in Hk2.
      split; [intros _|auto]. destruct (until_nonempty _ Hk2) as [v Hv].
      exists v; cbn; auto.
    (* From a1, _ *)
    - split; [intros _; exists a1; cbn; split; [apply le_refl|auto]|auto].
    - split; [intros _|auto].
      destruct (le_lt_dec a1 a2) as [H|H].
      + exists a2; cbn; split; [auto|apply le_refl].
      + exists a1; cbn; split; [apply le_refl|apply lt_le; auto].
    - rewrite orb_true_iff, M2, vle_iff. split.
      + intros [H|H].
        * exists a1. split; [cbn; apply le_refl|auto].
        * exists a2. split; [cbn; auto|apply vin_from_until_lo; auto].
      + intros [v [Hv1 Hv2]]. cbn [Versions.vin] in Hv1.
        destruct (le_lt_dec a1 a2) as [H|H]; [right; auto|left].
        eapply vin_from_until_down; eauto. apply lt_le; auto.
    - rewrite M2. split.
      + intros H. exists a1. split; [cbn; apply le_refl|auto].
      + intros [v [Hv1 Hv2]]. cbn [Versions.vin] in *. eapply le_lt_trans; eauto.
    (* FromUntil a1 b1, _ *)
    - split; [intros _; exists a1; split; [apply vin_from_until_lo; auto|cbn; auto]|auto].
    - rewrite orb_true_iff, M1, vle_iff. split.
      + intros [H|H].
        * exists a2. split; [auto|cbn; apply le_refl].
        * exists a1. split; [apply vin_from_until_lo; auto|cbn; auto].
      + intros [v [Hv1 Hv2]]. cbn [Versions.vin] in Hv2.
        destruct (le_lt_dec a2 a1) as [H|H]; [right; auto|left].
        eapply vin_from_until_down; eauto. apply lt_le; auto.
    - rewrite orb_true_iff, M1, M2. split.
      + intros [H|H].
        * exists a2. split; [auto|apply vin_from_until_lo; auto].
        * exists a1. split; [apply vin_from_until_lo; auto|auto].
      + intros [v [Hv1 Hv2]].
        destruct (le_lt_dec a1 a2) as [H|H].
        * left. eapply vin_from_until_down; eauto. eapply vin_from_until_ge; eauto.
        * right. eapply vin_from_until_down; eauto.
          -- apply lt_le; auto.
          -- eapply vin_from_until_ge; eauto.
    - rewrite M2. split.
      + intros H. exists a1. split; [apply vin_from_until_lo; auto|auto].
      + intros [v [Hv1 Hv2]]. cbn [Versions.vin] in Hv2 |- *.
        eapply le_lt_trans; [eapply vin_from_until_ge; eauto|auto].
    (* Until b1, _ *)
    - rewrite andb_true_r in Hk1. apply until_bot_false in Hk1.
      split; [intros _|auto]. destruct (until_nonempty _ Hk1) as [v Hv].
      exists v; cbn; auto.
    - rewrite M1. split.
      + intros H. exists a2. split; [auto|cbn; apply le_refl].
      + intros [v [Hv1 Hv2]]. cbn [Versions.vin] in *. eapply le_lt_trans; eauto.
    - rewrite M1. split.
      + intros H. exists a2. split; [auto|apply vin_from_until_lo; auto].
      + intros [v [Hv1 Hv2]]. cbn [Versions.vin] in Hv1 |- *.
        eapply le_lt_trans; [eapply vin_from_until_ge; eauto|auto].
    - rewrite andb_true_r in Hk1, Hk2.
      apply until_bot_false in Hk1. apply until_bot_false in Hk2.
      split; [intros _|auto].
      destruct (le_lt_dec b1 b2) as [H|H].
      + destruct (until_nonempty _ Hk1) as [v Hv]. exists v; cbn; split; auto.
        eapply lt_le_trans; eauto.
      + destruct (until_nonempty _ Hk2) as [v Hv]. exists v; cbn; split; auto.
        eapply lt_trans; eauto.
  Qed.

  (* ---- the decidable form of "share a version" ---- *)
  Notation sharedb := (sharedb V cmp bot).
  Notation lows := (lows V).

  Lemma vin_low r a v : wf_range r -> vin r v -> In a (lows r) -> le a v.
  Proof.
    destruct r as [|a'|a' b'|b']; cbn [Versions.lows In]; intros Hwf Hv Hin; try tauto.
    - destruct Hin as [<-|[]]. exact Hv.
    - destruct Hin as [<-|[]]. eapply vin_from_until_ge; eauto.
  Qed.

  Lemma vin_down r v w :
    vin r v -> le w v -> (forall a, In a (lows r) -> le a w) -> vin r w.
  Proof.
    destruct r as [|a|a b|b]; cbn [Versions.lows]; intros Hv Hwv Hlo.
    - exact I.
    - cbn [Versions.vin]. apply Hlo. left; auto.
    - eapply vin_from_until_down; eauto. apply Hlo. left; auto.
    - cbn [Versions.vin] in *. eapply le_lt_trans; eauto.
  Qed.

  Lemma exists_max (l : list V) :
    l <> [] -> exists c, In c l /\ forall a, In a l -> le a c.
  Proof.
    induction l as [|x l IH]; [congruence|]. intros _.
    destruct l as [|y l'].
    - exists x. split; [left; auto|]. intros a [<-|[]]. apply le_refl.
    - destruct IH as [c [Hc Hmax]]; [discriminate|].
      destruct (le_lt_dec x c) as [H|H].
      + exists c. split; [right; auto|]. intros a [<-|Ha]; auto.
      + exists x. split; [left; auto|]. intros a [<-|Ha]; [apply le_refl|].
        eapply le_trans; [apply Hmax; auto|apply lt_le; auto].
  Qed.

  Theorem sharedb_iff r1 r2 :
    wf_range r1 -> wf_range r2 ->
    (sharedb r1 r2 = true <-> exists v, vin r1 v /\ vin r2 v).
  Proof.
    intros Hwf1 Hwf2. unfold Versions.sharedb. rewrite existsb_exists. split.
    - intros [c [_ Hc]]. apply andb_true_iff in Hc. destruct Hc as [H1 H2].
      exists c. rewrite <- !vinb_iff. auto.
    - intros [v [H1 H2]].
      destruct (exists_max (lows r1 ++ lows r2 ++ [bot])) as [c [Hc Hmax]].
      { destruct (lows r1); cbn; [destruct (lows r2); cbn|]; discriminate. }
      exists c. split; [exact Hc|].
      assert (Hcv : le c v).
      { rewrite !in_app_iff in Hc. destruct Hc as [Hc|[Hc|[<-|[]]]].
        - exact (vin_low r1 c v Hwf1 H1 Hc).
        - exact (vin_low r2 c v Hwf2 H2 Hc).
        - apply bot_min. }
      apply andb_true_iff. rewrite !vinb_iff. split.
      + eapply vin_down; eauto. intros a Ha. apply Hmax. rewrite !in_app_iff; auto.
      + eapply vin_down; eauto. intros a Ha. apply Hmax. rewrite !in_app_iff; auto.
  Qed.

  (* the model's conflict test is the specification's, outside K2 *)
  Corollary overlaps_is_sharedb r1 r2 :
    wf_range r1 -> wf_range r2 -> k2_class r1 r2 = false ->
    overlaps r1 r2 = sharedb r1 r2.
  Proof.
    intros H1 H2 Hk. pose proof (overlaps_iff_shared r1 r2 H1 H2 Hk) as Ho.
    pose proof (sharedb_iff r1 r2 H1 H2) as Hs.
    destruct (overlaps r1 r2), (sharedb r1 r2); auto.
    - symmetry. apply Hs, Ho. reflexivity.
    - apply Ho, Hs. reflexivity.
  Qed.

  Theorem overlaps_sym r1 r2 : overlaps r1 r2 = overlaps r2 r1.
  Proof.
    destruct r1, r2; cbn [Versions.overlaps]; auto using orb_comm.
  Qed.

  (* K2, stated: inside the class the equivalence is false — the range
     [until bot] is empty but is reported as overlapping. *)
  Theorem k2_refuted b :
    overlaps (VUntil bot) (VUntil b) = true /\ ~ exists v, vin (VUntil bot) v.
  Proof.
    split; [reflexivity|]. intros [v Hv]. cbn [Versions.vin] in Hv.
    specialize (bot_min v). unfold Versions.lt in Hv.
    rewrite (cmp_antisym v bot), Hv in bot_min. cbn in bot_min. congruence.
  Qed.

  (* shared version => not both registrable: the form insert uses *)
  Corollary disjoint_no_shared r1 r2 v :
    wf_range r1 -> wf_range r2 -> overlaps r1 r2 = false ->
    vmatches r1 (Some v) = true -> vmatches r2 (Some v) = true -> False.
  Proof.
    intros Hwf1 Hwf2 Hov H1 H2.
    apply (matches_iff_in r1 v Hwf1) in H1. apply (matches_iff_in r2 v Hwf2) in H2.
    (* direction "shared -> overlaps" does not need the K2 side condition *)
    assert (overlaps r1 r2 = true) as Ht; [|congruence].
    clear Hov.
    pose proof (matches_iff_in r1) as M1. pose proof (matches_iff_in r2) as M2.
    specialize (fun v => M1 v Hwf1). specialize (fun v => M2 v Hwf2).
    destruct r1 as [|a1|a1 b1|b1], r2 as [|a2|a2 b2|b2];
      cbn [Versions.overlaps]; cbn [Versions.wf_range] in Hwf1, Hwf2; auto.
    - rewrite orb_true_iff, M2, vle_iff. cbn [Versions.vin] in H1.
      destruct (le_lt_dec a1 a2) as [H|H]; [right; auto|left].
      eapply vin_from_until_down; eauto. apply lt_le; auto.
    - rewrite M2. cbn [Versions.vin] in *. eapply le_lt_trans; eauto.
    - rewrite orb_true_iff, M1, vle_iff. cbn [Versions.vin] in H2.
      destruct (le_lt_dec a2 a1) as [H|H]; [right; auto|left].
      eapply vin_from_until_down; eauto. apply lt_le; auto.
    - rewrite orb_true_iff, M1, M2.
      destruct (le_lt_dec a1 a2) as [H|H].
      + left. eapply vin_from_until_down; eauto. eapply vin_from_until_ge; eauto.
      + right. eapply vin_from_until_down; eauto.
        * apply lt_le; auto.
        * eapply vin_from_until_ge; eauto.
    - rewrite M2. cbn [Versions.vin] in H2 |- *.
      eapply le_lt_trans; [eapply vin_from_until_ge; eauto|auto].
    - rewrite M1. cbn [Versions.vin] in *. eapply le_lt_trans; eauto.
    - rewrite M1. cbn [Versions.vin] in H1 |- *.
      eapply le_lt_trans; [eapply vin_from_until_ge; eauto|auto].
  Qed.

  (* ---- C05.5: header policy ---- *)
  Variable parse : str -> option V.
  Notation extract_version := (extract_version V cmp parse).

  Theorem header_policy max h v :
    extract_version max h = Ok v <->
    exists s, h = HStr s /\ parse s = Some v /\ le v max.
  Proof.
    unfold Versions.extract_version. split.
    - destruct h as [| |s]; try discriminate.
      destruct (parse s) as [w|] eqn:Hp; try discriminate.
      destruct (vle w max) eqn:Hle; try discriminate.
      intros [= <-]. exists s. rewrite <- vle_iff. auto.
    - intros [s [-> [-> Hle]]]. apply vle_iff in Hle. rewrite Hle. reflexivity.
  Qed.

  Theorem header_policy_err max h :
    (forall v, extract_version max h <> Ok v) -> extract_version max h = Err 400.
  Proof.
    unfold Versions.extract_version. intros H.
    destruct h as [| |s]; auto.
    destruct (parse s) as [w|]; auto.
    destruct (vle w max); auto. exfalso. apply (H w). reflexivity.
  Qed.

  Theorem header_policy_total max h :
    (exists v, extract_version max h = Ok v) \/ extract_version max h = Err 400.
  Proof.
    unfold Versions.extract_version.
    destruct h as [| |s]; auto.
    destruct (parse s) as [w|]; auto.
    destruct (vle w max); eauto.
  Qed.
End Proofs.
