(* SchemaSem.v — what a schema accepts.

   [valid_js env s j]  : the source dialect.  schemars is run by dropshot with
     [SchemaSettings::openapi3()], whose output is JSON Schema draft-07
     keywords plus the [nullable] extension ([option_nullable = true]); a
     schema with [nullable: true] accepts [null] in addition to what its other
     keywords accept.  [$ref] follows draft-07: its siblings are ignored -
     except [nullable: true], which schemars emits beside a [$ref] for
     [Option<T>] of a referenceable [T] (a whole body/response type, or a
     member of an inline schema): "T or null".
   [valid_oas env o j] : OpenAPI 3.0 Schema Object (JSON Schema Wright draft
     00 subset): [type] is a single string and excludes [null] unless
     [nullable: true]; [exclusiveMinimum]/[exclusiveMaximum] are booleans that
     modify [minimum]/[maximum]; [enum] values are compared with the instance.
     [nullable: true] is read as "null is accepted" for every kind of schema
     (the reading of OpenAPI 3.0.0-3.0.2 and of the tools dropshot's documents
     are fed to).  Under the 3.0.3 clarification [nullable] has an effect only
     beside a [type] in the same schema object; with that reading every
     [Option<Struct>] = {allOf:[$ref], nullable:true} would reject null.  That
     reading is not the one judged here (stated in the trusted base).

   Both are structural on the schema.  [$ref] is interpreted through
   [env : str -> json -> bool], so every statement proved for all [env] holds
   for the recursive interpretation of references in particular.
   [pattern] and [format] go through the uninterpreted [pat_ok]/[fmt_ok],
   shared by both sides (Section variables: not assumptions about the code).
   No proofs in this file. *)
From DS Require Import Base Json Schema J2Oas.
Open Scope N_scope.

Section Sem.
  Variable env : str -> json -> bool.
  Variable pat_ok : str -> str -> bool.   (* pattern, string *)
  Variable fmt_ok : str -> json -> bool.  (* format name, instance *)

  (* ------------------------------------------------------------ shared *)
  Definition type_ok (t : itype) (j : json) : bool :=
    match t, j with
    | TNull, JNull => true
    | TBoolean, JBool _ => true
    | TObject, JObj _ => true
    | TArray, JArr _ => true
    | TString, JStr _ => true
    | TNumber, JNum _ => true
    | TInteger, JNum n => q_is_int (num_q n)
    | _, _ => false
    end.

  Definition min_ok (excl : bool) (m x : q) : bool := if excl then q_ltb m x else q_leb m x.
  Definition max_ok (excl : bool) (m x : q) : bool := if excl then q_ltb x m else q_leb x m.

  (* ------------------------------------------------------------ source *)
  Definition valid_numval (nv : numval) (j : json) : bool :=
    match j with
    | JNum n =>
        let x := num_q n in
        optb (nv_multiple_of nv) (q_multiple x)
        && optb (nv_maximum nv) (fun m => max_ok false m x)
        && optb (nv_exclusive_maximum nv) (fun m => max_ok true m x)
        && optb (nv_minimum nv) (fun m => min_ok false m x)
        && optb (nv_exclusive_minimum nv) (fun m => min_ok true m x)
    | _ => true
    end.

  Definition valid_strval (sv : strval) (j : json) : bool :=
    match j with
    | JStr s =>
        optb (sv_max_length sv) (fun m => str_chars s <=? m)
        && optb (sv_min_length sv) (fun m => m <=? str_chars s)
        && optb (sv_pattern sv) (fun p => pat_ok p s)
    | _ => true
    end.

  Definition valid_tuple (rec : schema -> json -> bool) (addl : option schema)
    : list schema -> list json -> bool :=
    fix go (l : list schema) (js : list json) {struct l} : bool :=
      match l, js with
      | s :: l', x :: js' => rec s x && go l' js'
      | [], _ => optb addl (fun a => forallb (rec a) js)
      | _ :: _, [] => true
      end.

  Definition valid_arrval (rec : schema -> json -> bool) (av : arrval schema) (j : json) : bool :=
    match j with
    | JArr l =>
        match av_items av with
        | None => true
        | Some (Single s) => forallb (rec s) l
        | Some (Multi ss) => valid_tuple rec (av_additional_items av) ss l
        end
        && optb (av_max_items av) (fun m => len_N l <=? m)
        && optb (av_min_items av) (fun m => m <=? len_N l)
        && match av_unique_items av with Some true => json_nodup l | _ => true end
        && optb (av_contains av) (fun c => existsb (rec c) l)
    | _ => true
    end.

  Definition valid_objval (rec : schema -> json -> bool) (ov : objval schema) (j : json) : bool :=
    match j with
    | JObj kvs =>
        optb (ov_max_properties ov) (fun m => len_N kvs <=? m)
        && optb (ov_min_properties ov) (fun m => m <=? len_N kvs)
        && forallb (fun k => has_key k kvs) (ov_required ov)
        && forallb (fun p => match lookup (fst p) kvs with
                             | Some v => rec (snd p) v
                             | None => true
                             end) (ov_properties ov)
        && forallb (fun p => forallb (fun kv => if pat_ok (fst p) (fst kv)
                                                then rec (snd p) (snd kv) else true) kvs)
                   (ov_pattern_properties ov)
        && optb (ov_additional_properties ov)
                (fun a => forallb (fun kv =>
                                     if has_key (fst kv) (ov_properties ov)
                                        || existsb (fun p => pat_ok (fst p) (fst kv))
                                                   (ov_pattern_properties ov)
                                     then true else rec a (snd kv)) kvs)
        && optb (ov_property_names ov) (fun a => forallb (fun kv => rec a (JStr (fst kv))) kvs)
    | _ => true
    end.

  Definition valid_subs (rec : schema -> json -> bool) (sb : subsval schema) (j : json) : bool :=
    optb (sb_all_of sb) (fun l => forallb (fun s => rec s j) l)
    && optb (sb_any_of sb) (fun l => existsb (fun s => rec s j) l)
    && optb (sb_one_of sb) (fun l => Nat.eqb (count_true (fun s => rec s j) l) 1)
    && optb (sb_not sb) (fun s => negb (rec s j))
    && match sb_if sb with
       | None => true
       | Some c => if rec c j then optb (sb_then sb) (fun s => rec s j)
                   else optb (sb_else sb) (fun s => rec s j)
       end.

  Definition valid_type (t : option (sov itype)) (j : json) : bool :=
    match t with
    | None => true
    | Some (Single t) => type_ok t j
    | Some (Multi ts) => existsb (fun t => type_ok t j) ts
    end.

  Fixpoint valid_js (s : schema) (j : json) {struct s} : bool :=
    match s with
    | SBool b => b
    | SObj o =>
        match so_reference o with
        | Some r => (ext_nullable (so_extensions o) && is_null j) || env r j
        | None =>
            (ext_nullable (so_extensions o) && is_null j)
            || (valid_type (so_instance_type o) j
                && optb (so_format o) (fun f => fmt_ok f j)
                && optb (so_enum_values o) (json_mem j)
                && optb (so_const_value o) (json_eqb j)
                && optb (so_subschemas o) (fun sb => valid_subs valid_js sb j)
                && optb (so_number o) (fun nv => valid_numval nv j)
                && optb (so_string o) (fun sv => valid_strval sv j)
                && optb (so_array o) (fun av => valid_arrval valid_js av j)
                && optb (so_object o) (fun ov => valid_objval valid_js ov j))
        end
    end.

  (* ------------------------------------------------------------ target *)
  Definition strfmt_name (f : strfmt) : str :=
    match f with
    | SFDate => s_date | SFDateTime => s_date_time | SFPassword => s_password
    | SFByte => s_byte | SFBinary => s_binary
    end.
  Definition numfmt_name (f : numfmt) : str :=
    match f with NFFloat => s_float | NFDouble => s_double end.
  Definition intfmt_name (f : intfmt) : str :=
    match f with IFInt32 => s_int32 | IFInt64 => s_int64 end.

  Definition vou_name {T} (nm : T -> str) (f : vou T) : option str :=
    match f with VItem t => Some (nm t) | VUnknown s => Some s | VEmpty => None end.

  (* an empty [enumeration] vector is not serialised: no constraint *)
  Definition enum_ok {B} (eq : B -> json -> bool) (l : list (option B)) (j : json) : bool :=
    match l with
    | [] => true
    | _ => existsb (fun e => match e with None => is_null j | Some b => eq b j end) l
    end.

  Definition valid_ostring (st : ostring) (j : json) : bool :=
    match j with
    | JStr s =>
        optb (os_max_length st) (fun m => str_chars s <=? m)
        && optb (os_min_length st) (fun m => m <=? str_chars s)
        && optb (os_pattern st) (fun p => pat_ok p s)
        && optb (vou_name strfmt_name (os_format st)) (fun f => fmt_ok f j)
        && enum_ok (fun e j => match j with JStr s' => str_eqb s' e | _ => false end)
                   (os_enumeration st) j
    | _ => false
    end.

  Definition valid_onumber (nt : onumber) (j : json) : bool :=
    match j with
    | JNum n =>
        let x := num_q n in
        optb (on_multiple_of nt) (q_multiple x)
        && optb (on_maximum nt) (fun m => max_ok (on_exclusive_maximum nt) m x)
        && optb (on_minimum nt) (fun m => min_ok (on_exclusive_minimum nt) m x)
        && optb (vou_name numfmt_name (on_format nt)) (fun f => fmt_ok f j)
        && enum_ok (fun e j => match j with JNum n' => q_eqb (num_q n') e | _ => false end)
                   (on_enumeration nt) j
    | _ => false
    end.

  Definition valid_ointeger (it : ointeger) (j : json) : bool :=
    match j with
    | JNum n =>
        let x := num_q n in
        q_is_int x
        && optb (oi_multiple_of it) (fun m => q_multiple x (q_of_Z m))
        && optb (oi_maximum it) (fun m => max_ok (oi_exclusive_maximum it) (q_of_Z m) x)
        && optb (oi_minimum it) (fun m => min_ok (oi_exclusive_minimum it) (q_of_Z m) x)
        && optb (vou_name intfmt_name (oi_format it)) (fun f => fmt_ok f j)
        && enum_ok (fun e j => match j with JNum n' => q_eqb (num_q n') (q_of_Z e) | _ => false end)
                   (oi_enumeration it) j
    | _ => false
    end.

  Definition valid_oboolean (en : list (option bool)) (j : json) : bool :=
    match j with
    | JBool _ => enum_ok (fun e j => match j with JBool b' => Bool.eqb b' e | _ => false end) en j
    | _ => false
    end.

  Definition valid_oobject (rec : oschema -> json -> bool) (ot : oobject oschema) (j : json) : bool :=
    match j with
    | JObj kvs =>
        optb (oo_max_properties ot) (fun m => len_N kvs <=? m)
        && optb (oo_min_properties ot) (fun m => m <=? len_N kvs)
        && forallb (fun k => has_key k kvs) (oo_required ot)
        && forallb (fun p => match lookup (fst p) kvs with
                             | Some v => rec (snd p) v
                             | None => true
                             end) (oo_properties ot)
        && match oo_additional_properties ot with
           | None => true
           | Some (AAny true) => true
           | Some (AAny false) => forallb (fun kv => has_key (fst kv) (oo_properties ot)) kvs
           | Some (ASchema a) =>
               forallb (fun kv => if has_key (fst kv) (oo_properties ot) then true
                                  else rec a (snd kv)) kvs
           end
    | _ => false
    end.

  Definition valid_oarray (rec : oschema -> json -> bool) (at_ : oarray oschema) (j : json) : bool :=
    match j with
    | JArr l =>
        optb (oa_items at_) (fun s => forallb (rec s) l)
        && optb (oa_max_items at_) (fun m => len_N l <=? m)
        && optb (oa_min_items at_) (fun m => m <=? len_N l)
        && (if oa_unique_items at_ then json_nodup l else true)
    | _ => false
    end.

  Definition valid_otype (rec : oschema -> json -> bool) (t : otype oschema) (j : json) : bool :=
    match t with
    | OTString st => valid_ostring st j
    | OTNumber nt => valid_onumber nt j
    | OTInteger it => valid_ointeger it j
    | OTObject ot => valid_oobject rec ot j
    | OTArray at_ => valid_oarray rec at_ j
    | OTBoolean en => valid_oboolean en j
    end.

  Definition valid_okind (rec : oschema -> json -> bool) (k : okind oschema) (j : json) : bool :=
    match k with
    | KType t => valid_otype rec t j
    | KOneOf l => Nat.eqb (count_true (fun s => rec s j) l) 1
    | KAllOf l => forallb (fun s => rec s j) l
    | KAnyOf l => existsb (fun s => rec s j) l
    | KNot a => negb (rec a j)
    | KAny => true
    end.

  Fixpoint valid_oas (o : oschema) (j : json) {struct o} : bool :=
    match o with
    | ORef r => env r j
    | OItem d k => (sd_nullable d && is_null j) || valid_okind valid_oas k j
    end.

End Sem.
