(* RefClosure.v — model of [ReferenceVisitor] (schema_util.rs), which gathers
   the definitions a parameter / header / error schema depends on: whenever a
   visited schema mentions a reference whose name is not yet among the
   dependencies, the definition is looked up in the generator (panic "invalid
   reference" if absent), entered — first as a placeholder, so that recursive
   types terminate — and visited in turn.  A schema is abstracted to the list
   of reference names occurring in it; the generator's definitions to a map
   name -> names referenced by that definition.  The depth-first order of the
   Rust visitor is kept (the worklist is a stack).  Model and proofs. *)
From DS Require Import Base.

Definition defmap := list (str * list str).
Fixpoint refs_of (d : defmap) (n : str) : option (list str) :=
  match d with
  | [] => None
  | (k, rs) :: d' => if str_eqb n k then Some rs else refs_of d' n
  end.

Inductive cerr := CE_invalid_ref (n : str) | CE_fuel.

Fixpoint visit (fuel : nat) (d : defmap) : list str -> list str -> res cerr (list str) :=
  fix go (deps todo : list str) : res cerr (list str) :=
    match todo with
    | [] => Ok deps
    | n :: t =>
        if mem_str n deps then go deps t
        else match fuel with
             | O => Err CE_fuel
             | S f =>
                 match refs_of d n with
                 | None => Err (CE_invalid_ref n)
                 | Some rs => visit f d (n :: deps) (rs ++ t)
                 end
             end
    end.

(* the dependencies of a schema that mentions [roots] *)
Definition dependencies (d : defmap) (roots : list str) : res cerr (list str) :=
  visit (length d) d [] roots.

(* ---------------------------------------------------------------------- *)

Definition closed_mod (d : defmap) (deps todo : list str) : Prop :=
  forall n rs m, In n deps -> refs_of d n = Some rs -> In m rs -> In m deps \/ In m todo.

Inductive reach (d : defmap) (roots : list str) : str -> Prop :=
| reach_root n : In n roots -> reach d roots n
| reach_step n rs m : reach d roots n -> refs_of d n = Some rs -> In m rs -> reach d roots m.

Lemma visit_unfold_skip fuel d deps n t :
  mem_str n deps = true -> visit fuel d deps (n :: t) = visit fuel d deps t.
Proof. intros H. destruct fuel; cbn; rewrite H; reflexivity. Qed.

Lemma visit_nil fuel d deps : visit fuel d deps [] = Ok deps.
Proof. destruct fuel; reflexivity. Qed.

Definition visit_post (d : defmap) (deps todo out : list str) : Prop :=
  incl deps out /\ incl todo out /\
  (closed_mod d deps todo -> closed_mod d out []) /\
  (forall roots, (forall n, In n deps -> reach d roots n) -> (forall n, In n todo -> reach d roots n) ->
                 forall n, In n out -> reach d roots n) /\
  (forall n, In n out -> In n deps \/ refs_of d n <> None).

Lemma post_nil d deps : visit_post d deps [] deps.
Proof.
  unfold visit_post. split; [apply incl_refl|]. split; [intros x []|]. split; [auto|]. split; auto.
Qed.

Lemma post_skip d deps n t out :
  In n deps -> visit_post d deps t out -> visit_post d deps (n :: t) out.
Proof.
  intros Hm (H1 & H2 & H3 & H4 & H5). unfold visit_post. split; [exact H1|]. split; [|split; [|split]].
  - intros x [<-|Hx]; auto.
  - intros Hc. apply H3. intros a rs m Ha Hr Hin. destruct (Hc a rs m Ha Hr Hin) as [|[<-|]]; auto.
  - intros roots Hd Ht. apply H4; auto. intros x Hx. apply Ht; right; auto.
  - exact H5.
Qed.

Lemma post_insert d deps n rs t out :
  refs_of d n = Some rs -> visit_post d (n :: deps) (rs ++ t) out -> visit_post d deps (n :: t) out.
Proof.
  intros Hr (H1 & H2 & H3 & H4 & H5). unfold visit_post. split; [|split; [|split; [|split]]].
  - intros x Hx. apply H1; right; auto.
  - intros x [<-|Hx]; [apply H1; left; reflexivity|apply H2; apply in_app_iff; auto].
  - intros Hc. apply H3. intros a rs' m [<-|Ha] Hr' Hin.
    + rewrite Hr in Hr'. injection Hr' as <-. right. apply in_app_iff; auto.
    + destruct (Hc a rs' m Ha Hr' Hin) as [Hm|[<-|Hm]].
      * left; right; exact Hm.
      * left; left; reflexivity.
      * right. apply in_app_iff; auto.
  - intros roots Hd Ht. apply H4.
    + intros x [<-|Hx]; auto. apply Ht; left; reflexivity.
    + intros x Hx. apply in_app_iff in Hx. destruct Hx as [Hx|Hx].
      * eapply reach_step; [apply Ht; left; reflexivity|exact Hr|exact Hx].
      * apply Ht; right; auto.
  - intros x Hx. destruct (H5 x Hx) as [[<-|Hd]|Hn]; auto. right. congruence.
Qed.

Lemma visit_spec fuel : forall d deps todo out,
  visit fuel d deps todo = Ok out -> visit_post d deps todo out.
Proof.
  induction fuel as [|f IHf]; intros d deps todo; revert deps;
    induction todo as [|n t IHt]; intros deps out H.
  - rewrite visit_nil in H. injection H as <-. apply post_nil.
  - cbn in H. destruct (mem_str n deps) eqn:Hm; [|discriminate].
    change (visit 0 d deps t = Ok out) in H. apply post_skip; [apply mem_str_In; exact Hm|auto].
  - rewrite visit_nil in H. injection H as <-. apply post_nil.
  - cbn in H. destruct (mem_str n deps) eqn:Hm.
    + change (visit (S f) d deps t = Ok out) in H. apply post_skip; [apply mem_str_In; exact Hm|auto].
    + destruct (refs_of d n) as [rs|] eqn:Hr; [|discriminate].
      eapply post_insert; eauto.
Qed.

(* C06: what the visitor gathers is closed under references — every name a
   gathered definition mentions is gathered too — contains every reference of
   the schema itself, and contains nothing that is not reachable from it *)
Theorem dependencies_closed d roots out :
  dependencies d roots = Ok out ->
  incl roots out /\
  (forall n rs m, In n out -> refs_of d n = Some rs -> In m rs -> In m out) /\
  (forall n, In n out -> reach d roots n) /\
  (forall n, In n out -> refs_of d n <> None).
Proof.
  intros H. destruct (visit_spec _ _ _ _ _ H) as (_ & H2 & H3 & H4 & H5).
  split; [exact H2|]. split; [|split].
  - intros n rs m Hn Hr Hm.
    assert (Hc : closed_mod d [] roots) by (intros a rs' b []).
    destruct (H3 Hc n rs m Hn Hr Hm) as [|[]]; auto.
  - apply H4; [intros n []|]. intros n Hn. apply reach_root; exact Hn.
  - intros n Hn. destruct (H5 n Hn) as [[]|]; auto.
Qed.

(* the panic is exactly a reference to a name the generator does not define *)
Theorem dependencies_invalid_ref d roots n :
  dependencies d roots = Err (CE_invalid_ref n) -> reach d roots n /\ refs_of d n = None.
Proof.
  unfold dependencies. generalize (length d) as fuel. intros fuel.
  assert (G : forall fuel deps todo,
             visit fuel d deps todo = Err (CE_invalid_ref n) ->
             (forall x, In x deps -> reach d roots x) -> (forall x, In x todo -> reach d roots x) ->
             reach d roots n /\ refs_of d n = None).
  { clear. induction fuel as [|f IHf]; intros deps todo; revert deps;
      induction todo as [|a t IHt]; intros deps H Hd Ht.
    - rewrite visit_nil in H. discriminate.
    - cbn in H. destruct (mem_str a deps); [|discriminate].
      change (visit 0 d deps t = Err (CE_invalid_ref n)) in H. apply (IHt deps H Hd). intros x Hx; apply Ht; right; auto.
    - rewrite visit_nil in H. discriminate.
    - cbn in H. destruct (mem_str a deps).
      + change (visit (S f) d deps t = Err (CE_invalid_ref n)) in H. apply (IHt deps H Hd). intros x Hx; apply Ht; right; auto.
      + destruct (refs_of d a) as [rs|] eqn:Hr.
        * apply (IHf (a :: deps) (rs ++ t) H).
          -- intros x [<-|Hx]; auto. apply Ht; left; reflexivity.
          -- intros x Hx. apply in_app_iff in Hx. destruct Hx as [Hx|Hx].
             ++ eapply reach_step; [apply Ht; left; reflexivity|exact Hr|exact Hx].
             ++ apply Ht; right; auto.
        * injection H as <-. split; [apply Ht; left; reflexivity|exact Hr]. }
  intros H. apply (G fuel [] roots H); [intros x []|]. intros x Hx. apply reach_root; exact Hx.
Qed.

Example dependencies_ex :
  dependencies [([65], [[66]; [67]]); ([66], [[65]]); ([67], []); ([68], [[69]])] [[65]]
  = Ok [[67]; [66]; [65]].
Proof. reflexivity. Qed.
