(* TaskModeProofs.v — every trace the task-mode model accepts satisfies C16. *)
From DS Require Import Base TaskMode.

(* ---------- the finite map ---------- *)

Lemma lookup_set_same st q r : lookup (set st q r) q = r.
Proof.
  induction st as [|[q' r'] st IH]; cbn [set lookup].
  - now rewrite N.eqb_refl.
  - destruct (N.eqb_spec q q') as [->|Hne]; cbn [lookup].
    + now rewrite N.eqb_refl.
    + destruct (N.eqb_spec q q'); [contradiction|exact IH].
Qed.

Lemma lookup_set_other st q r q' : q' <> q -> lookup (set st q r) q' = lookup st q'.
Proof.
  intros Hne; induction st as [|[q1 r1] st IH]; cbn [set lookup].
  - destruct (N.eqb_spec q' q); [contradiction|reflexivity].
  - destruct (N.eqb_spec q q1) as [->|Hq]; cbn [lookup].
    + destruct (N.eqb_spec q' q1); [contradiction|reflexivity].
    + destruct (N.eqb_spec q' q1); [reflexivity|exact IH].
Qed.

(* ---------- runs ---------- *)

Lemma run_app m t1 : forall st t2,
  run m st (t1 ++ t2) = match run m st t1 with Some s => run m s t2 | None => None end.
Proof.
  induction t1 as [|e t1 IH]; intros st t2; cbn [run app]; [reflexivity|].
  destruct (step m st e); [apply IH|reflexivity].
Qed.

Lemma run_snoc m st t e :
  run m st (t ++ [e]) = match run m st t with Some s => step m s e | None => None end.
Proof.
  rewrite run_app. destruct (run m st t); [|reflexivity].
  cbn [run]. now destruct (step m s e).
Qed.

(* a step touches the record of its own request only *)
Lemma step_frame m st e st' q :
  step m st e = Some st' -> q <> ev_req e -> lookup st' q = lookup st q.
Proof.
  unfold step. destruct (step_rq m (lookup st (ev_req e)) e); [|discriminate].
  intros [= <-] Hne. now apply lookup_set_other.
Qed.

Lemma step_own m st e st' :
  step m st e = Some st' -> step_rq m (lookup st (ev_req e)) e = Some (lookup st' (ev_req e)).
Proof.
  unfold step. destruct (step_rq m (lookup st (ev_req e)) e); [|discriminate].
  intros [= <-]. now rewrite lookup_set_same.
Qed.

(* whether a step of request q' is enabled depends on q's record only *)
Lemma step_enabled_frame m st st' e :
  lookup st' (ev_req e) = lookup st (ev_req e) ->
  (step m st' e = None <-> step m st e = None).
Proof.
  unfold step. intros ->. destruct (step_rq m (lookup st (ev_req e)) e); split; congruence.
Qed.

(* ---------- counting ---------- *)

Lemma count_app e t1 t2 : count e (t1 ++ t2) = count e t1 + count e t2.
Proof. induction t1 as [|x t1 IH]; cbn [count app]; [lia|rewrite IH; lia]. Qed.

Lemma count_snoc e t x : count e (t ++ [x]) = count e t + (if ev_eqb e x then 1 else 0).
Proof. rewrite count_app. cbn [count]. lia. Qed.

Lemma ev_eqb_eq a b : ev_eqb a b = true <-> a = b.
Proof.
  destruct a, b; cbn [ev_eqb]; try (split; [discriminate|congruence]);
    rewrite N.eqb_eq; split; congruence.
Qed.

Lemma ev_eqb_req a b : ev_eqb a b = true -> ev_req a = ev_req b.
Proof. intros H; apply ev_eqb_eq in H; now subst. Qed.

Lemma count_pos_In e t : 0 < count e t <-> In e t.
Proof.
  induction t as [|x t IH]; cbn [count In]; [split; [lia|tauto]|].
  destruct (ev_eqb e x) eqn:E.
  - apply ev_eqb_eq in E; subst. split; [auto|lia].
  - split.
    + intros H. right. apply IH. lia.
    + intros [->|H]; [|apply IH in H; lia].
      assert (ev_eqb e e = true) by now apply ev_eqb_eq. congruence.
Qed.

Lemma count_zero_notIn e t : count e t = 0 <-> ~ In e t.
Proof. rewrite <- count_pos_In. lia. Qed.

(* ---------- the invariant: the record of q is determined by what the trace
   contains about q ---------- *)

Definition inv (m : mode) (t : list ev) (r : rq) (q : N) : Prop :=
  (match rh r with
   | NotStarted => count (Start q) t = 0 /\ count (Finish q) t = 0 /\ count (Panic q) t = 0
                   /\ count (Tick q) t = 0
   | Running k => count (Start q) t = 1 /\ count (Finish q) t = 0 /\ count (Panic q) t = 0
                  /\ count (Tick q) t = k
   | Completed => count (Start q) t = 1 /\ count (Finish q) t = 1 /\ count (Panic q) t = 0
   | Cancelled => count (Start q) t = 1 /\ count (Finish q) t = 0 /\ count (Panic q) t = 0
                  /\ m = CancelOnDisconnect /\ rdet r = true
   | Panicked => count (Start q) t = 1 /\ count (Finish q) t = 0 /\ count (Panic q) t = 1
   end) /\
  (count (Detect q) t = if rdet r then 1 else 0) /\
  (count (Disconnect q) t = match rc r with Gone => 1 | Open => 0 end) /\
  (count (Deliver q) t = match rr r with Delivered => 1 | _ => 0 end) /\
  (rdet r = true -> rc r = Gone) /\
  (rr r = Delivered -> rh r = Completed) /\
  (rr r = Dropped -> rdet r = true \/ rh r = Panicked) /\
  (m = CancelOnDisconnect -> rdet r = true -> is_running (rh r) = false).

Lemma inv_init m q : inv m [] rq0 q.
Proof. unfold inv; cbn. intuition discriminate. Qed.

Lemma inv_other m t r q e : inv m t r q -> ev_req e <> q -> inv m (t ++ [e]) r q.
Proof.
  intros H Hne. unfold inv in *. rewrite !count_snoc.
  assert (F : forall a, ev_req a = q -> ev_eqb a e = false).
  { intros a Ha. destruct (ev_eqb a e) eqn:E; [|reflexivity].
    apply ev_eqb_req in E. congruence. }
  rewrite (F (Start q)), (F (Finish q)), (F (Panic q)), (F (Tick q)), (F (Detect q)),
    (F (Disconnect q)), (F (Deliver q)) by reflexivity.
  rewrite !N.add_0_r. exact H.
Qed.

Lemma inv_step m t r r' e :
  inv m t r (ev_req e) -> step_rq m r e = Some r' -> inv m (t ++ [e]) r' (ev_req e).
Proof.
  intros H Hs. unfold inv in *. rewrite !count_snoc.
  destruct r as [h c x d].
  destruct e as [q|q|q|q|q|q|q]; cbn [ev_req ev_eqb] in *; rewrite ?N.eqb_refl;
    cbn [step_rq rh rc rr rdet alive] in Hs;
    destruct h as [|k| | |], c, x, d, m; cbn [negb] in Hs; try discriminate Hs;
    injection Hs as <-; cbn [rh rc rr rdet is_running] in *;
    intuition (try discriminate; try congruence; try lia).
Qed.

Theorem run_inv m : forall t st, run m init t = Some st -> forall q, inv m t (lookup st q) q.
Proof.
  induction t as [|e t IH] using rev_ind; intros st Hr q.
  - injection Hr as <-. apply inv_init.
  - rewrite run_snoc in Hr. destruct (run m init t) as [s|] eqn:Hs; [|discriminate].
    specialize (IH s eq_refl).
    destruct (N.eq_dec q (ev_req e)) as [->|Hne].
    + apply inv_step with (r := lookup s (ev_req e)); [apply IH|now apply step_own].
    + rewrite (step_frame _ _ _ _ _ Hr Hne). apply inv_other; [apply IH|congruence].
Qed.

(* ---------- absorbing terminal states, monotone flags ---------- *)

Lemma step_rq_terminal m r e r' :
  step_rq m r e = Some r' -> terminal (rh r) = true -> rh r' = rh r.
Proof.
  destruct r as [h c x d]; destruct e; cbn [step_rq rh rc rr rdet];
    destruct h, c, x, d, m; cbn; intros Hs Ht; try discriminate; now injection Hs as <-.
Qed.

Lemma step_rq_det m r e r' : step_rq m r e = Some r' -> rdet r = true -> rdet r' = true.
Proof.
  destruct r as [h c x d]; destruct e; cbn [step_rq rh rc rr rdet];
    destruct h, c, x, d, m; cbn; intros Hs Ht; try discriminate; now injection Hs as <-.
Qed.

Lemma run_preserves (P : rq -> Prop) m q :
  (forall r e r', step_rq m r e = Some r' -> P r -> P r') ->
  forall t st st', run m st t = Some st' -> P (lookup st q) -> P (lookup st' q).
Proof.
  intros HP. induction t as [|e t IH]; intros st st' Hr H0; cbn [run] in Hr.
  - now injection Hr as <-.
  - destruct (step m st e) as [s|] eqn:Hs; [|discriminate].
    apply (IH s st' Hr).
    destruct (N.eq_dec q (ev_req e)) as [->|Hne].
    + apply step_own in Hs. eapply HP; eauto.
    + now rewrite (step_frame _ _ _ _ _ Hs Hne).
Qed.

(* terminal states are absorbing *)
Theorem terminal_absorbing m q t st st' :
  run m st t = Some st' -> terminal (rh (lookup st q)) = true ->
  rh (lookup st' q) = rh (lookup st q).
Proof.
  intros Hr Ht.
  apply (run_preserves (fun r => rh r = rh (lookup st q)) m q) with (t := t) (st := st);
    [|exact Hr|reflexivity].
  intros r e r' Hs Hh. rewrite <- Hh. apply (step_rq_terminal _ _ _ _ Hs). now rewrite Hh.
Qed.

Lemma det_monotone m q t st st' :
  run m st t = Some st' -> rdet (lookup st q) = true -> rdet (lookup st' q) = true.
Proof.
  intros Hr. apply (run_preserves (fun r => rdet r = true) m q) with (t := t); [|exact Hr].
  intros r e r'. apply step_rq_det.
Qed.

(* an event of an accepted trace was enabled where it stands *)
Lemma run_In_split m e : forall t st st',
  run m st t = Some st' -> In e t ->
  exists a b s1 s2, t = a ++ e :: b /\ run m st a = Some s1 /\ step m s1 e = Some s2.
Proof.
  induction t as [|x t IH]; intros st st' Hr Hin; [contradiction|].
  cbn [run] in Hr. destruct (step m st x) as [s|] eqn:Hs; [|discriminate].
  destruct Hin as [->|Hin].
  - exists [], t, st, s. repeat split; auto.
  - destruct (IH s st' Hr Hin) as (a & b & s1 & s2 & -> & Ha & Hb).
    exists (x :: a), b, s1, s2. repeat split; auto. cbn [run]. now rewrite Hs.
Qed.

(* ---------- 1. detached_runs_once ---------- *)

Theorem detached_never_cancelled t st q :
  run Detached init t = Some st -> rh (lookup st q) <> Cancelled.
Proof.
  intros Hr Hc. destruct (run_inv _ _ _ Hr q) as (H & _). rewrite Hc in H.
  destruct H as (_ & _ & _ & Hm & _). discriminate.
Qed.

Theorem at_most_one_end m t st q :
  run m init t = Some st -> count (Finish q) t + count (Panic q) t <= 1.
Proof.
  intros Hr. destruct (run_inv _ _ _ Hr q) as (H & _).
  destruct (rh (lookup st q)); lia.
Qed.

Theorem detached_runs_once t st q :
  run Detached init t = Some st -> In (Start q) t ->
  is_running (rh (lookup st q)) = false ->
  count (Finish q) t + count (Panic q) t = 1.
Proof.
  intros Hr Hin Hq. destruct (run_inv _ _ _ Hr q) as (H & _).
  apply count_pos_In in Hin.
  destruct (rh (lookup st q)) eqn:E; cbn in Hq; try discriminate; try lia.
  destruct H as (_ & _ & _ & Hm & _). discriminate.
Qed.

(* a running detached handler can always finish: nothing a client does
   disables it (so a trace that leaves it running is not maximal) *)
Theorem detached_progress st q k :
  rh (lookup st q) = Running k -> exists st', step Detached st (Finish q) = Some st'.
Proof.
  intros H. unfold step. cbn [ev_req step_rq]. rewrite H. cbn [alive]. eauto.
Qed.

(* ---------- 2. cancel_stops ---------- *)

Lemma cancel_dead_disabled st q e :
  rdet (lookup st q) = true -> ev_req e = q ->
  match e with Start _ | Tick _ | Finish _ | Panic _ => True | _ => False end ->
  step CancelOnDisconnect st e = None.
Proof.
  intros Hd Hq He. unfold step. rewrite Hq.
  destruct e; try contradiction; cbn [step_rq alive]; rewrite Hd; cbn [negb];
    now destruct (rh (lookup st q)).
Qed.

Theorem cancel_stops t1 t2 st q e :
  run CancelOnDisconnect init (t1 ++ Detect q :: t2) = Some st ->
  ev_req e = q ->
  match e with Start _ | Tick _ | Finish _ | Panic _ => True | _ => False end ->
  ~ In e t2.
Proof.
  intros Hr Hq He Hin.
  rewrite run_app in Hr. destruct (run CancelOnDisconnect init t1) as [s1|]; [|discriminate].
  cbn [run] in Hr. destruct (step CancelOnDisconnect s1 (Detect q)) as [s2|] eqn:Hd; [|discriminate].
  assert (D2 : rdet (lookup s2 q) = true).
  { apply step_own in Hd. cbn [ev_req] in Hd. cbn [step_rq] in Hd.
    destruct (rc (lookup s1 q)), (rdet (lookup s1 q)); try discriminate.
    injection Hd as Hd. now rewrite <- Hd. }
  destruct (run_In_split _ _ _ _ _ Hr Hin) as (a & b & s3 & s4 & -> & Ha & Hs).
  pose proof (det_monotone _ q _ _ _ Ha D2) as D3.
  rewrite (cancel_dead_disabled s3 q e D3 Hq He) in Hs. discriminate.
Qed.

(* the step [Detect] of a running handler is its cancellation *)
Theorem cancel_detect_cancels st st' q k :
  rh (lookup st q) = Running k -> step CancelOnDisconnect st (Detect q) = Some st' ->
  rh (lookup st' q) = Cancelled.
Proof.
  intros Hh Hs. apply step_own in Hs. cbn [ev_req step_rq] in Hs. rewrite Hh in Hs.
  destruct (rc (lookup st q)), (rdet (lookup st q)); try discriminate.
  injection Hs as Hs. now rewrite <- Hs.
Qed.

(* ---------- 3. exactly_one_end ---------- *)

Theorem exactly_one_end m t st q :
  run m init t = Some st -> In (Start q) t ->
  (exists k, rh (lookup st q) = Running k /\ count (Tick q) t = k /\
             count (Finish q) t = 0 /\ count (Panic q) t = 0) \/
  (rh (lookup st q) = Completed /\ count (Finish q) t = 1 /\ count (Panic q) t = 0) \/
  (rh (lookup st q) = Cancelled /\ count (Finish q) t = 0 /\ count (Panic q) t = 0 /\
   m = CancelOnDisconnect /\ In (Detect q) t) \/
  (rh (lookup st q) = Panicked /\ count (Finish q) t = 0 /\ count (Panic q) t = 1).
Proof.
  intros Hr Hin. destruct (run_inv _ _ _ Hr q) as (H & Hdet & _).
  apply count_pos_In in Hin.
  destruct (rh (lookup st q)) eqn:E.
  - lia.
  - left. exists k. intuition.
  - right; left. intuition.
  - right; right; left. destruct H as (? & ? & ? & ? & Hd). rewrite Hd in Hdet.
    repeat split; auto. apply count_pos_In. lia.
  - right; right; right. intuition.
Qed.

Theorem start_at_most_once m t st q :
  run m init t = Some st -> count (Start q) t <= 1.
Proof.
  intros Hr. destruct (run_inv _ _ _ Hr q) as (H & _).
  destruct (rh (lookup st q)); lia.
Qed.

(* ---------- 4. panic_is_local ---------- *)

Theorem panic_is_local m st st' q q' :
  step m st (Panic q) = Some st' -> q' <> q -> lookup st' q' = lookup st q'.
Proof. intros Hs Hne. exact (step_frame _ _ _ _ _ Hs Hne). Qed.

Theorem panic_keeps_others_enabled m st st' q e :
  step m st (Panic q) = Some st' -> ev_req e <> q ->
  (step m st' e = None <-> step m st e = None).
Proof.
  intros Hs Hne. apply step_enabled_frame. exact (step_frame _ _ _ _ _ Hs Hne).
Qed.

(* ---------- 5. connected_clients_served ---------- *)

Lemma quiescent_lookup st q : quiescent st = true -> rq_quiescent (lookup st q) = true.
Proof.
  unfold quiescent. induction st as [|[q' r] st IH]; cbn [forallb lookup snd]; [reflexivity|].
  intros H. apply andb_true_iff in H as [H1 H2].
  destruct (q =? q'); auto.
Qed.

Theorem connected_never_cancelled m t st q :
  run m init t = Some st -> ~ In (Disconnect q) t ->
  rh (lookup st q) <> Cancelled /\ rdet (lookup st q) = false /\
  (rr (lookup st q) = Dropped -> rh (lookup st q) = Panicked).
Proof.
  intros Hr Hno. destruct (run_inv _ _ _ Hr q) as (H & _ & Hc & _ & Hdg & _ & Hdr & _).
  apply count_zero_notIn in Hno. rewrite Hno in Hc.
  assert (Hd : rdet (lookup st q) = false).
  { destruct (rdet (lookup st q)); [|reflexivity]. rewrite Hdg in Hc by reflexivity. lia. }
  repeat split; auto.
  - intros E. rewrite E in H. destruct H as (_ & _ & _ & _ & Hx). congruence.
  - intros E. destruct (Hdr E); [congruence|assumption].
Qed.

Theorem connected_clients_served m t st q :
  run m init t = Some st -> ~ In (Disconnect q) t -> In (Finish q) t ->
  rq_quiescent (lookup st q) = true -> In (Deliver q) t.
Proof.
  intros Hr Hno Hf Hq.
  destruct (connected_never_cancelled _ _ _ _ Hr Hno) as (_ & Hd & Hdr).
  destruct (run_inv _ _ _ Hr q) as (H & _ & _ & Hdl & _).
  apply count_pos_In in Hf. apply count_pos_In.
  destruct (rh (lookup st q)) eqn:E; try lia.
  unfold rq_quiescent in Hq. rewrite E, Hd in Hq. cbn in Hq.
  destruct (rr (lookup st q)) eqn:R; try discriminate; try lia.
  specialize (Hdr eq_refl). discriminate.
Qed.

(* a running handler whose client stays connected can always finish, in
   either mode *)
Theorem connected_progress m t st q k :
  run m init t = Some st -> ~ In (Disconnect q) t -> rh (lookup st q) = Running k ->
  exists st', step m st (Finish q) = Some st'.
Proof.
  intros Hr Hno Hh. destruct (connected_never_cancelled _ _ _ _ Hr Hno) as (_ & Hd & _).
  unfold step. cbn [ev_req step_rq]. rewrite Hh. destruct m; cbn [alive]; rewrite ?Hd; cbn; eauto.
Qed.

(* a response is delivered at most once, and only for a completed handler *)
Theorem deliver_once m t st q :
  run m init t = Some st -> count (Deliver q) t <= 1 /\
  (In (Deliver q) t -> rh (lookup st q) = Completed /\ In (Finish q) t).
Proof.
  intros Hr. destruct (run_inv _ _ _ Hr q) as (H & _ & _ & Hdl & _ & Hdv & _).
  split; [destruct (rr (lookup st q)); lia|].
  intros Hin. apply count_pos_In in Hin.
  destruct (rr (lookup st q)) eqn:R; try lia.
  pose proof (Hdv eq_refl) as Hc. split; [exact Hc|].
  rewrite Hc in H. apply count_pos_In. lia.
Qed.

(* ---------- observed traces: the labels they stand for are an accepted trace ---------- *)

Theorem run_obs_sound m : forall os st st' ls,
  run_obs m st os = Some (st', ls) -> run m st ls = Some st'.
Proof.
  induction os as [|o os IH]; intros st st' ls H; cbn [run_obs] in H.
  - injection H as <- <-. reflexivity.
  - destruct (elab m st o) as [l0|]; [|discriminate].
    destruct (run m st l0) as [s1|] eqn:H1; [|discriminate].
    destruct (run_obs m s1 os) as [[s2 l2]|] eqn:H2; [|discriminate].
    injection H as <- <-. rewrite run_app, H1. now apply IH.
Qed.

Theorem replay_obs_sound m os st ls :
  replay_obs m os = Some (st, ls) -> run m init ls = Some st /\ accepts m ls = true.
Proof.
  unfold replay_obs, accepts. destruct (run_obs m init os) as [[s l]|] eqn:H; [|discriminate].
  destruct (run m s (closing m s)) as [s'|] eqn:H2; [|discriminate].
  intros [= <- <-]. apply run_obs_sound in H.
  assert (E : run m init (l ++ closing m s) = Some s') by now rewrite run_app, H.
  now rewrite E.
Qed.
