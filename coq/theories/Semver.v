(* Semver.v — executable model of the Rust [semver] crate, version 1.0.26:
   [Version::parse] / [FromStr for Version] (parse.rs), [Display for Version]
   (display.rs) and [Ord for Version] = derived lexicographic order over
   (major, minor, patch, pre, build) with [Ord for Prerelease] and
   [Ord for BuildMetadata] from impls.rs.  Definitions only; the proofs are in
   SemverProofs.v. *)
From DS Require Import Base.

(* ---------- data ---------- *)

(* A pre-release identifier.  The crate stores the whole pre-release as one
   string and never converts numeric identifiers to integers: a numeric
   identifier (all ASCII digits, no leading zero) may have ANY length, and two
   of them are compared by length, then bytewise — which on canonical decimal
   numerals is numeric order ([raw_num_cmp_spec] in SemverProofs.v).  So
   [INum n] carries an unbounded [N]. *)
Inductive ident := INum (n : N) | IAlpha (s : str).

Record version := mkVersion {
  major : N; minor : N; patch : N;
  pre : list ident;      (* [] = no pre-release *)
  build : list str       (* dot-separated build identifiers, raw bytes; [] = none *)
}.

(* ---------- character classes ---------- *)

Definition is_digit (c : N) : bool := (48 <=? c) && (c <=? 57).
Definition is_letter (c : N) : bool :=
  ((65 <=? c) && (c <=? 90)) || ((97 <=? c) && (c <=? 122)).
(* [0-9A-Za-z-] *)
Definition is_ident_char (c : N) : bool := is_digit c || is_letter c || (c =? 45).
(* identifier characters and the separating dot *)
Definition is_seg_char (c : N) : bool := is_ident_char c || (c =? 46).

Definition nonempty {A} (l : list A) : bool :=
  match l with [] => false | _ :: _ => true end.

(* ---------- decimal numerals ---------- *)

Definition u64_max : N := 18446744073709551615.

(* value of a most-significant-first digit string *)
Definition dec_val (ds : str) : N :=
  fold_left (fun acc d => acc * 10 + (d - 48)) ds 0.

(* non-empty and no leading zero (except "0" itself) *)
Definition canon_num (ds : str) : bool :=
  match ds with
  | [] => false
  | d :: r => negb (d =? 48) || negb (nonempty r)
  end.

(* least-significant-first digits; [fuel] bounds the number of digits *)
Fixpoint rdigits (fuel : nat) (n : N) : str :=
  match fuel with
  | O => []
  | S f => (48 + n mod 10) :: (if n <? 10 then [] else rdigits f (n / 10))
  end.

Definition print_N (n : N) : str := rev (rdigits (S (N.to_nat (N.log2 n))) n).

(* ---------- lexing helpers ---------- *)

(* longest prefix satisfying [p], and the rest *)
Fixpoint span (p : N -> bool) (s : str) : str * str :=
  match s with
  | [] => ([], [])
  | c :: s' =>
      if p c then let (a, r) := span p s' in (c :: a, r) else ([], s)
  end.

(* [str::split('.')]: always yields at least one (possibly empty) piece *)
Fixpoint split_dot (s : str) : list str :=
  match s with
  | [] => [[]]
  | c :: s' =>
      if c =? 46 then [] :: split_dot s'
      else match split_dot s' with
           | seg :: segs => (c :: seg) :: segs
           | [] => [[c]]
           end
  end.

Fixpoint join_dot (segs : list str) : str :=
  match segs with
  | [] => []
  | [s] => s
  | s :: rest => s ++ 46 :: join_dot rest
  end.

Fixpoint map_opt {A B} (f : A -> option B) (l : list A) : option (list B) :=
  match l with
  | [] => Some []
  | x :: l' =>
      match f x, map_opt f l' with
      | Some y, Some ys => Some (y :: ys)
      | _, _ => None
      end
  end.

(* ---------- parse.rs ---------- *)

(* [numeric_identifier]: maximal run of digits, non-empty, no leading zero,
   value fits u64.  (The crate checks overflow incrementally; prefixes of a
   numeral are bounded by the numeral, so that is the same condition.) *)
Definition parse_num (s : str) : option (N * str) :=
  let (ds, r) := span is_digit s in
  if canon_num ds && (dec_val ds <=? u64_max) then Some (dec_val ds, r) else None.

(* [dot] *)
Definition expect (c : N) (s : str) : option str :=
  match s with
  | x :: r => if x =? c then Some r else None
  | [] => None
  end.

(* [identifier]: a maximal run of [0-9A-Za-z-] segments separated by single
   dots; every segment must be non-empty (so no leading, trailing or doubled
   dot, and the whole thing is non-empty — the callers in [Version::from_str]
   reject the empty result). *)
Definition parse_segs (s : str) : option (list str * str) :=
  let (body, rest) := span is_seg_char s in
  let segs := split_dot body in
  if forallb nonempty segs then Some (segs, rest) else None.

(* The extra check for [Position::Pre]: an all-digit segment longer than one
   byte must not start with '0'.  No size limit. *)
Definition seg_to_ident (seg : str) : option ident :=
  if forallb is_digit seg
  then if canon_num seg then Some (INum (dec_val seg)) else None
  else Some (IAlpha seg).

Definition parse_pre_opt (s : str) : option (list ident * str) :=
  match s with
  | [] => Some ([], [])
  | c :: r =>
      if c =? 45 then
        match parse_segs r with
        | Some (segs, rest) =>
            match map_opt seg_to_ident segs with
            | Some ids => Some (ids, rest)
            | None => None
            end
        | None => None
        end
      else Some ([], s)
  end.

Definition parse_build_opt (s : str) : option (list str) :=
  match s with
  | [] => Some []
  | c :: r =>
      if c =? 43 then
        match parse_segs r with
        | Some (segs, []) => Some segs
        | _ => None
        end
      else None
  end.

Definition parse (s : str) : option version :=
  match parse_num s with
  | None => None
  | Some (ma, s1) =>
  match expect 46 s1 with
  | None => None
  | Some s2 =>
  match parse_num s2 with
  | None => None
  | Some (mi, s3) =>
  match expect 46 s3 with
  | None => None
  | Some s4 =>
  match parse_num s4 with
  | None => None
  | Some (pa, s5) =>
  match parse_pre_opt s5 with
  | None => None
  | Some (p, s6) =>
  match parse_build_opt s6 with
  | None => None
  | Some b => Some (mkVersion ma mi pa p b)
  end end end end end end end.

(* ---------- display.rs ---------- *)

Definition print_ident (i : ident) : str :=
  match i with INum n => print_N n | IAlpha s => s end.

Definition print_pre (p : list ident) : str :=
  match p with [] => [] | _ => 45 :: join_dot (map print_ident p) end.

Definition print_build (b : list str) : str :=
  match b with [] => [] | _ => 43 :: join_dot b end.

Definition print (v : version) : str :=
  print_N (major v) ++ 46 :: print_N (minor v) ++ 46 :: print_N (patch v)
    ++ print_pre (pre v) ++ print_build (build v).

(* ---------- well-formed values (the range of [parse]) ---------- *)

Definition wf_ident (i : ident) : bool :=
  match i with
  | INum _ => true
  | IAlpha s => nonempty s && forallb is_ident_char s && negb (forallb is_digit s)
  end.

Definition wf_seg (s : str) : bool := nonempty s && forallb is_ident_char s.

Definition wf_version (v : version) : bool :=
  (major v <=? u64_max) && (minor v <=? u64_max) && (patch v <=? u64_max)
  && forallb wf_ident (pre v) && forallb wf_seg (build v).

(* ---------- impls.rs: ordering ---------- *)

(* [Ordering::then_with] *)
Definition then_cmp (c d : comparison) : comparison :=
  match c with Eq => d | _ => c end.

(* Walk both lists; first difference decides; a proper prefix is smaller. *)
Fixpoint lex_cmp {A} (c : A -> A -> comparison) (a b : list A) : comparison :=
  match a, b with
  | [], [] => Eq
  | [], _ :: _ => Lt
  | _ :: _, [] => Gt
  | x :: a', y :: b' => then_cmp (c x y) (lex_cmp c a' b')
  end.

(* One pre-release identifier against another: numeric < alphanumeric,
   numeric numerically, alphanumeric bytewise. *)
Definition ident_cmp (a b : ident) : comparison :=
  match a, b with
  | INum n, INum m => n ?= m
  | INum _, IAlpha _ => Lt
  | IAlpha _, INum _ => Gt
  | IAlpha s, IAlpha t => str_cmp s t
  end.

(* [Ord for Prerelease]: the empty pre-release (a real release) is the
   maximum; otherwise identifier-wise. *)
Definition pre_cmp (a b : list ident) : comparison :=
  match a, b with
  | [], [] => Eq
  | [], _ :: _ => Gt
  | _ :: _, [] => Lt
  | _, _ => lex_cmp ident_cmp a b
  end.

(* [trim_start_matches('0')] *)
Fixpoint trim0 (s : str) : str :=
  match s with
  | c :: s' => if c =? 48 then trim0 s' else s
  | [] => []
  end.

(* Two all-digit build identifiers: by value (length of the zero-trimmed
   numeral, then its bytes), ties broken by total length, i.e. by the number
   of leading zeros:  0 < 00 < 1 < 01 < 001 < 2 < 02 < 002 < 10. *)
Definition num_seg_cmp (a b : str) : comparison :=
  then_cmp (Nat.compare (length (trim0 a)) (length (trim0 b)))
    (then_cmp (str_cmp (trim0 a) (trim0 b))
       (Nat.compare (length a) (length b))).

Definition seg_cmp (a b : str) : comparison :=
  match forallb is_digit a, forallb is_digit b with
  | true, true => num_seg_cmp a b
  | true, false => Lt
  | false, true => Gt
  | false, false => str_cmp a b
  end.

(* [Ord for BuildMetadata].  The crate iterates [as_str().split('.')], which
   for the EMPTY build yields the single piece "" (all-digit, vacuously); that
   piece is below every non-empty piece, so on well-formed values this is the
   same as treating the empty build as the empty list
   ([build_cmp_rust_view] in SemverProofs.v). *)
Definition build_cmp (a b : list str) : comparison := lex_cmp seg_cmp a b.

(* derived [Ord for Version] *)
Definition cmp (a b : version) : comparison :=
  then_cmp (major a ?= major b)
    (then_cmp (minor a ?= minor b)
       (then_cmp (patch a ?= patch b)
          (then_cmp (pre_cmp (pre a) (pre b))
             (build_cmp (build a) (build b))))).

(* [Version::cmp_precedence] = semver.org precedence: build ignored *)
Definition prec_cmp (a b : version) : comparison :=
  then_cmp (major a ?= major b)
    (then_cmp (minor a ?= minor b)
       (then_cmp (patch a ?= patch b)
          (pre_cmp (pre a) (pre b)))).

Definition same_precedence (a b : version) : Prop :=
  major a = major b /\ minor a = minor b /\ patch a = patch b /\ pre a = pre b.

(* 0.0.0-0 : the least version *)
Definition bot : version := mkVersion 0 0 0 [INum 0] [].

(* ---------- the crate's own view of the two string-level comparisons ----------
   Used only to state, in SemverProofs.v, that the structured model above
   agrees with what impls.rs literally computes on the stored strings. *)

(* numeric pre-release identifiers: [len().cmp().then_with(string_cmp)] *)
Definition raw_num_cmp (a b : str) : comparison :=
  then_cmp (Nat.compare (length a) (length b)) (str_cmp a b).

(* one pre-release piece against another, on the raw strings *)
Definition raw_pre_seg_cmp (a b : str) : comparison :=
  match forallb is_digit a, forallb is_digit b with
  | true, true => raw_num_cmp a b
  | true, false => Lt
  | false, true => Gt
  | false, false => str_cmp a b
  end.

(* [as_str().split('.')] of a build given as a list of pieces *)
Definition rust_build_pieces (b : list str) : list str :=
  match b with [] => [[]] | _ => b end.
