(* ErrorsProofs.v — lemmas about Errors.v (property C13). *)
From Coq Require Import String FinFun.
From DS Require Import Base Response ResponseProofs Errors.

Ltac bdestr :=
  repeat (cbn [andb orb negb]; cbv beta iota;
          match goal with
          | |- context [?a <=? ?b] => destruct (N.leb_spec a b)
          | |- context [?a <? ?b] => destruct (N.ltb_spec a b)
          | |- context [?a =? ?b] => destruct (N.eqb_spec a b)
          end);
  cbn [andb orb negb]; cbv beta iota.

(* ---------- 1. the status refinement types ---------- *)

Lemma status_from_u16_spec c :
  (100 <= c <= 999 -> status_from_u16 c = Ok c) /\
  (~ 100 <= c <= 999 -> status_from_u16 c = Err InvalidStatus).
Proof.
  unfold status_from_u16. bdestr; cbn [andb negb]; split; intros; try lia; reflexivity.
Qed.

Lemma err_from_status_ok_iff s : is_ok (err_from_status s) = true <-> 400 <= s <= 599.
Proof.
  unfold err_from_status, is_client_error, is_server_error.
  bdestr; cbn [andb orb is_ok]; split; intros; try lia; try discriminate; reflexivity.
Qed.

Lemma client_from_status_ok_iff s : is_ok (client_from_status s) = true <-> 400 <= s <= 499.
Proof.
  unfold client_from_status, is_client_error.
  bdestr; cbn [andb orb is_ok]; split; intros; try lia; try discriminate; reflexivity.
Qed.

Lemma err_from_status_value s x : err_from_status s = Ok x -> x = s.
Proof.
  unfold err_from_status. destruct (is_client_error s || is_server_error s); congruence.
Qed.

Lemma client_from_status_value s x : client_from_status s = Ok x -> x = s.
Proof. unfold client_from_status. destruct (is_client_error s); congruence. Qed.

Lemma err_from_u16_ok_iff c : is_ok (err_from_u16 c) = true <-> 400 <= c <= 599.
Proof.
  unfold err_from_u16, bind.
  destruct (status_from_u16_spec c) as [H1 H2].
  destruct (N.le_gt_cases 100 c) as [Hlo|Hlo]; [destruct (N.le_gt_cases c 999) as [Hhi|Hhi]|].
  - rewrite H1 by lia. apply err_from_status_ok_iff.
  - rewrite H2 by lia. cbn [is_ok]. split; [discriminate|lia].
  - rewrite H2 by lia. cbn [is_ok]. split; [discriminate|lia].
Qed.

Lemma client_from_u16_ok_iff c : is_ok (client_from_u16 c) = true <-> 400 <= c <= 499.
Proof.
  unfold client_from_u16, bind.
  destruct (status_from_u16_spec c) as [H1 H2].
  destruct (N.le_gt_cases 100 c) as [Hlo|Hlo]; [destruct (N.le_gt_cases c 999) as [Hhi|Hhi]|].
  - rewrite H1 by lia. apply client_from_status_ok_iff.
  - rewrite H2 by lia. cbn [is_ok]. split; [discriminate|lia].
  - rewrite H2 by lia. cbn [is_ok]. split; [discriminate|lia].
Qed.

Lemma status_from_u16_value c s : status_from_u16 c = Ok s -> s = c.
Proof.
  unfold status_from_u16.
  destruct (negb ((100 <=? c) && (c <? 1000))); [discriminate|].
  destruct (c =? 0); congruence.
Qed.

Lemma err_from_u16_value c x : err_from_u16 c = Ok x -> x = c.
Proof.
  unfold err_from_u16, bind.
  destruct (status_from_u16 c) as [s|] eqn:E; [|discriminate].
  apply status_from_u16_value in E. subst s. apply err_from_status_value.
Qed.

Lemma client_from_u16_value c x : client_from_u16 c = Ok x -> x = c.
Proof.
  unfold client_from_u16, bind.
  destruct (status_from_u16 c) as [s|] eqn:E; [|discriminate].
  apply status_from_u16_value in E. subst s. apply client_from_status_value.
Qed.

(* which error is reported *)
Lemma err_from_u16_error c :
  (err_from_u16 c = Err InvalidStatus <-> ~ 100 <= c <= 999) /\
  (err_from_u16 c = Err NotAnError <-> 100 <= c <= 399 \/ 600 <= c <= 999) /\
  err_from_u16 c <> Err NotAClientError.
Proof.
  unfold err_from_u16, bind, status_from_u16, err_from_status, is_client_error, is_server_error.
  bdestr; cbn [andb orb negb]; repeat split; intros; try lia; try discriminate;
    try reflexivity; try congruence.
Qed.

Lemma client_from_u16_error c :
  (client_from_u16 c = Err InvalidStatus <-> ~ 100 <= c <= 999) /\
  (client_from_u16 c = Err NotAClientError <-> 100 <= c <= 399 \/ 500 <= c <= 999) /\
  client_from_u16 c <> Err NotAnError.
Proof.
  unfold client_from_u16, bind, status_from_u16, client_from_status, is_client_error.
  bdestr; cbn [andb orb negb]; repeat split; intros; try lia; try discriminate;
    try reflexivity; try congruence.
Qed.

Lemma as_client_error_spec s :
  (400 <= s <= 499 -> as_client_error s = Ok s) /\
  (~ 400 <= s <= 499 -> as_client_error s = Err NotAClientError).
Proof.
  unfold as_client_error, is_client_error.
  bdestr; cbn [andb]; split; intros; try lia; reflexivity.
Qed.

(* a client error status is an error status (From<ClientErrorStatusCode>) *)
Lemma client_is_error c s : client_from_u16 c = Ok s -> err_from_u16 (client_into_error s) = Ok s.
Proof.
  intros H. pose proof (client_from_u16_value _ _ H) as ->.
  assert (Hok : is_ok (client_from_u16 c) = true) by (rewrite H; reflexivity).
  apply client_from_u16_ok_iff in Hok.
  unfold client_into_error.
  assert (Hok2 : is_ok (err_from_u16 c) = true) by (apply err_from_u16_ok_iff; lia).
  destruct (err_from_u16 c) as [x|] eqn:E; [|discriminate].
  apply err_from_u16_value in E. congruence.
Qed.

(* C13 clause: only 400-599 (resp. 400-499) can be represented, and the
   represented value is the number given *)
Theorem status_boundary : forall c : N,
  (is_ok (err_from_u16 c) = true <-> 400 <= c <= 599) /\
  (is_ok (client_from_u16 c) = true <-> 400 <= c <= 499) /\
  (forall s, err_from_u16 c = Ok s -> s = c) /\
  (forall s, client_from_u16 c = Ok s -> s = c) /\
  (is_ok (err_from_status c) = true <-> 400 <= c <= 599) /\
  (is_ok (client_from_status c) = true <-> 400 <= c <= 499) /\
  (forall s, err_from_status c = Ok s -> s = c) /\
  (forall s, client_from_status c = Ok s -> s = c).
Proof.
  intros c.
  split; [apply err_from_u16_ok_iff|].
  split; [apply client_from_u16_ok_iff|].
  split; [apply err_from_u16_value|].
  split; [apply client_from_u16_value|].
  split; [apply err_from_status_ok_iff|].
  split; [apply client_from_status_ok_iff|].
  split; [apply err_from_status_value|apply client_from_status_value].
Qed.

(* ---------- 2. into_response ---------- *)

Lemma rid_neq_ct : str_eqb H_REQUEST_ID H_CONTENT_TYPE = false.
Proof. vm_compute. reflexivity. Qed.
Lemma ct_neq_rid : str_eqb H_CONTENT_TYPE H_REQUEST_ID = false.
Proof. vm_compute. reflexivity. Qed.

Lemma last_opt_snoc {A} (l : list A) x : last_opt (l ++ [x]) = Some x.
Proof. unfold last_opt. rewrite rev_app_distr. reflexivity. Qed.

Lemma appended_snoc old v : exists pre, appended old v = pre ++ [v].
Proof. destruct old as [o|]; cbn [appended]; [exists o|exists []]; reflexivity. Qed.

Lemma into_response_ok_iff e id :
  (exists r, into_response e id = Ok r) <-> header_legal id = true.
Proof.
  unfold into_response. destruct (header_legal id); split; eauto; try discriminate.
  intros [r H]; discriminate.
Qed.

Lemma into_response_panic e id r : into_response e id = Err r -> header_legal id = false.
Proof. unfold into_response. destruct (header_legal id); [discriminate|auto]. Qed.

Theorem response_contract : forall e id r,
  into_response e id = Ok r ->
  r_status r = e_status e /\
  r_body r = BErrJson id (e_code e) (e_external e) /\
  (* content type: application/json is added (after any value the error's own
     headers already had under that name) *)
  hm_get (r_headers r) H_CONTENT_TYPE =
    Some (appended (hm_get (headers_or_empty e) H_CONTENT_TYPE) CT_JSON) /\
  hm_get (r_headers r) H_REQUEST_ID =
    Some (appended (hm_get (headers_or_empty e) H_REQUEST_ID) id) /\
  (* every header attached to the error is delivered *)
  (forall n vs, hm_get (headers_or_empty e) n = Some vs ->
                exists post, hm_get (r_headers r) n = Some (vs ++ post)) /\
  (* and nothing else is added *)
  (forall n, n <> H_CONTENT_TYPE -> n <> H_REQUEST_ID ->
             hm_get (r_headers r) n = hm_get (headers_or_empty e) n).
Proof.
  intros e id r. unfold into_response.
  destruct (header_legal id); [|discriminate]. intros [= <-].
  cbn [r_status r_body r_headers].
  split; [reflexivity|]. split; [reflexivity|].
  assert (Hget : forall n, hm_get
            (hm_append (hm_append (headers_or_empty e) H_CONTENT_TYPE CT_JSON) H_REQUEST_ID id) n =
            if str_eqb H_REQUEST_ID n
            then Some (appended (hm_get (headers_or_empty e) H_REQUEST_ID) id)
            else if str_eqb H_CONTENT_TYPE n
                 then Some (appended (hm_get (headers_or_empty e) H_CONTENT_TYPE) CT_JSON)
                 else hm_get (headers_or_empty e) n).
  { intros n. rewrite !hm_get_append. rewrite ct_neq_rid. reflexivity. }
  split; [rewrite Hget, rid_neq_ct, str_eqb_refl; reflexivity|].
  split; [rewrite Hget, str_eqb_refl; reflexivity|].
  split.
  - intros n vs Hn. rewrite Hget.
    destruct (str_eqb_spec H_REQUEST_ID n) as [<-|_].
    + rewrite Hn. cbn [appended]. eauto.
    + destruct (str_eqb_spec H_CONTENT_TYPE n) as [<-|_].
      * rewrite Hn. cbn [appended]. eauto.
      * exists []. rewrite app_nil_r. auto.
  - intros n H1 H2. rewrite Hget.
    destruct (str_eqb_spec H_REQUEST_ID n) as [<-|_]; [congruence|].
    destruct (str_eqb_spec H_CONTENT_TYPE n) as [<-|_]; [congruence|]. reflexivity.
Qed.

(* an error without headers of its own under those two names *)
Corollary response_contract_plain : forall e id r,
  into_response e id = Ok r ->
  hm_get (headers_or_empty e) H_CONTENT_TYPE = None ->
  hm_get (headers_or_empty e) H_REQUEST_ID = None ->
  hm_get (r_headers r) H_CONTENT_TYPE = Some [CT_JSON] /\
  hm_get (r_headers r) H_REQUEST_ID = Some [id].
Proof.
  intros e id r H H1 H2.
  destruct (response_contract e id r H) as (_ & _ & Hc & Hr & _).
  rewrite Hc, Hr, H1, H2. auto.
Qed.

Lemma into_response_request_id e id r :
  into_response e id = Ok r -> response_request_id r = Some id.
Proof.
  intros H. destruct (response_contract e id r H) as (_ & _ & _ & Hr & _).
  unfold response_request_id. rewrite Hr.
  destruct (appended_snoc (hm_get (headers_or_empty e) H_REQUEST_ID) id) as [pre ->].
  apply last_opt_snoc.
Qed.

Lemma into_response_wf e id r :
  hm_wf (headers_or_empty e) = true -> into_response e id = Ok r -> hm_wf (r_headers r) = true.
Proof.
  intros Hwf. unfold into_response. destruct (header_legal id); [|discriminate].
  intros [= <-]. cbn [r_headers]. apply hm_wf_append, hm_wf_append, Hwf.
Qed.

(* ---------- 3. the internal message never reaches the response ---------- *)

Theorem no_internal_leak : forall e1 e2 id,
  e_status e1 = e_status e2 -> e_code e1 = e_code e2 ->
  e_external e1 = e_external e2 -> e_headers e1 = e_headers e2 ->
  into_response e1 id = into_response e2 id.
Proof.
  intros [s1 c1 x1 i1 h1] [s2 c2 x2 i2 h2] id; cbn [e_status e_code e_external e_headers].
  intros -> -> -> ->. reflexivity.
Qed.

Corollary into_response_ignores_internal : forall e m id,
  into_response (set_internal e m) id = into_response e id.
Proof. intros. apply no_internal_leak; reflexivity. Qed.

(* add_header neither reads nor changes the messages *)
Lemma add_header_fields e n v e' :
  add_header e n v = Ok e' ->
  e_status e' = e_status e /\ e_code e' = e_code e /\ e_external e' = e_external e /\
  e_internal e' = e_internal e /\
  exists k, header_name n = Some k /\ header_legal v = true /\
            e_headers e' = Some (hm_append (headers_or_empty e) k v).
Proof.
  unfold add_header. destruct (header_name n) as [k|]; [|discriminate].
  destruct (header_legal v); [|discriminate].
  intros [= <-]. cbn. repeat split; eauto.
Qed.

Lemma add_header_ok_iff e n v :
  (exists e', add_header e n v = Ok e') <-> header_name n <> None /\ header_legal v = true.
Proof.
  unfold add_header. destruct (header_name n) as [k|].
  - destruct (header_legal v).
    + split; [intros _; split; congruence|eauto].
    + split; [intros [? ?]; discriminate|intros [_ H]; discriminate].
  - split; [intros [? ?]; discriminate|intros [H _]; congruence].
Qed.

Definition respond (c : res panic http_error) (id : str) : res panic response :=
  match c with Ok e => into_response e id | Err p => Err p end.

Section ConstructorProofs.
  Variable reason_text : N -> str.

  (* what each constructor builds *)
  Lemma for_internal_error_eq m :
    for_internal_error reason_text m =
    Ok (mkErr 500 (Some (bytes_of "Internal")) (reason_text 500) m None).
  Proof. reflexivity. Qed.

  Lemma for_unavail_eq code m :
    for_unavail reason_text code m = Ok (mkErr 503 code (reason_text 503) m None).
  Proof. reflexivity. Qed.

  Lemma for_not_found_eq code m :
    for_not_found reason_text code m = Ok (mkErr 404 code (reason_text 404) m None).
  Proof. reflexivity. Qed.

  Lemma for_bad_request_eq code m :
    for_bad_request code m = mkErr 400 code m m None.
  Proof. reflexivity. Qed.

  Lemma for_client_error_with_status_eq code status :
    for_client_error_with_status reason_text code status =
    mkErr status code (with_status_message reason_text status)
          (with_status_message reason_text status) None.
  Proof. reflexivity. Qed.

  Lemma with_status_message_spec status :
    (has_reason status = true -> with_status_message reason_text status = reason_text status) /\
    (has_reason status = false -> with_status_message reason_text status = bytes_of "Client Error").
  Proof.
    unfold with_status_message, canonical_reason.
    destruct (has_reason status); split; intros; try discriminate; reflexivity.
  Qed.

  (* the constructors that take an internal message separately: the response
     does not depend on it *)
  Theorem constructors_hide_internal : forall id code m1 m2,
    respond (for_internal_error reason_text m1) id = respond (for_internal_error reason_text m2) id /\
    respond (for_unavail reason_text code m1) id = respond (for_unavail reason_text code m2) id /\
    respond (for_not_found reason_text code m1) id = respond (for_not_found reason_text code m2) id.
  Proof. intros. repeat split. Qed.

  (* every constructor, where it returns, yields an error whose response obeys
     the contract with the status it was given *)
  Theorem constructors_contract : forall id, header_legal id = true ->
    forall code m status,
    (exists r, into_response (for_client_error code status m) id = Ok r /\
               r_status r = status /\ r_body r = BErrJson id code m) /\
    (exists r, respond (for_internal_error reason_text m) id = Ok r /\
               r_status r = 500 /\
               r_body r = BErrJson id (Some (bytes_of "Internal")) (reason_text 500)) /\
    (exists r, respond (for_unavail reason_text code m) id = Ok r /\
               r_status r = 503 /\ r_body r = BErrJson id code (reason_text 503)) /\
    (exists r, into_response (for_bad_request code m) id = Ok r /\
               r_status r = 400 /\ r_body r = BErrJson id code m) /\
    (exists r, respond (for_not_found reason_text code m) id = Ok r /\
               r_status r = 404 /\ r_body r = BErrJson id code (reason_text 404)) /\
    (exists r, into_response (for_client_error_with_status reason_text code status) id = Ok r /\
               r_status r = status /\
               r_body r = BErrJson id code (with_status_message reason_text status)).
  Proof.
    intros id Hid code m status.
    assert (Hh : forall e, exists r, into_response e id = Ok r /\ r_status r = e_status e /\
                                     r_body r = BErrJson id (e_code e) (e_external e)).
    { intros e. unfold into_response. rewrite Hid. eexists. repeat split. }
    split; [apply (Hh (for_client_error code status m))|].
    split; [apply (Hh (mkErr 500 (Some (bytes_of "Internal")) (reason_text 500) m None))|].
    split; [apply (Hh (mkErr 503 code (reason_text 503) m None))|].
    split; [apply (Hh (for_bad_request code m))|].
    split; [apply (Hh (mkErr 404 code (reason_text 404) m None))|].
    apply (Hh (for_client_error_with_status reason_text code status)).
  Qed.
End ConstructorProofs.

(* ---------- 4. the request id on every response ---------- *)

Definition stamped (rsp : response) (id : str) : response :=
  mkResponse (r_status rsp) (hm_insert (r_headers rsp) H_REQUEST_ID id) (r_body rsp).

(* the outcome classes of one request handled with id [id] *)
Inductive outcome :=
| OVersionError (e : http_error)
| ORouteError (e : http_error)
| OSuccess (rsp : response)
| OCustomError (message : str) (rsp : response)
| OHttpError (e : http_error).     (* handler / extractor / to_result HttpError *)

Definition outcome_of (rq : request_model) (id : str) : outcome :=
  match rq_version rq with
  | Some e => OVersionError e
  | None =>
      match rq_route rq with
      | Some e => ORouteError e
      | None =>
          match rq_run rq id with     (* the handler is given this very id *)
          | Ok rsp => OSuccess rsp
          | Err (HEHandler m rsp) => OCustomError m rsp
          | Err (HEDropshot e) => OHttpError e
          end
      end
  end.

Definition framework_error (o : outcome) : option http_error :=
  match o with
  | OVersionError e | ORouteError e | OHttpError e => Some e
  | _ => None
  end.

Lemma handle_wrap_by_outcome rq id :
  handle_wrap rq id =
  match outcome_of rq id with
  | OVersionError e | ORouteError e | OHttpError e => into_response e id
  | OSuccess rsp | OCustomError _ rsp =>
      if header_legal id then Ok (stamped rsp id) else Err Panic
  end.
Proof.
  unfold handle_wrap, http_request_handle, outcome_of, herr_of_http_error, stamped.
  destruct (rq_version rq) as [e|]; [reflexivity|].
  destruct (rq_route rq) as [e|]; [reflexivity|].
  destruct (rq_run rq id) as [rsp|[m rsp|e]]; cbn [herr_into_response]; try reflexivity.
  destruct (header_legal id); reflexivity.
Qed.

Theorem handle_wrap_ok_iff : forall rq id,
  (exists r, handle_wrap rq id = Ok r) <-> header_legal id = true.
Proof.
  intros rq id. rewrite handle_wrap_by_outcome.
  destruct (outcome_of rq id); try apply into_response_ok_iff;
    destruct (header_legal id); split; eauto; try discriminate; intros [? ?]; discriminate.
Qed.

Lemma stamped_request_id rsp id :
  hm_get (r_headers (stamped rsp id)) H_REQUEST_ID = Some [id].
Proof. cbn [stamped r_headers]. rewrite hm_get_insert, str_eqb_refl. reflexivity. Qed.

Theorem request_id_everywhere : forall rq id r,
  handle_wrap rq id = Ok r ->
  (* every outcome class: the response carries the id *)
  response_request_id r = Some id /\
  (* framework errors: status, and the body's request_id is the same id *)
  (forall e, framework_error (outcome_of rq id) = Some e ->
             r_status r = e_status e /\
             r_body r = BErrJson id (e_code e) (e_external e) /\
             (hm_get (headers_or_empty e) H_REQUEST_ID = None ->
              hm_get (r_headers r) H_REQUEST_ID = Some [id])) /\
  (* success and custom error responses: stamped, replacing whatever
     x-request-id the handler put there; status, body and other headers kept *)
  (framework_error (outcome_of rq id) = None ->
   hm_get (r_headers r) H_REQUEST_ID = Some [id] /\
   exists rsp, (outcome_of rq id = OSuccess rsp \/ exists m, outcome_of rq id = OCustomError m rsp) /\
               r = stamped rsp id).
Proof.
  intros rq id r. rewrite handle_wrap_by_outcome.
  destruct (outcome_of rq id) as [e|e|rsp|m rsp|e] eqn:Eo; cbn [framework_error];
    intros H.
  1,2,5: (split; [eapply into_response_request_id; eauto|]; split;
          [intros e' [= <-]; destruct (response_contract _ _ _ H) as (Hs & Hb & _ & Hr & _);
           repeat split; auto; intros Hn; rewrite Hr, Hn; reflexivity
          |discriminate]).
  all: destruct (header_legal id); [|discriminate]; injection H as <-;
       (split; [unfold response_request_id; rewrite stamped_request_id; reflexivity|]);
       (split; [discriminate|]); intros _; split; [apply stamped_request_id|];
       exists rsp; split; eauto.
Qed.

(* the log message of a custom error never reaches the response *)
Theorem custom_error_message_hidden : forall m1 m2 rsp id,
  herr_into_response (HEHandler m1 rsp) id = herr_into_response (HEHandler m2 rsp) id.
Proof. reflexivity. Qed.

(* ---------- 5. uniqueness over a request sequence ---------- *)

Definition carried_id (x : res panic response) : option str :=
  match x with Ok r => response_request_id r | Err _ => None end.

Section Fresh.
  (* the k-th id generate_request_id() returns (uuid::Uuid::new_v4, trusted) *)
  Variable fresh : nat -> str.
  Hypothesis fresh_distinct : forall i j, fresh i = fresh j -> i = j.
  Hypothesis fresh_legal : forall k, header_legal (fresh k) = true.

  Lemma serve_ids : forall rqs k,
    map carried_id (serve fresh k rqs) = map (fun i => Some (fresh i)) (seq k (List.length rqs)).
  Proof.
    induction rqs as [|rq t IH]; intros k; cbn [serve map List.length seq]; [reflexivity|].
    rewrite IH. f_equal.
    destruct (proj2 (handle_wrap_ok_iff rq (fresh k)) (fresh_legal k)) as [r Hr].
    rewrite Hr. cbn [carried_id].
    apply (request_id_everywhere _ _ _ Hr).
  Qed.

  Theorem ids_unique : forall rqs k, NoDup (map carried_id (serve fresh k rqs)).
  Proof.
    intros rqs k. rewrite serve_ids.
    apply Injective_map_NoDup; [|apply seq_NoDup].
    intros i j [= H]. apply fresh_distinct; auto.
  Qed.

  Theorem every_request_answered : forall rqs k x,
    In x (serve fresh k rqs) -> exists r id, x = Ok r /\ response_request_id r = Some id.
  Proof.
    induction rqs as [|rq t IH]; intros k x; cbn [serve In]; [tauto|].
    intros [<-|Hin]; [|eapply IH; eauto].
    destruct (proj2 (handle_wrap_ok_iff rq (fresh k)) (fresh_legal k)) as [r Hr].
    exists r, (fresh k). split; auto. apply (request_id_everywhere _ _ _ Hr).
  Qed.
End Fresh.

(* the id format is a legal header value, so the [unwrap]s in the wrapper
   cannot fire for generated ids *)
Lemma lower_hex_legal b : is_lower_hex b = true -> hv_byte_ok b = true.
Proof.
  unfold is_lower_hex, hv_byte_ok. bdestr; cbn [andb orb negb]; intros; try lia; try discriminate; reflexivity.
Qed.
