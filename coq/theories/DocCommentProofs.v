(* DocCommentProofs.v — nothing of a doc comment is lost between summary and
   description (doc.rs), and exactly what the line normalisation removes. *)
From DS Require Import Base DocComment.

(* ---------- nonblank is a monoid morphism that ignores trimming ---------- *)

Lemma nonblank_app a b : nonblank (a ++ b) = nonblank a ++ nonblank b.
Proof. unfold nonblank. apply filter_app. Qed.

Lemma nonblank_rev a : nonblank (rev a) = rev (nonblank a).
Proof.
  induction a as [|c a IH]; [reflexivity|].
  cbn [rev]. rewrite nonblank_app, IH. unfold nonblank at 2 3. cbn [filter].
  destruct (negb (is_ws c)); cbn [rev app]; [reflexivity|now rewrite app_nil_r].
Qed.

Lemma nonblank_trim_start s : nonblank (trim_start s) = nonblank s.
Proof.
  induction s as [|c s IH]; [reflexivity|].
  cbn [trim_start]. destruct (is_ws c) eqn:E; [|reflexivity].
  rewrite IH. unfold nonblank. cbn [filter]. now rewrite E.
Qed.

Lemma trim_end_rev s : trim_end s = rev (trim_start (rev s)).
Proof. unfold trim_end, frev. now rewrite <- !rev_alt. Qed.

Lemma nonblank_trim_end s : nonblank (trim_end s) = nonblank s.
Proof.
  rewrite trim_end_rev. rewrite nonblank_rev, nonblank_trim_start, nonblank_rev.
  apply rev_involutive.
Qed.

Lemma nonblank_trim s : nonblank (trim s) = nonblank s.
Proof. unfold trim. now rewrite nonblank_trim_end, nonblank_trim_start. Qed.

Lemma nonblank_nil : nonblank [] = [].
Proof. reflexivity. Qed.

Lemma nonblank_cons_ws c s : is_ws c = true -> nonblank (c :: s) = nonblank s.
Proof. intros H. unfold nonblank. cbn [filter]. now rewrite H. Qed.

Lemma nonblank_cons_nws c s : is_ws c = false -> nonblank (c :: s) = c :: nonblank s.
Proof. intros H. unfold nonblank. cbn [filter]. now rewrite H. Qed.

Lemma ws_SP : is_ws SP = true. Proof. reflexivity. Qed.
Lemma ws_NL : is_ws NL = true. Proof. reflexivity. Qed.
Lemma nws_STAR : is_ws STAR = false. Proof. reflexivity. Qed.

(* ---------- the fold ---------- *)

Lemma nonblank_fold_step acc c :
  nonblank (fold_step acc c) = nonblank acc ++ nonblank c.
Proof.
  unfold fold_step.
  destruct (ends_with acc HYPHEN || ends_with acc NL || is_nil acc).
  - apply nonblank_app.
  - destruct c as [|x c]; cbn [is_nil].
    + rewrite nonblank_app. reflexivity.
    + rewrite nonblank_app. rewrite (nonblank_cons_ws SP _ ws_SP). reflexivity.
Qed.

Lemma nonblank_fold ls : forall acc,
  nonblank (fold_left fold_step ls acc) = nonblank acc ++ flat_map nonblank ls.
Proof.
  induction ls as [|l ls IH]; intros acc; cbn [fold_left flat_map].
  - now rewrite app_nil_r.
  - rewrite IH, nonblank_fold_step. now rewrite app_assoc.
Qed.

Lemma skip_blank_spec ls :
  flat_map nonblank ls =
  nonblank (opt_str (fst (skip_blank ls))) ++ flat_map nonblank (snd (skip_blank ls)).
Proof.
  induction ls as [|l ls IH]; [reflexivity|].
  cbn [skip_blank]. destruct l as [|c l]; cbn [is_nil].
  - cbn [flat_map]. rewrite nonblank_nil. exact IH.
  - reflexivity.
Qed.

Lemma skip_blank_none l : fst (skip_blank l) = None -> snd (skip_blank l) = [].
Proof.
  induction l as [|y l IH]; cbn [skip_blank]; [reflexivity|].
  destruct (is_nil y); [exact IH|]. cbn [fst]. discriminate.
Qed.

(* 3. nothing dropped, nothing reordered: the non-blank characters of summary
   followed by description are those of the normalised lines, in order *)
Lemma lossless_lines ls : shown (extract_lines ls) = flat_map nonblank ls.
Proof.
  unfold extract_lines, shown.
  rewrite (skip_blank_spec ls).
  destruct (skip_blank ls) as [s r1]. cbn [fst snd].
  rewrite (skip_blank_spec r1).
  pose proof (skip_blank_none r1) as Hn.
  destruct (skip_blank r1) as [f r2]. cbn [fst snd summary description] in *.
  f_equal.
  destruct f as [first|]; cbn [opt_str].
  - now rewrite nonblank_trim_end, nonblank_fold.
  - now rewrite (Hn eq_refl).
Qed.

Theorem doc_lossless docs : shown (extract docs) = flat_map nonblank (doc_lines docs).
Proof. apply lossless_lines. Qed.

(* summary = the first non-empty normalised line *)
Lemma skip_blank_find ls :
  fst (skip_blank ls) = find (fun l => negb (is_nil l)) ls.
Proof.
  induction ls as [|l ls IH]; [reflexivity|].
  cbn [skip_blank find]. destruct (is_nil l); cbn [negb]; [exact IH|reflexivity].
Qed.

Theorem summary_first_line docs :
  summary (extract docs) = find (fun l => negb (is_nil l)) (doc_lines docs).
Proof.
  unfold extract, extract_lines. rewrite <- skip_blank_find.
  destruct (skip_blank (doc_lines docs)) as [s r1].
  destruct (skip_blank r1). reflexivity.
Qed.

(* the description starts at the next non-empty line after the summary *)
Lemma skip_blank_split ls s r :
  skip_blank ls = (Some s, r) ->
  exists pre, ls = pre ++ s :: r /\ Forall (fun l => l = []) pre /\ s <> [].
Proof.
  revert s r; induction ls as [|l ls IH]; intros s r; cbn [skip_blank]; [discriminate|].
  destruct l as [|c l]; cbn [is_nil].
  - intros E. destruct (IH _ _ E) as (pre & -> & Hf & Hs).
    exists ([] :: pre). repeat split; auto.
  - intros E. inversion E; subst. exists []. repeat split; auto. discriminate.
Qed.

Theorem summary_description_split docs s :
  summary (extract docs) = Some s ->
  exists pre rest, doc_lines docs = pre ++ s :: rest /\ Forall (fun l => l = []) pre /\ s <> [] /\
    nonblank (opt_str (description (extract docs))) = flat_map nonblank rest.
Proof.
  intros Hs. pose proof (doc_lossless docs) as Hl.
  unfold extract, extract_lines, shown in *.
  destruct (skip_blank (doc_lines docs)) as [s0 r1] eqn:E1.
  destruct (skip_blank r1) as [f r2] eqn:E2. cbn [summary description] in *.
  subst s0. destruct (skip_blank_split _ _ _ E1) as (pre & Hd & Hf & Hne).
  exists pre, r1. repeat split; auto.
  rewrite Hd in Hl. rewrite flat_map_app in Hl. cbn [flat_map opt_str] in Hl.
  assert (Hp : flat_map nonblank pre = []).
  { clear -Hf. induction Hf as [|x l Hx _ IH]; [reflexivity|]. subst x. exact IH. }
  rewrite Hp in Hl. cbn [app] in Hl. now apply app_inv_head in Hl.
Qed.

(* ---------- what the line normalisation removes ---------- *)

Lemma trim_start_app_nws a c :
  is_ws c = false -> trim_start (a ++ [c]) = trim_start a ++ [c].
Proof.
  intros H. induction a as [|x a IH]; cbn [app trim_start].
  - now rewrite H.
  - destruct (is_ws x); [exact IH|reflexivity].
Qed.

Lemma trim_end_cons_nws c r : is_ws c = false -> trim_end (c :: r) = c :: trim_end r.
Proof.
  intros H. rewrite !trim_end_rev. cbn [rev]. rewrite (trim_start_app_nws _ _ H).
  rewrite rev_app_distr. reflexivity.
Qed.

Lemma trim_start_head s c r : trim_start s = c :: r -> is_ws c = false.
Proof.
  induction s as [|x s IH]; cbn [trim_start]; [discriminate|].
  destruct (is_ws x) eqn:E; [exact IH|]. intros [= <- _]. exact E.
Qed.

Lemma trim_start_idem s : trim_start (trim_start s) = trim_start s.
Proof.
  destruct (trim_start s) as [|c r] eqn:E; [reflexivity|].
  cbn [trim_start]. now rewrite (trim_start_head _ _ _ E).
Qed.

Lemma star_eqb c : (c =? STAR) = true -> c = STAR.
Proof. apply N.eqb_eq. Qed.

(* a continuation line: the code keeps exactly the non-blank characters of the
   line with one leading '*' removed *)
Lemma norm_cont_nonblank l : nonblank (norm_cont l) = nonblank (drop_star l).
Proof.
  unfold norm_cont, drop_star, trim.
  destruct (trim_start l) as [|c r] eqn:E.
  - cbn. rewrite <- (nonblank_trim_start l), E. reflexivity.
  - pose proof (trim_start_head _ _ _ E) as Hc.
    rewrite (trim_end_cons_nws _ _ Hc). cbn [strip_star].
    destruct (c =? STAR) eqn:Es.
    + destruct (trim_end r) as [|d r'] eqn:Er.
      * rewrite <- (nonblank_trim_end r), Er. reflexivity.
      * rewrite <- (nonblank_trim_end r), Er.
        destruct (d =? SP) eqn:Ed; [|reflexivity].
        apply N.eqb_eq in Ed. subst d. now rewrite (nonblank_cons_ws SP).
    + rewrite <- (nonblank_trim_start l), E.
      rewrite !(nonblank_cons_nws _ _ Hc). now rewrite nonblank_trim_end.
Qed.

Lemma norm_first_nonblank l : nonblank (norm_first l) = nonblank l.
Proof. apply nonblank_trim. Qed.

Lemma drop_star_no_star l : starts_star l = false -> drop_star l = l.
Proof.
  unfold starts_star, drop_star. destruct (trim_start l) as [|c r]; [reflexivity|].
  now intros ->.
Qed.

Lemma starts_star_nonblank l :
  starts_star l = true -> nonblank l = STAR :: nonblank (drop_star l).
Proof.
  unfold starts_star, drop_star. intros H.
  rewrite <- (nonblank_trim_start l).
  destruct (trim_start l) as [|c r]; [discriminate|].
  rewrite H. apply star_eqb in H. subst c. now rewrite (nonblank_cons_nws STAR).
Qed.

Lemma blank_nonblank l : blank l = true -> nonblank l = [].
Proof.
  unfold blank. intros H. rewrite <- (nonblank_trim_start l).
  destruct (trim_start l); [reflexivity|discriminate].
Qed.

Lemma blank_drop_star l : blank l = true -> drop_star l = l.
Proof.
  unfold blank, drop_star. destruct (trim_start l); [reflexivity|discriminate].
Qed.

(* the code's decoration test is the specification's: every non-blank
   continuation line begins (after blanks) with '*' *)
Lemma trim_shape l :
  match trim_start l with
  | [] => trim l = []
  | c :: r => trim l = c :: trim_end r
  end.
Proof.
  unfold trim. destruct (trim_start l) as [|c r] eqn:E; [reflexivity|].
  apply trim_end_cons_nws. exact (trim_start_head _ _ _ E).
Qed.

Lemma is_decorated_spec rest : is_decorated rest = decorated rest.
Proof.
  unfold is_decorated, decorated. induction rest as [|l rest IH]; [reflexivity|].
  cbn [map filter forallb]. unfold blank, starts_star. pose proof (trim_shape l) as H.
  destruct (trim_start l) as [|c r].
  - rewrite H. cbn [is_nil negb orb]. exact IH.
  - rewrite H. cbn [is_nil negb orb forallb first_is_star]. now rewrite IH.
Qed.

Lemma flat_map_map {A B C} (f : A -> B) (g : B -> list C) l :
  flat_map g (map f l) = flat_map (fun x => g (f x)) l.
Proof. induction l as [|x l IH]; cbn [map flat_map]; [reflexivity|now rewrite IH]. Qed.

Lemma flat_map_ext' {A B} (f g : A -> list B) l :
  (forall x, f x = g x) -> flat_map f l = flat_map g l.
Proof. intros H. induction l as [|x l IH]; cbn [flat_map]; [reflexivity|now rewrite H, IH]. Qed.

(* the normalisation removes whitespace and decoration only: the non-blank
   characters of the normalised lines of an attribute are those of its text *)
Lemma normalize_lossless s :
  flat_map nonblank (normalize s) = flat_map nonblank (declared_lines s).
Proof.
  unfold normalize, declared_lines.
  destruct (split_nl s) as [|first rest]; [reflexivity|].
  cbn [flat_map]. rewrite norm_first_nonblank. f_equal.
  rewrite is_decorated_spec. destruct (decorated rest).
  - rewrite !flat_map_map. apply flat_map_ext'. intros l. apply norm_cont_nonblank.
  - rewrite flat_map_map. apply flat_map_ext'. intros l. apply nonblank_trim.
Qed.

(* 3'. the full clause: no text of the comment is lost *)
Theorem doc_lossless_declared docs : shown (extract docs) = declared_text docs.
Proof.
  rewrite doc_lossless. unfold doc_lines, declared_text.
  induction docs as [|s docs IH]; [reflexivity|].
  cbn [flat_map]. rewrite flat_map_app, normalize_lossless. f_equal. exact IH.
Qed.

Theorem doc_lossless_b_ok docs : doc_lossless_b docs (extract docs) = true.
Proof.
  unfold doc_lossless_b. rewrite doc_lossless_declared.
  apply list_eqb_spec; [apply N.eqb_eq|reflexivity].
Qed.

(* what IS removed from a decorated attribute: per continuation line the one
   leading star; from any other attribute: nothing but whitespace *)
Theorem undecorated_keeps_lines s first rest :
  split_nl s = first :: rest -> decorated rest = false ->
  normalize s = map trim (first :: rest).
Proof.
  intros E D. unfold normalize. rewrite E, is_decorated_spec, D. reflexivity.
Qed.

(* the description never ends in whitespace, the summary is never empty *)
Lemma trim_end_last s c r : rev (trim_end s) = c :: r -> is_ws c = false.
Proof.
  rewrite trim_end_rev, rev_involutive. apply trim_start_head.
Qed.

Theorem summary_nonempty docs s : summary (extract docs) = Some s -> s <> [].
Proof.
  rewrite summary_first_line. intros H. apply find_some in H. destruct H as [_ H].
  destruct s; [discriminate|discriminate].
Qed.

(* ---------- attributes that are not literal doc lines ---------- *)

Lemma literal_docs_app a b : literal_docs (a ++ b) = literal_docs a ++ literal_docs b.
Proof. unfold literal_docs. apply flat_map_app. Qed.

(* a macro-valued doc attribute or any other attribute, wherever it stands,
   contributes nothing and hides nothing: the result is that of the item
   without it *)
Theorem non_literal_attrs_skipped pre x post :
  x = ADocExpr \/ x = AOther ->
  extract_attrs (pre ++ x :: post) = extract_attrs (pre ++ post).
Proof.
  intros H. unfold extract_attrs. rewrite !literal_docs_app.
  destruct H as [-> | ->]; reflexivity.
Qed.

(* every literal doc line is kept, whatever stands between them *)
Theorem attrs_text_lossless attrs :
  shown (extract_attrs attrs) = declared_text (literal_docs attrs).
Proof. apply doc_lossless_declared. Qed.
