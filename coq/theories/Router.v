(* Router.v — model of dropshot/src/router.rs: the route trie.
     route_path_to_segments + PathSegment::from  ->  parse_template
     HttpRouter::insert                          ->  insert
     HttpRouter::lookup_route                    ->  lookup (after PathNorm)
     HttpRouterIter                              ->  iter   (pre-order listing)
   Every Rust panic site is a distinct [Err] code.  Model only; proofs are in
   RouterProofs.v.  The version type is abstract (see Versions.v). *)
From DS Require Import Base Versions.

Inductive pseg := PLit (s : str) | PVar (x : str) | PWild (x : str).

(* [VariableValue] *)
Inductive varval := Single (s : str) | Multi (l : list str).

Inductive reg_err :=
| RE_no_leading_slash      (* "route paths must begin with a '/'" *)
| RE_empty_segment         (* "path segments may not be empty" *)
| RE_var_missing_open      (* segment ends with '}' but does not start with '{' *)
| RE_var_missing_close
| RE_var_empty             (* "variable name must not be empty" *)
| RE_bad_pattern           (* "Only the pattern '.*' is currently supported" *)
| RE_lit_vs_var            (* literal segment where a variable/wildcard edge exists *)
| RE_var_vs_lit
| RE_var_vs_rest
| RE_var_name              (* different variable name at the same position *)
| RE_after_wild            (* segments after the wildcard *)
| RE_dup_var               (* variable name used more than once *)
| RE_rest_vs_lit
| RE_rest_vs_var
| RE_rest_name
| RE_dup_route             (* same method, same range *)
| RE_overlap               (* same method, overlapping ranges *)
| RE_dot_segment           (* literal "." or ".." segment in a route path *)
| RE_rest_vs_exact         (* wildcard where the path that ends before it has handlers *)
| RE_exact_vs_rest.        (* path ends at a node that has a wildcard edge *)

(* ---------- template parsing ---------- *)

Fixpoint split_on (c : N) (s : str) : list str :=
  match s with
  | [] => [[]]
  | x :: s' =>
      if x =? c then [] :: split_on c s'
      else match split_on c s' with
           | [] => [[x]]                (* unreachable: split_on never returns [] *)
           | h :: t => (x :: h) :: t
           end
  end.

Definition last_byte (s : str) : option N :=
  match rev s with [] => None | x :: _ => Some x end.

Fixpoint find_byte (c : N) (s : str) : option (str * str) :=
  match s with
  | [] => None
  | x :: s' =>
      if x =? c then Some ([], s')
      else match find_byte c s' with
           | None => None
           | Some (a, b) => Some (x :: a, b)
           end
  end.

(* [PathSegment::from] *)
Definition pseg_of (seg : str) : res reg_err pseg :=
  let starts := match seg with 123 :: _ => true | _ => false end in
  let ends := match last_byte seg with Some 125 => true | _ => false end in
  if starts || ends then
    if negb starts then Err RE_var_missing_open
    else if negb ends then Err RE_var_missing_close
    else
      (* &segment[1 .. len-1] *)
      let var := removelast (tl seg) in
      let '(name, pat) := match find_byte 58 var with
                          | Some (a, b) => (a, Some b)
                          | None => (var, None)
                          end in
      match name with
      | [] => Err RE_var_empty
      | _ =>
          match pat with
          | None => Ok (PVar name)
          | Some p => if str_eqb p [46; 42] then Ok (PWild name) else Err RE_bad_pattern
          end
      end
  else Ok (PLit seg).

Fixpoint map_res {E A B} (f : A -> res E B) (l : list A) : res E (list B) :=
  match l with
  | [] => Ok []
  | x :: l' => do y <- f x; do ys <- map_res f l'; Ok (y :: ys)
  end.

(* [route_path_to_segments]: leading '/', no empty inner segment, a trailing
   empty segment is dropped *)
Definition route_segments (path : str) : res reg_err (list str) :=
  match path with
  | 47 :: rest =>
      let segs := split_on 47 rest in
      if existsb (fun s => match s with [] => true | _ => false end) (removelast segs)
      then Err RE_empty_segment
      else if existsb (fun s => str_eqb s [46] || str_eqb s [46; 46]) segs
      then Err RE_dot_segment
      else match last segs [1] with
           | [] => Ok (removelast segs)
           | _ => Ok segs
           end
  | _ => Err RE_no_leading_slash
  end.

Definition parse_template (path : str) : res reg_err (list pseg) :=
  do segs <- route_segments path; map_res pseg_of segs.

(* ---------- the trie ---------- *)

Section Router.
  Variable V : Type.
  Variable cmp : V -> V -> comparison.

  Record endpoint := mkEp {
    e_id : str;                       (* operation id *)
    e_method : str;
    e_versions : vrange V;
    e_ctype : N;                      (* body content type tag *)
    e_maxbytes : option N;            (* per-endpoint body limit *)
    e_visible : bool
  }.

  (* [BTreeMap<String, Vec<ApiEndpoint>>]: key-sorted association list, the
     Vec in registration order *)
  Definition methods := list (str * list endpoint).

  Inductive node : Type :=
  | Node (ms : methods) (ed : edges)
  with edges : Type :=
  | ENone
  | ELits (cs : children)                 (* BTreeMap<String, Box<Node>>: key-sorted *)
  | EVar (x : str) (n : node)
  | ERest (x : str) (n : node)
  with children : Type :=
  | CNil
  | CCons (k : str) (n : node) (cs : children).

  Definition empty_node : node := Node [] ENone.
  Definition node_methods (n : node) : methods := match n with Node ms _ => ms end.
  Definition node_edges (n : node) : edges := match n with Node _ ed => ed end.

  Fixpoint find_child (k : str) (cs : children) : option node :=
    match cs with
    | CNil => None
    | CCons k' n cs' => if str_eqb k k' then Some n else find_child k cs'
    end.

  (* apply [f] to the child under key [k] (a fresh empty node when absent),
     keeping the keys sorted — [entry(k).or_insert_with(new)] then descend *)
  Fixpoint upd_child (k : str) (f : node -> res reg_err node) (cs : children)
    : res reg_err children :=
    match cs with
    | CNil => do c <- f empty_node; Ok (CCons k c CNil)
    | CCons k' n cs' =>
        match str_cmp k k' with
        | Eq => do c <- f n; Ok (CCons k' c cs')
        | Lt => do c <- f empty_node; Ok (CCons k c cs)
        | Gt => do cs'' <- upd_child k f cs'; Ok (CCons k' n cs'')
        end
    end.

  (* methods map *)
  Fixpoint get_method (m : str) (ms : methods) : list endpoint :=
    match ms with
    | [] => []
    | (k, hs) :: ms' => if str_eqb m k then hs else get_method m ms'
    end.

  Fixpoint set_method (m : str) (hs : list endpoint) (ms : methods) : methods :=
    match ms with
    | [] => [(m, hs)]
    | (k, hs') :: ms' =>
        match str_cmp m k with
        | Eq => (k, hs) :: ms'
        | Lt => (m, hs) :: ms
        | Gt => (k, hs') :: set_method m hs ms'
        end
    end.

  Definition vrange_eqb (r1 r2 : vrange V) : bool :=
    match r1, r2 with
    | VAll, VAll => true
    | VFrom a, VFrom b => veq V cmp a b
    | VUntil a, VUntil b => veq V cmp a b
    | VFromUntil a b, VFromUntil c d => veq V cmp a c && veq V cmp b d
    | _, _ => false
    end.

  Definition has_handlers (ms : methods) : bool :=
    existsb (fun kh => negb (is_nil (snd kh))) ms.

  (* the tail of [insert]: conflict test against every handler already
     registered for the method at this node, then push *)
  Definition push_handler (e : endpoint) (ms : methods) (ed : edges) : res reg_err node :=
    let m := str_upper (e_method e) in
    let existing := get_method m ms in
    match find (fun h => overlaps V cmp (e_versions h) (e_versions e)) existing with
    | Some h => if vrange_eqb (e_versions h) (e_versions e) then Err RE_dup_route
                else Err RE_overlap
    | None => Ok (Node (set_method m (existing ++ [e]) ms) ed)
    end.

  Definition add_handler (e : endpoint) (n : node) : res reg_err node :=
    match n with
    | Node ms ed =>
        match ed with
        | ERest _ _ => Err RE_exact_vs_rest   (* the wildcard already matches the path that ends here *)
        | _ => push_handler e ms ed
        end
    end.

  (* [insert]: walk the template from node [n]; [seen] are the variable names
     used so far on this path *)
  Fixpoint insert_at (e : endpoint) (t : list pseg) (seen : list str) (n : node)
    : res reg_err node :=
    match t with
    | [] => add_handler e n
    | PLit s :: t' =>
        match n with
        | Node ms ed =>
            match ed with
            | ENone => do c <- insert_at e t' seen empty_node;
                       Ok (Node ms (ELits (CCons s c CNil)))
            | ELits cs => do cs' <- upd_child s (insert_at e t' seen) cs;
                          Ok (Node ms (ELits cs'))
            | EVar _ _ | ERest _ _ => Err RE_lit_vs_var
            end
        end
    | PVar x :: t' =>
        if mem_str x seen then Err RE_dup_var else
        match n with
        | Node ms ed =>
            match ed with
            | ENone => do c <- insert_at e t' (x :: seen) empty_node;
                       Ok (Node ms (EVar x c))
            | ELits _ => Err RE_var_vs_lit
            | ERest _ _ => Err RE_var_vs_rest
            | EVar y c =>
                if str_eqb x y then do c' <- insert_at e t' (x :: seen) c;
                                    Ok (Node ms (EVar y c'))
                else Err RE_var_name
            end
        end
    | PWild x :: t' =>
        match t' with
        | _ :: _ => Err RE_after_wild
        | [] =>
            if mem_str x seen then Err RE_dup_var else
            match n with
            | Node ms ed =>
                if has_handlers ms then Err RE_rest_vs_exact else
                match ed with
                | ENone => do c <- add_handler e empty_node; Ok (Node ms (ERest x c))
                | ELits _ => Err RE_rest_vs_lit
                | EVar _ _ => Err RE_rest_vs_var
                | ERest y c =>
                    if str_eqb x y then do c' <- add_handler e c; Ok (Node ms (ERest y c'))
                    else Err RE_rest_name
                end
            end
        end
    end.

  Definition insert (r : node) (te : list pseg * endpoint) : res reg_err node :=
    insert_at (snd te) (fst te) [] r.

  Fixpoint build_from (r : node) (eps : list (list pseg * endpoint)) : res reg_err node :=
    match eps with
    | [] => Ok r
    | te :: eps' => do r' <- insert r te; build_from r' eps'
    end.
  Definition build := build_from empty_node.

  (* a history of registrations: a refused declaration leaves the router as
     it was (the validators and the conflict tests run before anything is
     stored) and the history goes on *)
  Definition register_history (hist : list (list pseg * endpoint))
    : list (list pseg * endpoint) * node :=
    fold_left (fun st d => match insert (snd st) d with
                           | Ok r' => (fst st ++ [d], r')
                           | Err _ => st
                           end) hist ([], empty_node).

  (* ---------- lookup ---------- *)

  (* [VariableSet = BTreeMap<String, VariableValue>]: key-sorted, insert
     replaces *)
  Definition bmap := list (str * varval).
  Fixpoint bm_insert (k : str) (v : varval) (m : bmap) : bmap :=
    match m with
    | [] => [(k, v)]
    | (k', v') :: m' =>
        match str_cmp k k' with
        | Eq => (k', v) :: m'
        | Lt => (k, v) :: m
        | Gt => (k', v') :: bm_insert k v m'
        end
    end.

  Inductive outcome :=
  | Found (e : endpoint) (vars : bmap)
  | E404
  | E405 (allow : list str)
  | EPanic.          (* the two [assert!(node.edges.is_none())] *)

  Definition is_enone (ed : edges) : bool := match ed with ENone => true | _ => false end.

  (* the walk of [lookup_route]'s while loop *)
  Fixpoint walk (segs : list str) (n : node) (vars : bmap) : option (option (node * bmap)) :=
    (* None = assertion failure; Some None = no such path *)
    match segs with
    | [] => Some (Some (n, vars))
    | s :: rest =>
        match node_edges n with
        | ENone => Some None
        | ELits cs =>
            match find_child s cs with
            | None => Some None
            | Some c => walk rest c vars
            end
        | EVar x c => walk rest c (bm_insert x (Single s) vars)
        | ERest x c =>
            if is_enone (node_edges c)
            then Some (Some (c, bm_insert x (Multi (s :: rest)) vars))
            else None
        end
    end.

  Definition find_handler (hs : list endpoint) (v : option V) : option endpoint :=
    find (fun h => vmatches V cmp (e_versions h) v) hs.

  Definition serving_methods (ms : methods) (v : option V) : list str :=
    map fst (filter (fun kh => match find_handler (snd kh) v with Some _ => true | None => false end) ms).

  Definition finish (m : str) (v : option V) (n : node) (vars : bmap) : outcome :=
    match find_handler (get_method (str_upper m) (node_methods n)) v with
    | Some h => Found h vars
    | None =>
        match serving_methods (node_methods n) v with
        | [] => E404
        | allow => E405 allow
        end
    end.

  Definition lookup (r : node) (m : str) (segs : list str) (v : option V) : outcome :=
    match walk segs r [] with
    | None => EPanic
    | Some None => E404
    | Some (Some (n, vars)) =>
        (* "The wildcard match consumes the implicit, empty path segment" *)
        match node_edges n with
        | ERest x c =>
            if is_enone (node_edges c) then finish m v c (bm_insert x (Multi []) vars)
            else EPanic
        | _ => finish m v n vars
        end
    end.

  (* ---------- iteration (HttpRouterIter): pre-order ---------- *)

  Definition render_seg (p : pseg) : str :=
    match p with
    | PLit s => s
    | PVar x => 123 :: x ++ [125]
    | PWild x => 123 :: x ++ [58; 46; 42; 125]
    end.

  Definition handlers_at (ms : methods) (v : option V) : list (str * endpoint) :=
    flat_map (fun kh => map (fun h => (fst kh, h))
                          (filter (fun h => vmatches V cmp (e_versions h) v) (snd kh))) ms.

  (* path prefix is kept reversed *)
  Fixpoint iter_node (n : node) (v : option V) (rpath : list pseg)
    : list (list pseg * str * endpoint) :=
    match n with
    | Node ms ed =>
        map (fun mh => (rev rpath, fst mh, snd mh)) (handlers_at ms v)
        ++ iter_edges ed v rpath
    end
  with iter_edges (ed : edges) (v : option V) (rpath : list pseg)
    : list (list pseg * str * endpoint) :=
    match ed with
    | ENone => []
    | ELits cs => iter_children cs v rpath
    | EVar x c => iter_node c v (PVar x :: rpath)
    (* [iter_node] in router.rs renders a wildcard edge as a plain variable *)
    | ERest x c => iter_node c v (PVar x :: rpath)
    end
  with iter_children (cs : children) (v : option V) (rpath : list pseg)
    : list (list pseg * str * endpoint) :=
    match cs with
    | CNil => []
    | CCons k c cs' => iter_node c v (PLit k :: rpath) ++ iter_children cs' v rpath
    end.

  Definition iter (r : node) (v : option V) := iter_node r v [].
End Router.

Arguments mkEp {V}.
Arguments e_id {V}.
Arguments e_method {V}.
Arguments e_versions {V}.
Arguments e_ctype {V}.
Arguments e_maxbytes {V}.
Arguments e_visible {V}.
Arguments Found {V}.
Arguments E404 {V}.
Arguments E405 {V}.
Arguments EPanic {V}.
