(* Register.v — model of what [ApiDescription::register] checks before the
   router sees an endpoint (api_description.rs: validate_tags,
   validate_path_parameters, validate_named_parameters; type_util.rs:
   type_is_scalar, type_is_string_enum, type_resolve), composed with the
   router's [insert].  Model only; proofs in RegisterProofs.v.

   A parameter schema is abstracted to the shape those functions inspect. *)
From DS Require Import Base Versions Router RouterSpec.

(* InstanceType: 0 null 1 boolean 2 object 3 array 4 number 5 string 6 integer *)
Definition ity := N.
Definition scalar_ty (t : ity) : bool := (t =? 1) || (t =? 4) || (t =? 5) || (t =? 6).
Definition string_ty (t : ity) : bool := t =? 5.

Inductive ps :=
| SType (t : ity)            (* a single instance type and nothing structural: no subschemas, array, object, reference *)
| SRef (name : str)          (* a bare reference *)
| SAll (l : list ps)         (* only allOf *)
| SAny (l : list ps)         (* only anyOf *)
| SOne (l : list ps)         (* only oneOf *)
| SArr (item : ps)           (* type array with a single items schema and nothing else *)
| SMixed.                    (* anything else: several types, a type together with subschemas, no type at all, ... *)

Inductive verr :=
| VE_cycle            (* panic: "type reference cycle detected" *)
| VE_bad_ref          (* panic: "invalid reference" *)
| VE_fuel.            (* the model ran out of fuel (never on the cases evaluated; reported as malformed) *)

Definition defs := list (str * ps).
Fixpoint lookup_def (n : str) (d : defs) : option ps :=
  match d with
  | [] => None
  | (k, s) :: d' => if str_eqb n k then Some s else lookup_def n d'
  end.

(* [type_resolve]: follow bare references, panicking on a cycle *)
Fixpoint resolve (fuel : nat) (d : defs) (seen : list str) (s : ps) : res verr ps :=
  match s with
  | SRef n =>
      match fuel with
      | O => Err VE_fuel
      | S f =>
          if mem_str n seen then Err VE_cycle
          else match lookup_def n d with
               | None => Err VE_bad_ref
               | Some s' => resolve f d (n :: seen) s'
               end
      end
  | _ => Ok s
  end.

(* [Iterator::all] with a fallible predicate: stops at the first false *)
Fixpoint all_res {A} (f : A -> res verr bool) (l : list A) : res verr bool :=
  match l with
  | [] => Ok true
  | x :: l' => do b <- f x; if b then all_res f l' else Ok false
  end.

(* [type_resolve], remembering which definition's body it ended in (None: the
   schema itself was not a reference).  The body of a definition is one
   object in memory however it is reached: its name stands for its address. *)
Fixpoint resolve_named (fuel : nat) (d : defs) (seen : list str) (last : option str) (s : ps)
  : res verr (option str * ps) :=
  match s with
  | SRef n =>
      match fuel with
      | O => Err VE_fuel
      | S f =>
          if mem_str n seen then Err VE_cycle
          else match lookup_def n d with
               | None => Err VE_bad_ref
               | Some s' => resolve_named f d (n :: seen) (Some n) s'
               end
      end
  | _ => Ok (last, s)
  end.

(* [type_is_scalar_common] with [type_check] = chk.  [path]: the definitions
   whose bodies are being examined further up (type_is_scalar_path's [path],
   compared by address): a type that contains itself through allOf / anyOf /
   oneOf is not scalar (fix 97a0ad7; before it the recursion had no bound and
   the process died of a stack overflow). *)
Fixpoint is_scalar_path (fuel : nat) (d : defs) (chk : ity -> bool) (path : list str) (s : ps) : res verr bool :=
  match fuel with
  | O => Err VE_fuel
  | S f =>
      do ns <- resolve_named (S (length d)) d [] None s;
      let '(name, s') := ns in
      if match name with Some n => mem_str n path | None => false end then Ok false
      else
        let path' := match name with Some n => n :: path | None => path end in
        match s' with
        | SType t => Ok (chk t)
        | SAll [x] => is_scalar_path f d chk path' x
        | SAny [x] => is_scalar_path f d chk path' x
        | SOne l => all_res (is_scalar_path f d chk path') l
        | _ => Ok false
        end
  end.
Definition is_scalar (fuel : nat) (d : defs) (chk : ity -> bool) (s : ps) : res verr bool :=
  is_scalar_path fuel d chk [] s.

(* [type_is_string_enum] *)
Definition is_string_array (fuel : nat) (d : defs) (s : ps) : res verr bool :=
  do s' <- resolve (S (length d)) d [] s;
  match s' with
  | SArr item => is_scalar fuel d string_ty item
  | _ => Ok false
  end.

(* [schema_extract_description]: a property that is a lone allOf is replaced
   by its member before anything looks at it *)
Definition flatten_top (s : ps) : ps := match s with SAll [x] => x | _ => s end.

(* ---- declarations ---- *)
Inductive ploc := LPath | LQuery.
Record param := mkParam { p_loc : ploc; p_name : str; p_schema : ps }.

Inductive tag_policy := TagAny | TagAtLeastOne | TagExactlyOne.
Record tag_config := mkTagConfig { tc_policy : tag_policy; tc_allow_other : bool; tc_known : list str }.

(* [validate_tags] *)
Definition tags_ok (tc : tag_config) (visible : bool) (tags : list str) : bool :=
  if negb visible then true else
  (match tc_policy tc, tags with
   | TagAtLeastOne, [] => false
   | TagExactlyOne, [_] => true
   | TagExactlyOne, _ => false
   | _, _ => true
   end) &&
  (tc_allow_other tc || forallb (fun t => mem_str t (tc_known tc)) tags).

Definition seg_vars (t : list pseg) : list (str * bool) :=   (* name, is wildcard *)
  flat_map (fun p => match p with PLit _ => [] | PVar x => [(x, false)] | PWild x => [(x, true)] end) t.

Definition path_names (ps : list param) : list str :=
  flat_map (fun p => match p_loc p with LPath => [p_name p] | LQuery => [] end) ps.

Definition subset_str (a b : list str) : bool := forallb (fun x => mem_str x b) a.

(* [validate_path_parameters]: the two HashSets are equal *)
Definition path_params_match (t : list pseg) (ps : list param) : bool :=
  subset_str (map fst (seg_vars t)) (path_names ps) && subset_str (path_names ps) (map fst (seg_vars t)).

Fixpoint seg_kind (x : str) (l : list (str * bool)) : option bool :=
  (* BTreeMap built by collect(): a later entry for the same name wins *)
  match l with
  | [] => None
  | (y, w) :: l' => match seg_kind x l' with
                    | Some w' => Some w'
                    | None => if str_eqb x y then Some w else None
                    end
  end.

Definition FUEL : nat := 64.

(* one parameter of [validate_named_parameters]: Ok true = fine, Ok false =
   refused with Err, Err = panic *)
Definition named_ok (t : list pseg) (d : defs) (p : param) : res verr bool :=
  let s := flatten_top (p_schema p) in
  match p_loc p with
  | LPath =>
      match seg_kind (p_name p) (seg_vars t) with
      | Some false => is_scalar FUEL d scalar_ty s
      | Some true => is_string_array FUEL d s
      | None => Ok true    (* unreachable after validate_path_parameters *)
      end
  | LQuery =>
      if mem_str (p_name p) (map fst (seg_vars t)) then Ok false
      else is_scalar FUEL d scalar_ty s
  end.

Definition named_params_ok (t : list pseg) (d : defs) (ps : list param) : res verr bool :=
  all_res (named_ok t d) ps.

Section Reg.
  Variable V : Type.
  Variable cmp : V -> V -> comparison.

  Record full_decl := mkDecl {
    d_path : str;
    d_ep : endpoint V;
    d_tags : list str;
    d_params : list param;
    d_defs : defs
  }.

  Inductive reg_outcome :=
  | RAccepted (r : node V)
  | RRefused                    (* register returned Err; nothing was stored *)
  | RPanic (e : reg_err)        (* a router / template panic *)
  | RPanicV (e : verr).         (* a panic inside the validators *)

  (* [ApiDescription::register]: validate_tags, validate_path_parameters,
     validate_named_parameters, router.insert — in this order *)
  Definition register (tc : tag_config) (r : node V) (d : full_decl) : reg_outcome :=
    if negb (tags_ok tc (e_visible (d_ep d)) (d_tags d)) then RRefused else
    match parse_template (d_path d) with
    | Err e => RPanic e
    | Ok t =>
        if negb (path_params_match t (d_params d)) then RRefused else
        match named_params_ok t (d_defs d) (d_params d) with
        | Err e => RPanicV e
        | Ok false => RRefused
        | Ok true =>
            match insert V cmp r (t, d_ep d) with
            | Ok r' => RAccepted r'
            | Err e => RPanic e
            end
        end
    end.
End Reg.

Arguments mkDecl {V}.
Arguments d_path {V}.
Arguments d_ep {V}.
Arguments d_tags {V}.
Arguments d_params {V}.
Arguments d_defs {V}.
Arguments RAccepted {V}.
Arguments RRefused {V}.
Arguments RPanic {V}.
Arguments RPanicV {V}.
