(* DocComment.v — model of dropshot_endpoint/src/doc.rs:
   [ExtractedDoc::from_attrs] and [normalize_comment_string].

   A doc attribute value is the raw string rustc hands to the macro
   ([/// foo] gives " foo"; a [/** .. */] block gives everything between the
   delimiters, newlines and [ * ] decoration included).  Strings here are
   lists of Unicode scalar values (code points), not UTF-8 bytes: the code
   works on [char]s ([trim_start], [trim_end], [split('\n')],
   [ends_with('-')]) and the Rust notion of whitespace is a set of code
   points.  Model only — the proofs are in DocCommentProofs.v. *)
From DS Require Import Base.

Definition ustr := list N.

(* [char::is_whitespace] = the Unicode White_Space property *)
Definition is_ws (c : N) : bool :=
  if c <? 128 then ((9 <=? c) && (c <=? 13)) || (c =? 32)     (* ASCII first: the common case *)
  else (c =? 133) || (c =? 160)
       || (c =? 5760) || ((8192 <=? c) && (c <=? 8202)) || (c =? 8232)
       || (c =? 8233) || (c =? 8239) || (c =? 8287) || (c =? 12288).

Definition NL : N := 10.
Definition SP : N := 32.
Definition STAR : N := 42.
Definition HYPHEN : N := 45.

(* [str::trim_start], [str::trim_end] *)
Fixpoint trim_start (s : ustr) : ustr :=
  match s with
  | c :: r => if is_ws c then trim_start r else s
  | [] => []
  end.
(* (reversal by accumulation: [rev_append l [] = rev l], linear) *)
Definition frev (s : ustr) : ustr := rev_append s [].
Definition trim_end (s : ustr) : ustr := frev (trim_start (frev s)).
Definition trim (s : ustr) : ustr := trim_end (trim_start s).

(* [str::split('\n')]: always at least one (possibly empty) piece *)
Fixpoint split_nl (s : ustr) : list ustr :=
  match s with
  | [] => [[]]
  | c :: r =>
      if c =? NL then [] :: split_nl r
      else match split_nl r with
           | l :: ls => (c :: l) :: ls
           | [] => [[c]]          (* unreachable: split_nl is never empty *)
           end
  end.

(* [trimmed.strip_prefix("* ").unwrap_or_else(|| trimmed.strip_prefix('*').unwrap_or(trimmed))] *)
Definition strip_star (l : ustr) : ustr :=
  match l with
  | c :: r =>
      if c =? STAR then
        match r with
        | d :: r' => if d =? SP then r' else r
        | [] => r
        end
      else l
  | [] => l
  end.

(* [normalize_comment_string]: every line is trimmed; the continuation lines
   (all but line 0) additionally lose one leading '*' (and one blank after
   it), but only when the attribute is star-decorated:
     let decorated = s.split('\n').skip(1).map(|s| s.trim())
                      .filter(|s| !s.is_empty()).all(|s| s.starts_with('*')); *)
Definition norm_first (l : ustr) : ustr := trim l.
Definition norm_cont (l : ustr) : ustr := strip_star (trim l).

Definition first_is_star (t : ustr) : bool :=
  match t with c :: _ => c =? STAR | [] => false end.
Definition is_decorated (rest : list ustr) : bool :=
  forallb first_is_star (filter (fun t => negb (is_nil t)) (map trim rest)).

Definition normalize (s : ustr) : list ustr :=
  match split_nl s with
  | first :: rest =>
      norm_first first :: (if is_decorated rest then map norm_cont rest else map trim rest)
  | [] => []
  end.

(* the flat_map over the item's doc attributes *)
Definition doc_lines (docs : list ustr) : list ustr := flat_map normalize docs.

(* [loop { match lines.next() { Some(s) if s.is_empty() => (), next => break next } }]:
   the first non-empty line, and what the iterator still holds *)
Fixpoint skip_blank (ls : list ustr) : option ustr * list ustr :=
  match ls with
  | [] => (None, [])
  | l :: r => if is_nil l then skip_blank r else (Some l, r)
  end.

Fixpoint ends_with (s : ustr) (c : N) : bool :=
  match s with
  | [] => false
  | [x] => x =? c
  | _ :: r => ends_with r c
  end.

(* the closure folded over the remaining lines *)
Definition fold_step (acc comment : ustr) : ustr :=
  if ends_with acc HYPHEN || ends_with acc NL || is_nil acc then acc ++ comment
  else if is_nil comment then acc ++ [NL; NL]
  else acc ++ SP :: comment.

Record extracted := mkExtracted { summary : option ustr; description : option ustr }.

Definition extract_lines (ls : list ustr) : extracted :=
  let (s, r1) := skip_blank ls in
  let (f, r2) := skip_blank r1 in
  mkExtracted s
    (match f with
     | Some first => Some (trim_end (fold_left fold_step r2 first))
     | None => None
     end).

(* [ExtractedDoc::from_attrs] on the values of the [#[doc = ".."]] attributes *)
Definition extract (docs : list ustr) : extracted := extract_lines (doc_lines docs).

(* ---------- the item's attribute list ---------- *)

(* [from_attrs] walks ALL attributes of the item: a [doc] attribute whose
   value is a string literal contributes its lines; a [doc] attribute with any
   other value ([#[doc = concat!(..)]], [include_str!(..)], [#[doc(hidden)]])
   and every other attribute ([#[allow(..)]], [#[cfg(..)]], [#[deprecated]],
   ..) contributes nothing ([Vec::new()]) and does not stop the walk *)
Inductive item_attr :=
| ADocLit (s : ustr)    (* #[doc = "literal"], /// .., /** .. */ *)
| ADocExpr              (* #[doc = <not a string literal>] *)
| AOther.               (* any other attribute *)

Definition literal_docs (attrs : list item_attr) : list ustr :=
  flat_map (fun a => match a with ADocLit s => [s] | ADocExpr => [] | AOther => [] end) attrs.

Definition extract_attrs (attrs : list item_attr) : extracted := extract (literal_docs attrs).

(* ---------- the specification side ---------- *)

(* the non-blank characters, in order *)
Definition nonblank (s : ustr) : ustr := filter (fun c => negb (is_ws c)) s.

Definition opt_str (o : option ustr) : ustr := match o with Some s => s | None => [] end.

(* what the document shows of the comment: summary followed by description *)
Definition shown (e : extracted) : ustr :=
  nonblank (opt_str (summary e)) ++ nonblank (opt_str (description e)).

(* What a doc attribute SAYS.  In a block comment every continuation line may
   carry a [*] decoration; it is decoration exactly when every non-blank
   continuation line has it (the rule rustdoc applies).  Otherwise a leading
   [*] is text (a markdown bullet or emphasis). *)
Definition blank (l : ustr) : bool := is_nil (trim_start l).
Definition starts_star (l : ustr) : bool :=
  match trim_start l with c :: _ => c =? STAR | [] => false end.
Definition drop_star (l : ustr) : ustr :=
  match trim_start l with
  | c :: r => if c =? STAR then r else l
  | [] => l
  end.
Definition decorated (rest : list ustr) : bool :=
  forallb (fun l => blank l || starts_star l) rest.

Definition declared_lines (s : ustr) : list ustr :=
  match split_nl s with
  | first :: rest => first :: (if decorated rest then map drop_star rest else rest)
  | [] => []
  end.

(* the text of the comment: non-blank characters of all attributes in order *)
Definition declared_text (docs : list ustr) : ustr :=
  flat_map (fun s => flat_map nonblank (declared_lines s)) docs.

(* the property clause, decidable: nothing dropped, nothing reordered *)
Definition doc_lossless_b (docs : list ustr) (e : extracted) : bool :=
  list_eqb N.eqb (shown e) (declared_text docs).
