(* Websocket.v — executable model of dropshot's WebSocket upgrade
   (dropshot/src/websocket.rs): [WebsocketUpgrade::from_request],
   [derive_accept_key], [WebsocketUpgrade::handle], and the adapter the
   [#[channel]] macro puts around them (dropshot_endpoint/src/channel.rs,
   [to_adapter_fn]).

   A request is seen as the list of its header fields in wire order.  hyper
   delivers each field line as (lower-cased name, value with leading and
   trailing SP / HTAB removed): [deliver] below is that contract (httparse
   1.10 [parse_headers_iter_uninit] + hyper 1.6 [Server::parse]); obs-fold is
   refused by hyper and never reaches dropshot.  [http::HeaderMap::get_all]
   yields the values of a name in wire order, [get] the first of them.

   Definitions only; proofs are in WebsocketProofs.v. *)
From DS Require Import Base Base64 Sha1.

(* ---------- header fields ---------- *)

Definition header := (str * str)%type.     (* (name, value) *)

Definition is_ows (c : N) : bool := (c =? 32) || (c =? 9).   (* SP, HTAB *)

Fixpoint trim_left (s : str) : str :=
  match s with
  | [] => []
  | c :: r => if is_ows c then trim_left r else s
  end.

Fixpoint trim_right (s : str) : str :=
  match s with
  | [] => []
  | c :: r =>
      match trim_right r with
      | [] => if is_ows c then [] else [c]
      | r' => c :: r'
      end
  end.

Definition trim_ows (s : str) : str := trim_right (trim_left s).

(* hyper's delivery of one field line as sent on the wire
   (name, bytes between the colon and CRLF) *)
Definition deliver (w : str * str) : header := (str_lower (fst w), trim_ows (snd w)).

Definition get_all (name : str) (hs : list header) : list str :=
  map snd (filter (fun h => str_eqb (fst h) name) hs).

Definition get (name : str) (hs : list header) : option str :=
  match get_all name hs with
  | [] => None
  | v :: _ => Some v
  end.

(* "connection" "upgrade" "sec-websocket-version" "sec-websocket-key" *)
Definition n_connection : str := [99;111;110;110;101;99;116;105;111;110].
Definition n_upgrade : str := [117;112;103;114;97;100;101].
Definition n_version : str :=
  [115;101;99;45;119;101;98;115;111;99;107;101;116;45;118;101;114;115;105;111;110].
Definition n_key : str :=
  [115;101;99;45;119;101;98;115;111;99;107;101;116;45;107;101;121].
(* "sec-websocket-accept" *)
Definition n_accept : str :=
  [115;101;99;45;119;101;98;115;111;99;107;101;116;45;97;99;99;101;112;116].

(* the tokens looked for: "upgrade", "websocket"; the version: "13" *)
Definition t_upgrade : str := [117;112;103;114;97;100;101].
Definition t_websocket : str := [119;101;98;115;111;99;107;101;116].
Definition v_13 : str := [49;51].

(* ---------- [HeaderValue::to_str] ---------- *)

(* Ok iff every byte is visible ASCII (32..126) or HTAB *)
Definition visible_ascii (b : N) : bool := ((32 <=? b) && (b <? 127)) || (b =? 9).
Definition to_str_ok (v : str) : bool := forallb visible_ascii v.

(* ---------- [str::split] on a set of separator characters ---------- *)

Definition cons_head (c : N) (l : list str) : list str :=
  match l with
  | h :: t => (c :: h) :: t
  | [] => [[c]]     (* not reached: [split_on] never returns [] *)
  end.

(* Rust's [split]: the pieces between separators, empty pieces included; the
   empty string has one (empty) piece. *)
Fixpoint split_on (p : N -> bool) (s : str) : list str :=
  match s with
  | [] => [[]]
  | c :: r => if p c then [] :: split_on p r else cons_head c (split_on p r)
  end.

(* |c| c == ',' || c == ' ' || c == '\t' *)
Definition is_sep (c : N) : bool := (c =? 44) || (c =? 32) || (c =? 9).

(* [str::eq_ignore_ascii_case] *)
Definition eq_ic (a b : str) : bool := str_eqb (str_lower a) (str_lower b).

(* hv.split(..).any(|vs| vs.eq_ignore_ascii_case(tok)) *)
Definition line_has_token (tok v : str) : bool :=
  existsb (fun piece => eq_ic piece tok) (split_on is_sep v).

(* headers().get_all(name).iter().filter_map(|hv| hv.to_str().ok()).any(..) *)
Definition header_has_token (name tok : str) (hs : list header) : bool :=
  existsb (line_has_token tok) (filter to_str_ok (get_all name hs)).

(* ---------- from_request ---------- *)

Inductive reason :=
| RConnection   (* "expected connection upgrade" *)
| RUpgrade      (* "unexpected protocol for upgrade" *)
| RVersion      (* "missing or invalid websocket version" *)
| RKey.         (* "missing websocket key" *)

Inductive decision :=
| Accept (key : str)        (* the request key whose digest is answered *)
| Reject400 (r : reason).   (* HttpError::for_bad_request *)

(* the four tests, in the code's order *)
Definition decide (hs : list header) : decision :=
  if negb (header_has_token n_connection t_upgrade hs) then Reject400 RConnection
  else if negb (header_has_token n_upgrade t_websocket hs) then Reject400 RUpgrade
  else if negb (option_eqb str_eqb (get n_version hs) (Some v_13)) then Reject400 RVersion
  else match get n_key hs with
       | Some k => Accept k
       | None => Reject400 RKey
       end.

(* ---------- derive_accept_key ---------- *)

(* "258EAFA5-E914-47DA-95CA-C5AB0DC85B11" *)
Definition ws_guid : str :=
  [50;53;56;69;65;70;65;53;45;69;57;49;52;45;52;55;68;65;45;57;53;67;65;45;
   67;53;65;66;48;68;67;56;53;66;49;49].

Definition accept_key (request_key : str) : str :=
  b64_encode Standard (sha1 (request_key ++ ws_guid)).

(* what [from_request] keeps: the accept key ([upgrade_fut], [route] and the
   logger have no bearing on the property) *)
Definition from_request (hs : list header) : res reason str :=
  match decide hs with
  | Accept k => Ok (accept_key k)
  | Reject400 r => Err r
  end.

(* ---------- handle, and the #[channel] adapter ---------- *)

Record response := Resp { status : N; resp_headers : list header }.

(* "Upgrade", "websocket" as written by [handle] *)
Definition v_Upgrade : str := [85;112;103;114;97;100;101].
Definition v_websocket : str := t_websocket.

Definition upgrade_response (accept : str) : response :=
  Resp 101 [(n_connection, v_Upgrade); (n_upgrade, v_websocket); (n_accept, accept)].

(* What the endpoint does with one request:
     [resp]            the response handed back to the server,
     [task_spawned]    [handle] spawned the task that awaits hyper's upgrade and
                       then calls the channel handler with the raw connection,
     so the channel handler runs iff [task_spawned] and hyper completes the
     upgrade (it does after writing a 101 to an HTTP/1.1 request that carried
     an Upgrade field: hyper contract, see the trusted base). *)
Record outcome := Out { resp : response; task_spawned : bool }.

(* [handle]: [self.0.take()] is [None] only if the value was handled before *)
Definition handle (inner : option str) : outcome :=
  match inner with
  | None => Out (Resp 500 []) false          (* "Tried to handle websocket twice" *)
  | Some accept => Out (upgrade_response accept) true
  end.

(* the adapter: extract (an extractor error is the response, the adapter body
   does not run), then [handle] exactly once on the fresh value *)
Definition channel_endpoint (hs : list header) : outcome :=
  match from_request hs with
  | Err _ => Out (Resp 400 []) false
  | Ok accept => handle (Some accept)
  end.

Definition handler_invoked (o : outcome) : bool := task_spawned o.
Definition upgraded (o : outcome) : bool := status (resp o) =? 101.

(* ---------- what hyper does to the response on its way out ---------- *)

(* RFC 9110 §5.6.1 list membership, executable: some comma-separated element,
   with optional whitespace removed, is the token (ASCII case-insensitive).
   Also hyper's [headers::connection_has] (split(','), trim,
   eq_ignore_ascii_case) on a value that [to_str] accepts. *)
Definition is_comma (c : N) : bool := c =? 44.
Definition memberb (tok v : str) : bool :=
  existsb (fun e => eq_ic (trim_ows e) tok) (split_on is_comma v).

Definition t_close : str := [99;108;111;115;101].   (* "close" *)

Definition t_keep_alive : str := [107;101;101;112;45;97;108;105;118;101].   (* "keep-alive" *)

(* [headers::connection_has]: false when [to_str] fails *)
Definition connection_has (tok v : str) : bool := to_str_ok v && memberb tok v.

(* hyper [Server::parse] on an HTTP/1.1 request: [keep_alive] starts true and
   every Connection line, in order, updates it:
     if keep_alive { keep_alive = !connection_close(v) }
     else          { keep_alive = connection_keep_alive(v) } *)
Definition keep_alive_step (ka : bool) (v : str) : bool :=
  if ka then negb (connection_has t_close v) else connection_has t_keep_alive v.
Definition req_close (hs : list header) : bool :=
  negb (fold_left keep_alive_step (get_all n_connection hs) true).

(* hyper [Conn::enforce_version]: with keep-alive disabled the response's
   Connection field is replaced ([HeaderMap::insert], in place) by "close" —
   also on a 101, whose "Connection: Upgrade" is thereby lost *)
Definition set_connection_close (hdrs : list header) : list header :=
  if existsb (fun h => str_eqb (fst h) n_connection) hdrs
  then map (fun h => if str_eqb (fst h) n_connection then (n_connection, t_close) else h) hdrs
  else hdrs ++ [(n_connection, t_close)].

(* the endpoint as seen from the wire *)
Definition served (hs : list header) : outcome :=
  let o := channel_endpoint hs in
  if req_close hs
  then Out (Resp (status (resp o)) (set_connection_close (resp_headers (resp o)))) (task_spawned o)
  else o.

(* ---------- the upgraded connection ---------- *)

(* [WebsocketConnectionRaw] forwards poll_read / poll_write / poll_flush /
   poll_shutdown unchanged to hyper's [Upgraded] (a contract: transparent byte
   pipe).  A handler that copies what it reads to what it writes therefore
   returns to the client the concatenation of whatever pieces the client sent,
   however they were cut. *)
Definition pipe_to_handler (pieces : list str) : str := concat pieces.
Definition echo_handler (input : str) : str := input.
Definition client_receives (pieces : list str) : str := echo_handler (pipe_to_handler pieces).

(* ---------- executable forms of the specification (used by the judge) ----- *)

(* a field value all of whose list elements are free of inner whitespace and
   which is visible ASCII throughout (every RFC 9110 token list is) *)
Definition no_ows (s : str) : bool := forallb (fun c => negb (is_ows c)) s.
Definition wf_valueb (v : str) : bool :=
  to_str_ok v && forallb (fun e => no_ows (trim_ows e)) (split_on is_comma v).

(* some line of the field, whatever its bytes, has the token as a maximal run
   of non-separator bytes *)
Definition lenient_has (name tok : str) (hs : list header) : bool :=
  existsb (line_has_token tok) (get_all name hs).

(* the request carries the element, on a reading nobody disputes: every line
   of the field is a well-formed list and one of them has the token as a list
   element *)
Definition carries (name tok : str) (hs : list header) : bool :=
  forallb wf_valueb (get_all name hs) && existsb (memberb tok) (get_all name hs).
(* the request lacks the element on any reading: no line, whatever its bytes,
   contains the token delimited by commas, spaces, tabs or the ends *)
Definition lacks (name tok : str) (hs : list header) : bool := negb (lenient_has name tok hs).

Definition all_eq (v : str) (l : list str) : bool := forallb (str_eqb v) l.

Inductive cls := MustAccept (k : str) | MustReject | Unspecified.

Definition classify (hs : list header) : cls :=
  let vers := get_all n_version hs in
  let keys := get_all n_key hs in
  if lacks n_connection t_upgrade hs || lacks n_upgrade t_websocket hs
     || negb (existsb (str_eqb v_13) vers) || is_nil keys
  then MustReject
  else match keys with
       | k :: _ =>
           if carries n_connection t_upgrade hs && carries n_upgrade t_websocket hs
              && all_eq v_13 vers && all_eq k keys
           then MustAccept k else Unspecified
       | [] => MustReject
       end.

