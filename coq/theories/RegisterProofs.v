(* RegisterProofs.v — what [ApiDescription::register] accepts (Register.v),
   composed with the route-conflict theorem of RouterProofs.v. *)
From DS Require Import Base Versions VersionsProofs Router RouterSpec RouterProofs Register.

Lemma all_res_true {A} (f : A -> res verr bool) l :
  all_res f l = Ok true <-> forall x, In x l -> f x = Ok true.
Proof.
  induction l as [|x l IH]; cbn [all_res In].
  - split; [intros _ y []|reflexivity].
  - unfold bind. destruct (f x) as [b|e] eqn:Hf.
    + destruct b.
      * rewrite IH. split.
        -- intros H y [<-|Hy]; auto.
        -- intros H y Hy. apply H; auto.
      * split; [discriminate|]. intros H. specialize (H x (or_introl eq_refl)). congruence.
    + split; [discriminate|]. intros H. specialize (H x (or_introl eq_refl)). congruence.
Qed.

(* the declarative reading of the validators, as in the property text *)
Definition params_valid (t : list pseg) (d : defs) (ps : list param) : Prop :=
  (* the path variables are exactly the handler's path parameters *)
  (forall x, In x (vars_of t) <-> In x (path_names ps)) /\
  forall p, In p ps ->
    match p_loc p with
    | LPath =>
        (* a variable's parameter is scalar, the wildcard's an array of strings *)
        match seg_kind (p_name p) (seg_vars t) with
        | Some false => is_scalar FUEL d scalar_ty (flatten_top (p_schema p)) = Ok true
        | Some true => is_string_array FUEL d (flatten_top (p_schema p)) = Ok true
        | None => True
        end
    | LQuery =>
        (* no name is both a path and a query parameter; query parameters are scalar *)
        ~ In (p_name p) (vars_of t) /\
        is_scalar FUEL d scalar_ty (flatten_top (p_schema p)) = Ok true
    end.

Lemma seg_vars_names t : map fst (seg_vars t) = vars_of t.
Proof.
  induction t as [|p t IH]; [reflexivity|].
  destruct p; cbn [seg_vars flat_map app map fst]; unfold seg_vars in IH; rewrite ?IH; reflexivity.
Qed.

Lemma subset_str_iff a b : subset_str a b = true <-> forall x, In x a -> In x b.
Proof.
  unfold subset_str. rewrite forallb_forall. split; intros H x Hx.
  - apply mem_str_In. auto.
  - apply mem_str_In. auto.
Qed.

Lemma validators_iff t d ps :
  (path_params_match t ps = true /\ named_params_ok t d ps = Ok true) <-> params_valid t d ps.
Proof.
  unfold path_params_match, named_params_ok, params_valid.
  rewrite andb_true_iff, !subset_str_iff, seg_vars_names, all_res_true. split.
  - intros [[H1 H2] H3]. split; [intros x; split; auto|].
    intros p Hp. specialize (H3 p Hp). unfold named_ok in H3. rewrite seg_vars_names in H3.
    destruct (p_loc p).
    + destruct (seg_kind (p_name p) (seg_vars t)) as [[|]|]; auto.
    + destruct (mem_str (p_name p) (vars_of t)) eqn:Hm; [discriminate|].
      split; [|exact H3]. intros Hin. apply mem_str_In in Hin. congruence.
  - intros [H1 H2]. split; [split; intros x Hx; apply H1; exact Hx|].
    intros p Hp. specialize (H2 p Hp). unfold named_ok. rewrite seg_vars_names.
    destruct (p_loc p).
    + destruct (seg_kind (p_name p) (seg_vars t)) as [[|]|]; auto.
    + destruct H2 as [Hn Hs].
      destruct (mem_str (p_name p) (vars_of t)) eqn:Hm; [|exact Hs].
      apply mem_str_In in Hm. contradiction.
Qed.

Section RegP.
  Variable V : Type.
  Variable cmp : V -> V -> comparison.

  (* registration accepts exactly the declarations whose tags respect the
     policy, whose parameters are valid for the template, and which conflict
     with no accepted declaration *)
  Theorem register_accept_iff (tc : tag_config) (eps : list (decl V)) (r : node V)
          (d : full_decl V) t :
    build V cmp eps = Ok r -> parse_template (d_path d) = Ok t ->
    ((exists r', register V cmp tc r d = RAccepted r') <->
     tags_ok tc (e_visible (d_ep d)) (d_tags d) = true /\
     params_valid t (d_defs d) (d_params d) /\
     acceptable V cmp eps (t, d_ep d) = true).
  Proof.
    intros Hb Hp. unfold register. rewrite Hp.
    pose proof (register_spec V cmp eps r (t, d_ep d) Hb) as Hr.
    rewrite <- validators_iff.
    destruct (tags_ok tc (e_visible (d_ep d)) (d_tags d)); cbn [negb].
    2: { split; [intros [r' H]; discriminate|intros [H _]; discriminate]. }
    destruct (path_params_match t (d_params d)); cbn [negb].
    2: { split; [intros [r' H]; discriminate|intros (_ & [H _] & _); discriminate]. }
    destruct (named_params_ok t (d_defs d) (d_params d)) as [[|]|e].
    - destruct (insert V cmp r (t, d_ep d)) as [r'|e].
      + split; [intros _; tauto|intros _; eauto].
      + split; [intros [r' H]; discriminate|]. intros (_ & _ & Ha). congruence.
    - split; [intros [r' H]; discriminate|intros (_ & [_ H] & _); discriminate].
    - split; [intros [r' H]; discriminate|intros (_ & [_ H] & _); discriminate].
  Qed.

  (* a refused or panicking registration stores nothing: the only outcome
     that yields a router is acceptance, and it is the router's insert *)
  Theorem register_accepted_is_insert (tc : tag_config) (r r' : node V) (d : full_decl V) :
    register V cmp tc r d = RAccepted r' ->
    exists t, parse_template (d_path d) = Ok t /\ insert V cmp r (t, d_ep d) = Ok r'.
  Proof.
    unfold register.
    destruct (tags_ok tc (e_visible (d_ep d)) (d_tags d)); cbn [negb]; [|discriminate].
    destruct (parse_template (d_path d)) as [t|e]; [|discriminate].
    destruct (path_params_match t (d_params d)); cbn [negb]; [|discriminate].
    destruct (named_params_ok t (d_defs d) (d_params d)) as [[|]|e]; try discriminate.
    destruct (insert V cmp r (t, d_ep d)) as [r1|e] eqn:Hi; [|discriminate].
    intros [= <-]. exists t. auto.
  Qed.

  (* the rejection rules of the property, one by one *)
  Theorem tag_policy_rejected tc r (d : full_decl V) :
    tags_ok tc (e_visible (d_ep d)) (d_tags d) = false -> register V cmp tc r d = RRefused.
  Proof. intros H. unfold register. rewrite H. reflexivity. Qed.

  Theorem param_mismatch_rejected tc r (d : full_decl V) t x :
    parse_template (d_path d) = Ok t ->
    (In x (vars_of t) /\ ~ In x (path_names (d_params d)) \/
     ~ In x (vars_of t) /\ In x (path_names (d_params d))) ->
    forall r', register V cmp tc r d <> RAccepted r'.
  Proof.
    intros Hp Hx r' Hr. unfold register in Hr. rewrite Hp in Hr.
    destruct (tags_ok tc (e_visible (d_ep d)) (d_tags d)); cbn [negb] in Hr; [|discriminate].
    destruct (path_params_match t (d_params d)) eqn:Hm; cbn [negb] in Hr; [|discriminate].
    unfold path_params_match in Hm. rewrite andb_true_iff, !subset_str_iff, seg_vars_names in Hm.
    destruct Hm as [H1 H2]. destruct Hx as [[Ha Hb]|[Ha Hb]]; auto.
  Qed.

  Theorem path_and_query_rejected tc r (d : full_decl V) t p :
    parse_template (d_path d) = Ok t -> In p (d_params d) ->
    p_loc p = LQuery -> In (p_name p) (vars_of t) ->
    forall r', register V cmp tc r d <> RAccepted r'.
  Proof.
    intros Hp Hin Hl Hn r' Hr. unfold register in Hr. rewrite Hp in Hr.
    destruct (tags_ok tc (e_visible (d_ep d)) (d_tags d)); cbn [negb] in Hr; [|discriminate].
    destruct (path_params_match t (d_params d)) eqn:Hm; cbn [negb] in Hr; [|discriminate].
    destruct (named_params_ok t (d_defs d) (d_params d)) as [[|]|e] eqn:Hn'; try discriminate.
    destruct (proj1 (validators_iff t (d_defs d) (d_params d)) (conj Hm Hn')) as [_ Hall].
    specialize (Hall p Hin). rewrite Hl in Hall. tauto.
  Qed.

  Theorem nonscalar_rejected tc r (d : full_decl V) t p :
    parse_template (d_path d) = Ok t -> In p (d_params d) ->
    match p_loc p, seg_kind (p_name p) (seg_vars t) with
    | LPath, Some true => is_string_array FUEL (d_defs d) (flatten_top (p_schema p)) <> Ok true
    | LPath, None => False
    | _, _ => is_scalar FUEL (d_defs d) scalar_ty (flatten_top (p_schema p)) <> Ok true
    end ->
    forall r', register V cmp tc r d <> RAccepted r'.
  Proof.
    intros Hp Hin Hbad r' Hr. unfold register in Hr. rewrite Hp in Hr.
    destruct (tags_ok tc (e_visible (d_ep d)) (d_tags d)); cbn [negb] in Hr; [|discriminate].
    destruct (path_params_match t (d_params d)) eqn:Hm; cbn [negb] in Hr; [|discriminate].
    destruct (named_params_ok t (d_defs d) (d_params d)) as [[|]|e] eqn:Hn'; try discriminate.
    destruct (proj1 (validators_iff t (d_defs d) (d_params d)) (conj Hm Hn')) as [_ Hall].
    specialize (Hall p Hin).
    destruct (p_loc p); [destruct (seg_kind (p_name p) (seg_vars t)) as [[|]|]|]; tauto.
  Qed.
End RegP.

(* the scalar test on concrete shapes *)
Example scalar_examples :
  is_scalar FUEL [] scalar_ty (SType 5) = Ok true /\
  is_scalar FUEL [] scalar_ty (SType 2) = Ok false /\
  is_scalar FUEL [([68], SOne [SType 5; SType 6])] scalar_ty (SAny [SRef [68]]) = Ok true /\
  is_scalar FUEL [([68], SRef [68])] scalar_ty (SRef [68]) = Err VE_cycle /\
  is_scalar FUEL [] scalar_ty (SAll [SType 5; SType 5]) = Ok false /\
  is_string_array FUEL [] (SArr (SType 5)) = Ok true /\
  is_string_array FUEL [] (SArr (SType 6)) = Ok false /\
  (* a type that contains itself through anyOf / allOf / oneOf (enum E { A(Box<E>) }, or two
     definitions through each other) is refused as non-scalar: the model does not run out of
     fuel, the code no longer overflows its stack (fix 97a0ad7) *)
  is_scalar FUEL [([69], SAny [SRef [69]])] scalar_ty (SRef [69]) = Ok false /\
  is_scalar FUEL [([69], SAll [SRef [69]])] scalar_ty (SAny [SRef [69]]) = Ok false /\
  is_scalar FUEL [([69], SOne [SType 5; SRef [70]]); ([70], SOne [SType 6; SAny [SRef [69]]])] scalar_ty (SRef [69]) = Ok false /\
  (* reached twice, but not through itself: still scalar *)
  is_scalar FUEL [([69], SType 5)] scalar_ty (SOne [SRef [69]; SAny [SRef [69]]]) = Ok true.
Proof. vm_compute. repeat split. Qed.

(* a definition that is a lone anyOf / allOf of a reference to itself is refused
   whatever the fuel (two levels are enough) *)
Lemma direct_self_reference_refused n d chk f body :
  lookup_def n d = Some body -> body = SAny [SRef n] \/ body = SAll [SRef n] ->
  is_scalar (S (S f)) d chk (SRef n) = Ok false.
Proof.
  intros Hl Hb. unfold is_scalar.
  assert (Hr : resolve_named (S (length d)) d [] None (SRef n) = Ok (Some n, body)).
  { cbn [resolve_named mem_str]. rewrite Hl. destruct Hb as [-> | ->]; destruct (length d); reflexivity. }
  cbn [is_scalar_path]. rewrite Hr. cbn [bind mem_str].
  destruct Hb as [-> | ->]; cbn [is_scalar_path]; rewrite Hr; cbn [bind mem_str];
    rewrite str_eqb_refl; reflexivity.
Qed.
