(* ParamsProofs.v — proofs about Params.v (C07). *)
From Coq Require Import String Permutation.
From DS Require Import Base Json Schema J2Oas SchemaSem Utf8 Pct PctProofs Scalars ScalarsProofs
     Query QueryProofs Extract ExtractProofs Params.
From DS Require J2OasSpec.
Open Scope N_scope.

(* ------------------------------------------------------------ induction on the field tree *)

Section FieldInd.
  Variable P : field -> Prop.
  Hypothesis Hleaf : forall n t p d, P (FLeaf n t p d).
  Hypothesis Hflat : forall inner, Forall P inner -> P (FFlat inner).
  Fixpoint field_ind' (f : field) : P f :=
    match f with
    | FLeaf n t p d => Hleaf n t p d
    | FFlat inner =>
        Hflat inner
          ((fix go (l : list field) : Forall P l :=
              match l with
              | [] => Forall_nil P
              | f' :: r => Forall_cons f' (field_ind' f') (go r)
              end) inner)
    end.
End FieldInd.

Lemma concat_map_app {A B} (f : A -> list B) l1 l2 :
  concat_map f (l1 ++ l2) = concat_map f l1 ++ concat_map f l2.
Proof.
  induction l1 as [|a l1 IH]; cbn [concat_map app]; [reflexivity|].
  fold (concat_map f). rewrite IH, app_assoc. reflexivity.
Qed.

Lemma in_concat_map {A B} (f : A -> list B) l b :
  In b (concat_map f l) <-> exists a, In a l /\ In b (f a).
Proof.
  induction l as [|a l IH]; cbn [concat_map In].
  - split; [tauto|intros (a & [] & _)].
  - fold (concat_map f). rewrite in_app_iff, IH. split.
    + intros [H|(a' & H1 & H2)]; eauto.
    + intros (a' & [<-|H1] & H2); eauto.
Qed.

(* ------------------------------------------------------------ small map / set facts *)

Lemma lookup_assoc {A} k (l : list (str * A)) : Json.lookup k l = assoc k l.
Proof.
  induction l as [|[k' v] l IH]; cbn [Json.lookup assoc]; [reflexivity|].
  rewrite IH. reflexivity.
Qed.

Lemma mem_set_insert x k : forall l, mem_str x (set_insert k l) = str_eqb x k || mem_str x l.
Proof.
  induction l as [|k' l IH]; cbn [set_insert mem_str]; [reflexivity|].
  destruct (str_ltb k k'); cbn [mem_str]; [reflexivity|].
  destruct (str_eqb_spec k k') as [->|Hne]; cbn [mem_str].
  - destruct (str_eqb x k'); reflexivity.
  - rewrite IH. destruct (str_eqb x k), (str_eqb x k'); reflexivity.
Qed.

Lemma mem_fold_set_insert x : forall l acc,
  mem_str x (fold_left (fun a k => set_insert k a) l acc) = mem_str x l || mem_str x acc.
Proof.
  induction l as [|k l IH]; intros acc; cbn [fold_left mem_str]; [reflexivity|].
  rewrite IH, mem_set_insert. destruct (mem_str x l), (str_eqb x k), (mem_str x acc); reflexivity.
Qed.

Lemma assoc_fold_insert {A} x : forall (l m : list (str * A)),
  assoc x (fold_left (fun acc kv => insert_sorted (fst kv) (snd kv) acc) l m)
  = match assoc x (rev l) with Some v => Some v | None => assoc x m end.
Proof.
  induction l as [|[k v] l IH]; intros m; cbn [fold_left rev fst snd]; [reflexivity|].
  rewrite IH, assoc_app, assoc_insert_sorted. cbn [assoc].
  destruct (assoc x (rev l)); [reflexivity|]. destruct (str_eqb x k); reflexivity.
Qed.

Lemma ksorted_fold_insert {A} : forall (l m : list (str * A)),
  ksorted m = true ->
  ksorted (fold_left (fun acc kv => insert_sorted (fst kv) (snd kv) acc) l m) = true.
Proof.
  induction l as [|[k v] l IH]; intros m Hm; cbn [fold_left fst snd]; [exact Hm|].
  apply IH, insert_sorted_ksorted, Hm.
Qed.

Lemma assoc_rev_In {A} x (l : list (str * A)) v : assoc x (rev l) = Some v -> In (x, v) l.
Proof. intros H. apply assoc_In in H. apply in_rev. exact H. Qed.

Lemma assoc_rev_none {A} x (l : list (str * A)) : assoc x (rev l) = None -> assoc x l = None.
Proof.
  intros H. apply assoc_mem_None.
  destruct (mem_str x (map fst l)) eqn:E; [|reflexivity].
  apply mem_str_In, in_map_iff in E as ([k v] & Hk & Hin). cbn [fst] in Hk. subst k.
  apply in_rev in Hin.
  assert (Hm : mem_str x (map fst (rev l)) = true).
  { apply mem_str_In, in_map_iff. exists (x, v). split; [reflexivity|exact Hin]. }
  rewrite <- has_key_mem in Hm. unfold has_key in Hm. rewrite H in Hm. discriminate.
Qed.

Lemma has_key_assoc {A} x (l : list (str * A)) :
  has_key x l = true <-> exists v, assoc x l = Some v.
Proof.
  unfold has_key. destruct (assoc x l); split; eauto; try discriminate. intros [v H]. discriminate.
Qed.

(* ------------------------------------------------------------ the schema view *)

Definition fsch (l : leaf) : schema := field_schema (lf_ty l) (lf_p l) (lf_desc l).

(* [v] is the object schema of a struct whose leaves are exactly [L] *)
Definition view_inv (v : sview) (L : list leaf) : Prop :=
  ksorted (sv_props v) = true /\
  (forall x s, assoc x (sv_props v) = Some s -> exists l, In l L /\ lf_name l = x /\ s = fsch l) /\
  (forall l, In l L -> has_key (lf_name l) (sv_props v) = true) /\
  (forall x, mem_str x (sv_req v) = true ->
             exists l, In l L /\ lf_name l = x /\ is_req (lf_p l) = true) /\
  (forall l, In l L -> is_req (lf_p l) = true -> mem_str (lf_name l) (sv_req v) = true).

Lemma view_inv_ext v L L' : (forall l, In l L <-> In l L') -> view_inv v L -> view_inv v L'.
Proof.
  intros E (H0 & H1 & H2 & H3 & H4). repeat split.
  - exact H0.
  - intros x s H. destruct (H1 x s H) as (l & Hl & R). exists l. split; [apply E, Hl|exact R].
  - intros l Hl. apply H2, E, Hl.
  - intros x H. destruct (H3 x H) as (l & Hl & R). exists l. split; [apply E, Hl|exact R].
  - intros l Hl. apply H4, E, Hl.
Qed.

Lemma view_inv_empty : view_inv sv_empty [].
Proof. repeat split; cbn; intros; try discriminate; tauto. Qed.

Lemma view_inv_add v L n t p d u :
  view_inv v L -> view_inv (sv_add n (field_schema t p d) (is_req p) v) (L ++ [mkLeaf n t p d u]).
Proof.
  intros (H0 & H1 & H2 & H3 & H4). unfold sv_add. repeat split; cbn [sv_props sv_req].
  - apply insert_sorted_ksorted, H0.
  - intros x s. rewrite assoc_insert_sorted.
    destruct (str_eqb_spec x n) as [->|Hne].
    + intros [= <-]. exists (mkLeaf n t p d u). split; [apply in_or_app; right; left; reflexivity|].
      split; reflexivity.
    + intros H. destruct (H1 x s H) as (l & Hl & R). exists l.
      split; [apply in_or_app; left; exact Hl|exact R].
  - intros l Hl. apply has_key_assoc. rewrite assoc_insert_sorted.
    destruct (str_eqb_spec (lf_name l) n) as [E|Hne]; [eauto|].
    apply in_app_or in Hl as [Hl|[<-|[]]].
    + apply has_key_assoc, H2, Hl.
    + cbn [lf_name] in Hne. congruence.
  - intros x Hx.
    assert (Hx' : (is_req p && str_eqb x n) || mem_str x (sv_req v) = true).
    { destruct (is_req p); cbn [andb orb]; [rewrite mem_set_insert in Hx; exact Hx|exact Hx]. }
    apply orb_true_iff in Hx' as [Hx'|Hx'].
    + apply andb_true_iff in Hx' as [Hp Hn]. apply str_eqb_eq in Hn. subst x.
      exists (mkLeaf n t p d u). split; [apply in_or_app; right; left; reflexivity|].
      split; [reflexivity|exact Hp].
    + destruct (H3 x Hx') as (l & Hl & R). exists l.
      split; [apply in_or_app; left; exact Hl|exact R].
  - intros l Hl Hr. apply in_app_or in Hl as [Hl|[<-|[]]].
    + pose proof (H4 l Hl Hr) as Hm. destruct (is_req p); [|exact Hm].
      rewrite mem_set_insert, Hm. apply orb_true_r.
    + cbn [lf_name lf_p] in *. rewrite Hr, mem_set_insert, str_eqb_refl. reflexivity.
Qed.

Lemma view_inv_merge a b La Lb :
  view_inv a La -> view_inv b Lb -> view_inv (sv_merge a b) (La ++ Lb).
Proof.
  intros (A0 & A1 & A2 & A3 & A4) (B0 & B1 & B2 & B3 & B4).
  unfold sv_merge. repeat split; cbn [sv_props sv_req].
  - apply ksorted_fold_insert, A0.
  - intros x s. rewrite assoc_fold_insert.
    destruct (assoc x (rev (sv_props b))) as [s'|] eqn:E.
    + intros [= <-]. apply assoc_rev_In in E.
      assert (Hb : assoc x (sv_props b) = Some s').
      { apply assoc_distinct; [apply ksorted_distinct, B0|exact E]. }
      destruct (B1 x s' Hb) as (l & Hl & R). exists l.
      split; [apply in_or_app; right; exact Hl|exact R].
    + intros H. destruct (A1 x s H) as (l & Hl & R). exists l.
      split; [apply in_or_app; left; exact Hl|exact R].
  - intros l Hl. apply has_key_assoc. rewrite assoc_fold_insert.
    destruct (assoc (lf_name l) (rev (sv_props b))) as [s'|] eqn:E; [eauto|].
    apply assoc_rev_none in E.
    apply in_app_or in Hl as [Hl|Hl].
    + apply has_key_assoc, A2, Hl.
    + pose proof (B2 l Hl) as Hk. unfold has_key in Hk. rewrite E in Hk. discriminate.
  - intros x. rewrite mem_fold_set_insert. intros H. apply orb_true_iff in H as [H|H].
    + destruct (B3 x H) as (l & Hl & R). exists l.
      split; [apply in_or_app; right; exact Hl|exact R].
    + destruct (A3 x H) as (l & Hl & R). exists l.
      split; [apply in_or_app; left; exact Hl|exact R].
  - intros l Hl Hr. rewrite mem_fold_set_insert. apply orb_true_iff.
    apply in_app_or in Hl as [Hl|Hl]; [right; apply A4; assumption|left; apply B4; assumption].
Qed.

(* the two passes of [inner_view] *)
Definition direct_leaves (u : bool) (fs : list field) : list leaf :=
  concat_map (fun f => match f with FLeaf n t p d => [mkLeaf n t p d u] | FFlat _ => [] end) fs.
Definition nested_leaves (fs : list field) : list leaf :=
  concat_map (fun f => match f with FLeaf _ _ _ _ => [] | FFlat inner => concat_map (field_leaves true) inner end) fs.

Lemma leaves_split u fs l :
  In l (concat_map (field_leaves u) fs) <-> In l (direct_leaves u fs ++ nested_leaves fs).
Proof.
  rewrite in_app_iff. unfold direct_leaves, nested_leaves. rewrite !in_concat_map. split.
  - intros (f & Hf & Hl). destruct f as [n t p d|inner]; cbn [field_leaves] in Hl.
    + left. exists (FLeaf n t p d). split; [exact Hf|exact Hl].
    + right. exists (FFlat inner). split; [exact Hf|exact Hl].
  - intros [(f & Hf & Hl)|(f & Hf & Hl)]; exists f; (split; [exact Hf|]);
      destruct f as [n t p d|inner]; cbn [field_leaves]; try exact Hl; destruct Hl.
Qed.

Lemma props_pass_inv u fs : view_inv (props_pass fs) (direct_leaves u fs).
Proof.
  unfold props_pass.
  assert (G : forall fs acc L, view_inv acc L ->
            view_inv (fold_left (fun acc f => match f with
                                              | FLeaf n t p d => sv_add n (field_schema t p d) (is_req p) acc
                                              | FFlat _ => acc
                                              end) fs acc) (L ++ direct_leaves u fs)).
  { clear fs. induction fs as [|f fs IH]; intros acc L HI; cbn [fold_left].
    - unfold direct_leaves. cbn [concat_map]. rewrite app_nil_r. exact HI.
    - unfold direct_leaves. cbn [concat_map]. fold (direct_leaves u fs).
      destruct f as [n t p d|inner].
      + rewrite app_assoc. apply IH. apply view_inv_add, HI.
      + cbn [app]. apply IH, HI. }
  apply (G fs sv_empty [] view_inv_empty).
Qed.

Theorem struct_view_inv : forall f u,
  match f with
  | FFlat inner => view_inv (inner_view f) (concat_map (field_leaves u) inner)
  | FLeaf _ _ _ _ => True
  end.
Proof.
  induction f as [n t p d|inner IH] using field_ind'; intros u; [exact I|].
  apply (view_inv_ext _ (direct_leaves u inner ++ nested_leaves inner));
    [intros l; symmetry; apply leaves_split|].
  cbn [inner_view].
  set (go := fix go (fs : list field) (acc : sview) {struct fs} : sview :=
               match fs with
               | [] => acc
               | f' :: r => go r match f' with
                                 | FLeaf _ _ _ _ => acc
                                 | FFlat _ => sv_merge acc (inner_view f')
                                 end
               end).
  assert (G : forall fs, Forall (fun f => forall u, match f with
                                          | FFlat inner => view_inv (inner_view f) (concat_map (field_leaves u) inner)
                                          | FLeaf _ _ _ _ => True
                                          end) fs ->
              forall acc L, view_inv acc L -> view_inv (go fs acc) (L ++ nested_leaves fs)).
  { clear. induction fs as [|f fs IHfs]; intros HF acc L HI; cbn [go].
    - unfold nested_leaves. cbn [concat_map]. rewrite app_nil_r. exact HI.
    - inversion HF as [|? ? Hf HF']; subst.
      unfold nested_leaves. cbn [concat_map]. fold (nested_leaves fs).
      destruct f as [n t p d|inner].
      + cbn [app]. apply IHfs; assumption.
      + rewrite app_assoc. apply IHfs; [exact HF'|].
        apply view_inv_merge; [exact HI|apply (Hf true)]. }
  apply G; [exact IH|apply props_pass_inv].
Qed.

Corollary struct_view_leaves fs : view_inv (struct_view fs) (leaves fs).
Proof. exact (struct_view_inv (FFlat fs) false). Qed.

(* ------------------------------------------------------------ member schemas *)

(* what schema_extract_description leaves of a field's property schema: the
   scalar's schema (nullable for an Option) without metadata, or the bare
   reference for a named enum *)
Definition member_schema (t : sty') (p : presence) : schema :=
  match st_ty t, st_name t with
  | TEnum _, Some n =>
      SObj (mkSObj None None None None None None None None None None (Some (ref_name n)) [])
  | _, _ =>
      SObj (match p with POpt => with_extensions NULLABLE_EXT (scalar_sobj t) | _ => scalar_sobj t end)
  end.

Lemma sed_field t p d :
  schema_extract_description (field_schema t p d) = (d, member_schema t p).
Proof.
  destruct t as [ty nm]. unfold field_schema, member_schema, scalar_sobj. cbn [st_ty st_name].
  destruct ty as [| | |sg bits|vs|]; destruct nm as [n|]; destruct p as [| |dv]; destruct d as [d|];
    try destruct sg; reflexivity.
Qed.

Lemma vou_int_format s : SchemaSem.vou_name SchemaSem.intfmt_name (int_format (Some s)) = Some s.
Proof.
  unfold int_format.
  destruct (str_eqb_spec s s_int32) as [->|]; [reflexivity|].
  destruct (str_eqb_spec s s_int64) as [->|]; reflexivity.
Qed.

(* the published schema of a member *)
Definition oint (sg : bool) (bits : N) : ointeger :=
  mkOInteger (int_format (Some (int_format_name sg bits))) None false false
             (if sg then None else Some 0%Z) None [].

Definition sdata_nullable (b : bool) : sdata :=
  mkSData b false false false None None None None [].

Definition member_oschema (t : sty') (p : presence) : oschema :=
  let nl := match p with POpt => true | _ => false end in
  match st_ty t, st_name t with
  | TEnum _, Some n => ORef (ref_name n)
  | TStr, _ => OItem (sdata_nullable nl) (KType (OTString (mkOString VEmpty None [] None None)))
  | TBool, _ => OItem (sdata_nullable nl) (KType (OTBoolean []))
  | TChar, _ => OItem (sdata_nullable nl) (KType (OTString (mkOString VEmpty None [] (Some 1) (Some 1))))
  | TInt sg bits, _ => OItem (sdata_nullable nl) (KType (OTInteger (oint sg bits)))
  | TEnum vs, None =>
      OItem (sdata_nullable nl) (KType (OTString (mkOString VEmpty None (map Some vs) None None)))
  | TUuid, _ =>
      OItem (sdata_nullable nl) (KType (OTString (mkOString (VUnknown S_UUID) None [] None None)))
  end.

Lemma map_res_strs vs : map_res enum_str (map JStr vs) = Ok (map Some vs).
Proof.
  induction vs as [|v vs IH]; [reflexivity|].
  cbn [map]. unfold map_res in *. cbn [enum_str bind]. rewrite IH. reflexivity.
Qed.

Lemma enum_list_strs vs : enum_list enum_str (Some (map JStr vs)) = Ok (map Some vs).
Proof. unfold enum_list. apply map_res_strs. Qed.

Lemma j2oas_member t p : j2oas None (member_schema t p) = Ok (member_oschema t p).
Proof.
  destruct t as [ty nm]. unfold member_schema, member_oschema, scalar_sobj. cbn [st_ty st_name].
  destruct ty as [| | |sg bits|vs|]; destruct nm as [n|]; destruct p as [| |dv];
    try destruct sg; try reflexivity;
    cbn -[enum_list]; rewrite enum_list_strs; reflexivity.
Qed.

(* ------------------------------------------------------------ schema2struct on a struct's schema *)

Definition member_of_prop (req : list str) (p : str * schema) : member :=
  let '(d, s') := schema_extract_description (snd p) in
  mkMember (fst p) d s' (mem_str (fst p) req).

Lemma s2s_schema_view defs title fs n :
  schema2struct (S n) defs (schema_view title fs) true
  = Ok (map (member_of_prop (sv_req (struct_view fs))) (sv_props (struct_view fs))).
Proof.
  unfold schema_view. cbn [schema2struct s2s_classify so_reference so_format so_const_value so_number
    so_string so_array is_none andb negb so_instance_type so_enum_values so_object so_subschemas].
  f_equal.
Qed.

Lemma members_to_params_ok loc : forall ms,
  (forall m, In m ms -> exists o, j2oas None (sm_schema m) = Ok o) ->
  exists ps, members_to_params loc ms = Ok ps /\
    Forall2 (fun m p => dp_name p = sm_name m /\ dp_loc p = loc /\ dp_required p = sm_required m /\
                        dp_description p = sm_description m /\
                        j2oas None (sm_schema m) = Ok (dp_schema p)) ms ps.
Proof.
  induction ms as [|m ms IH]; intros H.
  - exists []. split; [reflexivity|constructor].
  - destruct (H m (or_introl eq_refl)) as [o Ho].
    destruct (IH (fun m' Hm => H m' (or_intror Hm))) as (ps & Hps & F).
    exists (mkDParam (sm_name m) loc (sm_required m) (sm_description m) o :: ps).
    cbn [members_to_params]. rewrite Ho, Hps. split; [reflexivity|].
    constructor; [cbn; auto|exact F].
Qed.

Lemma Forall2_in_r {A B} (P : A -> B -> Prop) l l' b :
  Forall2 P l l' -> In b l' -> exists a, In a l /\ P a b.
Proof.
  induction 1 as [|x y l l' Hxy _ IH]; cbn [In]; [tauto|].
  intros [<-|Hin]; [eauto|]. destruct (IH Hin) as (a & Ha & Hp). eauto.
Qed.

Lemma Forall2_in_l {A B} (P : A -> B -> Prop) l l' a :
  Forall2 P l l' -> In a l -> exists b, In b l' /\ P a b.
Proof.
  induction 1 as [|x y l l' Hxy _ IH]; cbn [In]; [tauto|].
  intros [<-|Hin]; [eauto|]. destruct (IH Hin) as (b & Hb & Hp). eauto.
Qed.

Lemma Forall2_map_names {A B} (f : A -> str) (g : B -> str) (P : A -> B -> Prop) l l' :
  (forall a b, P a b -> g b = f a) -> Forall2 P l l' -> map g l' = map f l.
Proof.
  intros H. induction 1 as [|x y l l' Hxy _ IH]; cbn [map]; [reflexivity|].
  rewrite (H _ _ Hxy), IH. reflexivity.
Qed.

(* names are distinct: a leaf is determined by its name *)
Lemma distinct_leaf_unique (L : list leaf) l l' :
  names_distinct (map lf_name L) = true -> In l L -> In l' L -> lf_name l = lf_name l' -> l = l'.
Proof.
  induction L as [|a L IH]; cbn [map names_distinct In]; [tauto|].
  intros Hd H1 H2 Hn. apply andb_true_iff in Hd as [Ha Hd]. apply negb_true_iff in Ha.
  assert (Hnot : forall x, In x L -> lf_name x <> lf_name a).
  { intros x Hx E. assert (mem_str (lf_name a) (map lf_name L) = true); [|congruence].
    apply mem_str_In. rewrite <- E. apply in_map, Hx. }
  destruct H1 as [<-|H1], H2 as [<-|H2]; auto.
  - exfalso. eapply Hnot; [exact H2|congruence].
  - exfalso. eapply Hnot; [exact H1|congruence].
Qed.

(* what the document lists for a leaf *)
Definition leaf_param (loc : ploc) (l : leaf) : dparam :=
  mkDParam (lf_name l) loc (is_req (lf_p l)) (lf_desc l) (member_oschema (lf_ty l) (lf_p l)).

Definition names_ok (fs : pspec) : Prop := names_distinct (map lf_name (leaves fs)) = true.

Lemma wf_names fs : wf_pspec fs = true -> names_ok fs.
Proof.
  unfold wf_pspec, names_ok. intros H.
  apply andb_true_iff in H as [H _]. apply andb_true_iff in H as [H _]. exact H.
Qed.

(* C07 theorem 1 *)
Theorem documented_params_exact loc title fs :
  names_ok fs ->
  exists ps, doc_params loc title fs = Ok ps /\
    names_distinct (map dp_name ps) = true /\
    (forall l, In l (leaves fs) -> In (leaf_param loc l) ps) /\
    (forall p, In p ps -> exists l, In l (leaves fs) /\ p = leaf_param loc l).
Proof.
  intros Hd.
  destruct (struct_view_leaves fs) as (V0 & V1 & V2 & V3 & V4).
  set (v := struct_view fs) in *.
  set (ms := map (member_of_prop (sv_req v)) (sv_props v)).
  (* every member comes from a leaf *)
  assert (Hm : forall m, In m ms -> exists l, In l (leaves fs) /\
             m = mkMember (lf_name l) (lf_desc l) (member_schema (lf_ty l) (lf_p l)) (is_req (lf_p l))).
  { intros m Hin. apply in_map_iff in Hin as ([x s] & <- & Hin).
    pose proof (assoc_distinct _ _ _ (ksorted_distinct _ V0) Hin) as Ha.
    destruct (V1 x s Ha) as (l & Hl & <- & ->). exists l. split; [exact Hl|].
    unfold member_of_prop, fsch. cbn [fst snd]. rewrite sed_field. f_equal.
    destruct (is_req (lf_p l)) eqn:Hr.
    - apply V4; assumption.
    - destruct (mem_str (lf_name l) (sv_req v)) eqn:Hmem; [|reflexivity].
      destruct (V3 _ Hmem) as (l' & Hl' & Hn & Hr').
      rewrite (distinct_leaf_unique _ l' l Hd Hl' Hl Hn) in Hr'. congruence. }
  destruct (members_to_params_ok loc ms) as (ps & Hps & F).
  { intros m Hin. destruct (Hm m Hin) as (l & _ & ->). cbn [sm_schema].
    rewrite j2oas_member. eauto. }
  exists ps. split; [|split; [|split]].
  - unfold doc_params, doc_params_of_schema, S2S_FUEL. rewrite s2s_schema_view. exact Hps.
  - assert (En : map dp_name ps = map sm_name ms).
    { clear -F. induction F as [|m p ms ps (H & _) _ IH]; cbn [map]; [reflexivity|].
      rewrite H, IH. reflexivity. }
    rewrite En.
    unfold ms. rewrite map_map.
    replace (map (fun x => sm_name (member_of_prop (sv_req v) x)) (sv_props v)) with (map fst (sv_props v)).
    + apply ksorted_distinct, V0.
    + apply map_ext. intros [x s]. unfold member_of_prop. cbn [fst snd].
      destruct (schema_extract_description s). reflexivity.
  - intros l Hl.
    pose proof (V2 l Hl) as Hk. apply has_key_assoc in Hk as [s Hs].
    assert (Hin : In (member_of_prop (sv_req v) (lf_name l, s)) ms).
    { apply in_map, assoc_In, Hs. }
    destruct (Hm _ Hin) as (l' & Hl' & Em).
    assert (l' = l) as ->.
    { apply (distinct_leaf_unique _ l' l Hd Hl' Hl).
      apply (f_equal sm_name) in Em. unfold member_of_prop in Em. cbn [fst snd] in Em.
      destruct (schema_extract_description s). cbn [sm_name] in Em. congruence. }
    destruct (Forall2_in_l _ _ _ _ F Hin) as (p & Hp & P1 & P2 & P3 & P4 & P5).
    rewrite Em in *. cbn [sm_name sm_required sm_description sm_schema] in *.
    rewrite j2oas_member in P5. injection P5 as P5.
    replace (leaf_param loc l) with p; [exact Hp|].
    destruct p. unfold leaf_param. cbn in *. congruence.
  - intros p Hp. destruct (Forall2_in_r _ _ _ _ F Hp) as (m & Hin & P1 & P2 & P3 & P4 & P5).
    destruct (Hm _ Hin) as (l & Hl & ->). cbn [sm_name sm_required sm_description sm_schema] in *.
    rewrite j2oas_member in P5. injection P5 as P5.
    exists l. split; [exact Hl|]. destruct p. unfold leaf_param. cbn in *. congruence.
Qed.

(* "required = true <-> the field is required in serde_view" *)
Corollary documented_required_iff loc title fs ps :
  names_ok fs -> doc_params loc title fs = Ok ps ->
  forall p, In p ps ->
    (dp_required p = true <->
     exists t, In (dp_name p, KScalar t PReq) (serde_view fs)).
Proof.
  intros Hd Hdoc p Hp.
  destruct (documented_params_exact loc title fs Hd) as (ps' & Hdoc' & _ & _ & H2).
  rewrite Hdoc in Hdoc'. injection Hdoc' as <-.
  destruct (H2 p Hp) as (l & Hl & ->). cbn [leaf_param dp_required dp_name]. split.
  - intros Hr. exists (st_ty (lf_ty l)). unfold serde_view. apply in_map_iff.
    exists l. split; [|exact Hl]. unfold leaf_kind. destruct (lf_p l); try discriminate. reflexivity.
  - intros (t & Hin). unfold serde_view in Hin. apply in_map_iff in Hin as (l' & E & Hl').
    injection E as En Ek. assert (l' = l) as -> by (apply (distinct_leaf_unique _ l' l Hd Hl' Hl En)).
    unfold leaf_kind in Ek.
    assert (Ep : lf_p l = PReq) by congruence. rewrite Ep. reflexivity.
Qed.

(* ------------------------------------------------------------ documented values parse *)

Lemma int_format_range_name sg bits :
  width_ok bits = true ->
  int_format_range (int_format_name sg bits) = Some (int_min sg bits, int_max sg bits).
Proof.
  unfold width_ok. intros H.
  repeat (apply orb_true_iff in H as [H|H]); apply N.eqb_eq in H; subst bits;
    destruct sg; vm_compute; reflexivity.
Qed.

Lemma int_format_not_uuid sg bits :
  width_ok bits = true -> str_eqb (int_format_name sg bits) S_UUID = false.
Proof.
  unfold width_ok. intros H.
  repeat (apply orb_true_iff in H as [H|H]); apply N.eqb_eq in H; subst bits;
    destruct sg; vm_compute; reflexivity.
Qed.

Lemma str_chars_cons b t : str_chars (b :: t) = (if is_cont_byte b then 0 else 1) + str_chars t.
Proof.
  unfold str_chars. cbn [filter]. destruct (is_cont_byte b); cbn [negb length]; lia.
Qed.

Lemma cont_is_cont b : utf8_cont b = true -> is_cont_byte b = true.
Proof. unfold utf8_cont, in_range, is_cont_byte. lia. Qed.

Lemma valid_first_not_cont b t : utf8_valid (b :: t) = true -> is_cont_byte b = false.
Proof.
  cbn [utf8_valid]. unfold is_cont_byte, in_range.
  destruct (b <? 128) eqn:E0; [lia|].
  destruct ((194 <=? b) && (b <=? 223)) eqn:E1; [lia|].
  destruct ((224 <=? b) && (b <=? 239)) eqn:E2; [lia|].
  destruct ((240 <=? b) && (b <=? 244)) eqn:E3; [lia|discriminate].
Qed.

Lemma valid_chars0_nil t : utf8_valid t = true -> str_chars t = 0 -> t = [].
Proof.
  destruct t as [|b t]; [reflexivity|]. intros Hv Hc.
  rewrite str_chars_cons, (valid_first_not_cont _ _ Hv) in Hc. lia.
Qed.

(* a well-formed UTF-8 text of exactly one scalar value is what char::from_str accepts *)
Lemma utf8_one_char s : utf8_valid s = true -> str_chars s = 1 -> exists c, parse_char s = Some c.
Proof.
  destruct s as [|b0 t0]; [intros _ H; vm_compute in H; discriminate|].
  intros Hv Hc. pose proof (valid_first_not_cont _ _ Hv) as Hn0.
  rewrite str_chars_cons, Hn0 in Hc.
  unfold parse_char, utf8_decode1. cbn [utf8_valid] in Hv.
  destruct (b0 <? 128) eqn:E0.
  { rewrite (valid_chars0_nil t0 Hv); [eauto|lia]. }
  destruct (in_range 194 223 b0) eqn:E1.
  { destruct t0 as [|b1 t1]; [discriminate|].
    apply andb_true_iff in Hv as [H1 Hv]. rewrite H1.
    rewrite str_chars_cons, (cont_is_cont _ H1) in Hc.
    rewrite (valid_chars0_nil t1 Hv); [eauto|lia]. }
  destruct (in_range 224 239 b0) eqn:E2.
  { destruct t0 as [|b1 [|b2 t2]]; try discriminate.
    apply andb_true_iff in Hv as [Hv Hv2]. apply andb_true_iff in Hv as [H1 H2].
    rewrite H1, H2. cbn [andb].
    assert (C1 : is_cont_byte b1 = true).
    { unfold utf8_second3, in_range, is_cont_byte in *.
      destruct (b0 =? 224); [lia|]. destruct (b0 =? 237); lia. }
    rewrite !str_chars_cons, C1, (cont_is_cont _ H2) in Hc.
    rewrite (valid_chars0_nil t2 Hv2); [eauto|lia]. }
  destruct (in_range 240 244 b0) eqn:E3; [|discriminate].
  destruct t0 as [|b1 [|b2 [|b3 t3]]]; try discriminate.
  apply andb_true_iff in Hv as [Hv Hv3]. apply andb_true_iff in Hv as [Hv H3].
  apply andb_true_iff in Hv as [H1 H2]. rewrite H1, H2, H3. cbn [andb].
  assert (C1 : is_cont_byte b1 = true).
  { unfold utf8_second4, in_range, is_cont_byte in *.
    destruct (b0 =? 240); [lia|]. destruct (b0 =? 244); lia. }
  rewrite !str_chars_cons, C1, (cont_is_cont _ H2), (cont_is_cont _ H3) in Hc.
  rewrite (valid_chars0_nil t3 Hv3); [eauto|lia].
Qed.

(* how a reference to an enum's schema is interpreted *)
Definition env_ok (env : str -> json -> bool) (t : sty') : Prop :=
  match st_ty t, st_name t with
  | TEnum vs, Some n =>
      forall j, env (ref_name n) j = true -> exists s, j = JStr s /\ mem_str s vs = true
  | _, _ => True
  end.

(* C07 theorem 2a: a value that is valid for the documented schema of a
   parameter, written as a client writes a primitive, is a text the server's
   scalar parser accepts *)
Theorem doc_value_parses env t p j w :
  wf_st t = true -> env_ok env t ->
  valid_oas env pat_doc fmt_doc (member_oschema t p) j = true ->
  is_null j = false -> wire_of_json j = Some w -> utf8_valid w = true ->
  exists v, parse_scalar (st_ty t) w = Some v.
Proof.
  destruct t as [ty nm]. unfold wf_st, env_ok, member_oschema. cbn [st_ty st_name].
  intros Hwf Henv Hv Hnn Hw Hu.
  destruct ty as [| | |sg bits|vs|]; destruct nm as [n|]; try discriminate;
    try (destruct vs; discriminate).
  - (* String *) cbn [parse_scalar]. eauto.
  - (* bool *)
    cbn [valid_oas] in Hv. rewrite Hnn, andb_false_r in Hv. cbn [orb valid_okind valid_otype] in Hv.
    destruct j as [|b|x|s|l|kvs]; try discriminate. cbn [wire_of_json] in Hw. injection Hw as <-.
    cbn [parse_scalar]. rewrite parse_bool_print. cbn. eauto.
  - (* char *)
    cbn [valid_oas] in Hv. rewrite Hnn, andb_false_r in Hv. cbn [orb valid_okind valid_otype] in Hv.
    destruct j as [|b|x|s|l|kvs]; try discriminate. cbn [wire_of_json] in Hw. injection Hw as <-.
    cbn [valid_ostring os_max_length os_min_length optb] in Hv.
    assert (Hc : str_chars s = 1).
    { destruct (str_chars s <=? 1) eqn:A; [|discriminate]. destruct (1 <=? str_chars s) eqn:B; [|discriminate]. lia. }
    destruct (utf8_one_char s Hu Hc) as [c Hcc]. cbn [parse_scalar]. rewrite Hcc. cbn. eauto.
  - (* integer *)
    cbn [valid_oas] in Hv. rewrite Hnn, andb_false_r in Hv. cbn [orb valid_okind valid_otype] in Hv.
    destruct j as [|b|x|s|l|kvs]; try discriminate.
    destruct x as [z|a d]; [|discriminate]. cbn [wire_of_json] in Hw. injection Hw as <-.
    unfold valid_ointeger, oint in Hv.
    cbn [oi_format oi_multiple_of oi_maximum oi_minimum oi_exclusive_minimum oi_exclusive_maximum
         oi_enumeration optb enum_ok] in Hv.
    rewrite vou_int_format in Hv. cbn [optb] in Hv.
    repeat (apply andb_true_iff in Hv as [Hv ?]).
    match goal with H : fmt_doc _ _ = true |- _ => rename H into Hf end.
    unfold fmt_doc in Hf.
    rewrite (int_format_not_uuid sg bits Hwf), (int_format_range_name sg bits Hwf) in Hf.
    cbn [num_q] in Hf. unfold q_leb, q_of_Z in Hf. cbn [fst snd] in Hf.
    assert (Hr : int_in_range sg bits z = true) by (unfold int_in_range; lia).
    cbn [parse_scalar]. rewrite (parse_int_print _ _ _ Hr). cbn. eauto.
  - (* named enum *)
    cbn [valid_oas] in Hv. destruct (Henv j Hv) as (s & -> & Hm).
    cbn [wire_of_json] in Hw. injection Hw as <-. cbn [parse_scalar]. rewrite Hm. eauto.
  - (* uuid: the documented format is the RFC 4122 text form *)
    cbn [valid_oas] in Hv. rewrite Hnn, andb_false_r in Hv. cbn [orb valid_okind valid_otype] in Hv.
    destruct j as [|b|x|s|l|kvs]; try discriminate. cbn [wire_of_json] in Hw. injection Hw as <-.
    unfold valid_ostring in Hv.
    cbn [os_max_length os_min_length os_pattern os_format os_enumeration optb SchemaSem.vou_name
         enum_ok andb] in Hv.
    rewrite andb_true_r in Hv. unfold fmt_doc in Hv. rewrite str_eqb_refl in Hv.
    destruct (parse_uuid_hyphenated s) as [bs0|] eqn:Eh; [|discriminate].
    assert (Hlen : (length s =? 36)%nat = true).
    { unfold parse_uuid_hyphenated in Eh. destruct (length s =? 36)%nat; [reflexivity|discriminate]. }
    cbn [parse_scalar]. unfold parse_uuid. apply Nat.eqb_eq in Hlen. rewrite Hlen.
    cbn [Nat.eqb]. rewrite Eh. cbn. eauto.
Qed.

(* ------------------------------------------------------------ enum components *)

Definition enum_oschema (vs : list str) : oschema :=
  OItem sdata_default (KType (OTString (mkOString VEmpty None (map Some vs) None None))).

Lemma j2oas_enum_def vs : j2oas None (enum_def vs) = Ok (enum_oschema vs).
Proof. unfold enum_def, enum_oschema. cbn -[enum_list]. rewrite enum_list_strs. reflexivity. Qed.

Lemma ref_name_inj a b : ref_name a = ref_name b -> a = b.
Proof. unfold ref_name. apply app_inv_head. Qed.

Definition leaf_enum (l : leaf) : option (str * list str) :=
  match st_ty (lf_ty l), st_name (lf_ty l) with
  | TEnum vs, Some n => Some (n, vs)
  | _, _ => None
  end.

Lemma defs_fold_spec : forall (L : list leaf) acc r,
  let res := fold_left (fun d l => match st_ty (lf_ty l), st_name (lf_ty l) with
                                   | TEnum vs, Some n => insert_sorted (ref_name n) (enum_def vs) d
                                   | _, _ => d
                                   end) L acc in
  (forall s, assoc r res = Some s ->
     (exists l n vs, In l L /\ leaf_enum l = Some (n, vs) /\ r = ref_name n /\ s = enum_def vs)
     \/ assoc r acc = Some s) /\
  ((has_key r acc = true \/ exists l n vs, In l L /\ leaf_enum l = Some (n, vs) /\ r = ref_name n) ->
   has_key r res = true).
Proof.
  induction L as [|l L IH]; intros acc r; cbn [fold_left].
  - split; [intros s H; right; exact H|]. intros [H|(l & _ & _ & [] & _)]. exact H.
  - set (acc' := match st_ty (lf_ty l), st_name (lf_ty l) with
                 | TEnum vs, Some n => insert_sorted (ref_name n) (enum_def vs) acc
                 | _, _ => acc
                 end).
    destruct (IH acc' r) as [I1 I2]. split.
    + intros s H. destruct (I1 s H) as [(l' & n & vs & Hl & R)|Ha].
      * left. exists l', n, vs. split; [right; exact Hl|exact R].
      * unfold acc' in Ha. unfold leaf_enum.
        destruct (st_ty (lf_ty l)) as [| | |sg bits|vs|] eqn:Et; try (right; exact Ha).
        destruct (st_name (lf_ty l)) as [n|] eqn:En; [|right; exact Ha].
        rewrite assoc_insert_sorted in Ha.
        destruct (str_eqb_spec r (ref_name n)) as [->|Hne]; [|right; exact Ha].
        injection Ha as <-. left. exists l, n, vs. split; [left; reflexivity|].
        unfold leaf_enum. rewrite Et, En. auto.
    + intros H. apply I2. destruct H as [H|(l' & n & vs & [<-|Hl] & He & ->)].
      * left. unfold acc'.
        destruct (st_ty (lf_ty l)) as [| | |sg bits|vs|]; try exact H.
        destruct (st_name (lf_ty l)) as [n|]; [|exact H].
        apply has_key_assoc. rewrite assoc_insert_sorted.
        destruct (str_eqb r (ref_name n)); [eauto|apply has_key_assoc, H].
      * left. unfold acc'. unfold leaf_enum in He.
        destruct (st_ty (lf_ty l)) as [| | |sg bits|vs'|]; try discriminate.
        destruct (st_name (lf_ty l)) as [n'|]; [|discriminate]. injection He as -> ->.
        apply has_key_assoc. rewrite assoc_insert_sorted, str_eqb_refl. eauto.
      * right. exists l', n, vs. auto.
Qed.

Lemma consistent_enums (L : list leaf) a b n va vb :
  enum_names_consistent L = true -> In a L -> In b L ->
  leaf_enum a = Some (n, va) -> leaf_enum b = Some (n, vb) -> va = vb.
Proof.
  unfold enum_names_consistent, leaf_enum. intros H Ha Hb Ea Eb.
  rewrite forallb_forall in H. specialize (H a Ha). rewrite forallb_forall in H. specialize (H b Hb).
  destruct (st_ty (lf_ty a)) as [| | |? ?|va'|]; try discriminate.
  destruct (st_name (lf_ty a)) as [na|]; [|discriminate]. injection Ea as -> ->.
  destruct (st_ty (lf_ty b)) as [| | |? ?|vb'|]; try discriminate.
  destruct (st_name (lf_ty b)) as [nb|]; [|discriminate]. injection Eb as -> ->.
  rewrite str_eqb_refl in H. apply (list_eqb_spec str_eqb str_eqb_eq) in H. exact H.
Qed.

Lemma defs_view_lookup fs l n vs :
  wf_pspec fs = true -> In l (leaves fs) -> leaf_enum l = Some (n, vs) ->
  assoc (ref_name n) (defs_view fs) = Some (enum_def vs).
Proof.
  intros Hwf Hl He. unfold wf_pspec in Hwf. apply andb_true_iff in Hwf as [_ Hc].
  unfold defs_view. destruct (defs_fold_spec (leaves fs) [] (ref_name n)) as [I1 I2].
  assert (Hk : has_key (ref_name n)
                 (fold_left (fun d l => match st_ty (lf_ty l), st_name (lf_ty l) with
                                        | TEnum vs, Some n => insert_sorted (ref_name n) (enum_def vs) d
                                        | _, _ => d
                                        end) (leaves fs) []) = true).
  { apply I2. right. exists l, n, vs. auto. }
  apply has_key_assoc in Hk as [s Hs]. rewrite Hs.
  destruct (I1 s Hs) as [(l' & n' & vs' & Hl' & He' & Er & ->)|Hn]; [|discriminate].
  apply ref_name_inj in Er. subst n'.
  rewrite (consistent_enums _ l' l n vs' vs Hc Hl' Hl He' He). reflexivity.
Qed.

Lemma existsb_enum_mem s : forall l,
  existsb (fun e : option str => match e with
                                 | None => is_null (JStr s)
                                 | Some b => match JStr s with JStr s' => str_eqb s' b | _ => false end
                                 end) (map Some l) = true ->
  mem_str s l = true.
Proof.
  induction l as [|v l IH]; cbn [map existsb mem_str]; [discriminate|].
  intros H. apply orb_true_iff in H as [H|H]; [rewrite H; reflexivity|].
  rewrite (IH H). apply orb_true_r.
Qed.

Lemma enum_ok_mem s vs :
  vs <> [] ->
  enum_ok (fun e j => match j with JStr s' => str_eqb s' e | _ => false end) (map Some vs) (JStr s) = true ->
  mem_str s vs = true.
Proof.
  intros Hne H. destruct vs as [|v0 vs']; [congruence|].
  unfold enum_ok in H. cbn [map] in H. apply (existsb_enum_mem s (v0 :: vs')). exact H.
Qed.

(* the components of the document interpret the enum references as [env_ok] asks *)
Theorem components_env_ok fs comps fuel :
  wf_pspec fs = true ->
  (forall k s o, assoc k (defs_view fs) = Some s -> j2oas None s = Ok o -> assoc k comps = Some o) ->
  forall l, In l (leaves fs) ->
    env_ok (J2OasSpec.env_oas pat_doc fmt_doc (S fuel) comps) (lf_ty l).
Proof.
  intros Hwf Hcomps l Hl. unfold env_ok.
  destruct (st_ty (lf_ty l)) as [| | |sg bits|vs|] eqn:Et; try exact I.
  destruct (st_name (lf_ty l)) as [n|] eqn:En; [|exact I].
  assert (He : leaf_enum l = Some (n, vs)) by (unfold leaf_enum; rewrite Et, En; reflexivity).
  pose proof (defs_view_lookup fs l n vs Hwf Hl He) as Hd.
  pose proof (Hcomps _ _ _ Hd (j2oas_enum_def vs)) as Hc.
  assert (Hne : vs <> []).
  { unfold wf_pspec in Hwf. apply andb_true_iff in Hwf as [Hwf _]. apply andb_true_iff in Hwf as [_ Hwf].
    rewrite forallb_forall in Hwf. specialize (Hwf l Hl). unfold wf_leaf, wf_st in Hwf.
    rewrite Et, En in Hwf. destruct vs; [discriminate|discriminate]. }
  intros j Hj. cbn [J2OasSpec.env_oas] in Hj. rewrite lookup_assoc, Hc in Hj.
  unfold enum_oschema in Hj. cbn [valid_oas sdata_default sd_nullable andb orb valid_okind valid_otype] in Hj.
  destruct j as [|b|x|s|jl|kvs]; try discriminate. exists s. split; [reflexivity|].
  unfold valid_ostring in Hj. cbn [os_max_length os_min_length os_pattern os_format os_enumeration optb
    SchemaSem.vou_name andb] in Hj.
  apply enum_ok_mem; [exact Hne|exact Hj].
Qed.

(* ------------------------------------------------------------ requests built from the document *)

Lemma serde_view_names fs : map fst (serde_view fs) = map lf_name (leaves fs).
Proof. unfold serde_view. rewrite map_map. reflexivity. Qed.

Lemma wf_serde_view fs : names_ok fs -> wf_spec (serde_view fs) = true.
Proof. unfold wf_spec, names_ok. rewrite serde_view_names. auto. Qed.

Lemma wf_leaf_of fs l : wf_pspec fs = true -> In l (leaves fs) -> wf_leaf l = true.
Proof.
  unfold wf_pspec. intros H Hl. apply andb_true_iff in H as [H _]. apply andb_true_iff in H as [_ H].
  rewrite forallb_forall in H. apply H, Hl.
Qed.

Lemma Forall2_exists {A B} (P : A -> B -> Prop) (l : list A) :
  (forall a, In a l -> exists b, P a b) -> exists l', Forall2 P l l'.
Proof.
  induction l as [|a l IH]; intros H; [exists []; constructor|].
  destruct (H a (or_introl eq_refl)) as [b Hb].
  destruct (IH (fun a' Ha => H a' (or_intror Ha))) as [l' Hl'].
  exists (b :: l'). constructor; assumption.
Qed.

Lemma flat_bad_nil_query fs q :
  flat_bad fs = [] -> extract_query_p fs q = extract_query (serde_view fs) q.
Proof.
  intros H. unfold extract_query_p. rewrite H.
  replace (existsb _ _) with false; [reflexivity|].
  symmetry. induction (form_parse _) as [|kv l IH]; cbn [existsb mem_str]; [reflexivity|exact IH].
Qed.

Lemma assoc_map_snd {A B} (f : A -> B) k (l : list (str * A)) :
  assoc k (map (fun kv => (fst kv, f (snd kv))) l) = option_map f (assoc k l).
Proof.
  induction l as [|[k' a] l IH]; cbn [map assoc fst snd option_map]; [reflexivity|].
  destruct (str_eqb k k'); [reflexivity|exact IH].
Qed.

(* what a request sends for one documented parameter: a value valid for the
   documented schema, written as a client writes a primitive *)
Definition sends_valid (env : str -> json -> bool) (ps : list dparam) (k w : str) : Prop :=
  exists p j, In p ps /\ dp_name p = k /\
    valid_oas env pat_doc fmt_doc (dp_schema p) j = true /\ is_null j = false /\
    wire_of_json j = Some w.

(* C07 theorem 2: a query built from the document - every parameter it marks
   required, any of the others, each with a value valid for its documented
   schema - is accepted: the extractor succeeds and the handler is entered.
   The class of finding K7a is excluded ([flat_bad fs = []]), 128-bit fields
   are finding K9a of C09 ([no_128]). *)
Theorem doc_request_accepted_query title fs ps env entries e :
  wf_pspec fs = true -> flat_bad fs = [] -> no_128 fs = true ->
  doc_params LQuery title fs = Ok ps ->
  (forall l, In l (leaves fs) -> env_ok env (lf_ty l)) ->
  names_distinct (map fst entries) = true -> Forall kv_valid entries -> query_enc entries e ->
  (forall p, In p ps -> dp_required p = true -> has_key (dp_name p) entries = true) ->
  (forall k w, In (k, w) entries -> sends_valid env ps k w) ->
  exists vals, extract_query_p fs (Some e) = Ok vals /\
               entered (handle (extract_query_p fs (Some e))) = true.
Proof.
  intros Hwf Hfb H128 Hdoc Henv Hdist Hvalid Henc Hreq Hsent.
  pose proof (wf_names _ Hwf) as Hd.
  destruct (documented_params_exact LQuery title fs Hd) as (ps' & Hdoc' & _ & P1 & P2).
  rewrite Hdoc in Hdoc'. injection Hdoc' as <-.
  assert (Hvals : exists vals,
            Forall2 (fun f v => q_delivers (snd f) v (assoc (fst f) entries)) (serde_view fs) vals).
  { apply Forall2_exists. intros [name kind] Hin. cbn [fst snd].
    unfold serde_view in Hin. apply in_map_iff in Hin as (l & E & Hl). injection E as <- <-.
    unfold leaf_kind.
    assert (H8 : is_128 (st_ty (lf_ty l)) = false).
    { unfold no_128 in H128. rewrite forallb_forall in H128. apply negb_true_iff, H128, Hl. }
    destruct (assoc (lf_name l) entries) as [w|] eqn:Ea.
    - destruct (Hsent _ _ (assoc_In _ _ _ Ea)) as (p & j & Hp & Hn & Hv & Hnn & Hw).
      destruct (P2 p Hp) as (l' & Hl' & ->). cbn [leaf_param dp_name dp_schema] in *.
      assert (l' = l) as -> by (apply (distinct_leaf_unique _ l' l Hd Hl' Hl Hn)).
      assert (Hu : utf8_valid w = true).
      { rewrite Forall_forall in Hvalid. destruct (Hvalid _ (assoc_In _ _ _ Ea)) as [_ U]. exact U. }
      pose proof (wf_leaf_of _ _ Hwf Hl) as Hwl. unfold wf_leaf in Hwl.
      apply andb_true_iff in Hwl as [Hst _].
      destruct (doc_value_parses env (lf_ty l) (lf_p l) j w Hst (Henv l Hl) Hv Hnn Hw Hu) as [v Hpv].
      destruct (lf_p l) as [| |dv] eqn:Ep.
      + exists (FvOne v). apply qd_one; [discriminate|exact H8|exact Hpv].
      + exists (FvOpt (Some v)). apply qd_some; [exact H8|exact Hpv].
      + exists (FvOne v). apply qd_one; [discriminate|exact H8|exact Hpv].
    - destruct (lf_p l) as [| |dv] eqn:Ep.
      + exfalso. pose proof (Hreq _ (P1 l Hl)) as Hk. cbn [leaf_param dp_required dp_name] in Hk.
        rewrite Ep in Hk. specialize (Hk eq_refl). unfold has_key in Hk. rewrite Ea in Hk. discriminate.
      + exists (FvOpt None). apply qd_none.
      + exists (FvOne dv). apply qd_default. }
  destruct Hvals as [vals Hvals]. exists vals.
  assert (Hx : extract_query_p fs (Some e) = Ok vals).
  { rewrite (flat_bad_nil_query _ _ Hfb).
    apply (extract_query_delivered _ entries); try assumption. apply wf_serde_view, Hd. }
  rewrite Hx. split; reflexivity.
Qed.

(* the same for the path: every template variable bound to a percent-encoded
   text that is valid for the documented schema and can travel as one segment *)
Theorem doc_request_accepted_path title fs ps env entries :
  wf_pspec fs = true -> flat_bad fs = [] ->
  doc_params LPath title fs = Ok ps ->
  (forall l, In l (leaves fs) -> env_ok env (lf_ty l)) ->
  names_distinct (map fst entries) = true ->
  (forall p, In p ps -> has_key (dp_name p) entries = true) ->
  (forall k w, In (k, w) entries -> sends_valid env ps k w /\ deliverable w) ->
  let ws := map (fun kv => (fst kv, WOne (pct_encode (snd kv)))) entries in
  exists vals, extract_path_p fs ws = Ok vals /\ entered (handle (extract_path_p fs ws)) = true.
Proof.
  intros Hwf Hfb Hdoc Henv Hdist Hall Hsent ws.
  pose proof (wf_names _ Hwf) as Hd.
  destruct (documented_params_exact LPath title fs Hd) as (ps' & Hdoc' & _ & P1 & P2).
  rewrite Hdoc in Hdoc'. injection Hdoc' as <-.
  assert (Hws_assoc : forall k, assoc k ws = option_map (fun w => WOne (pct_encode w)) (assoc k entries)).
  { intros k. unfold ws. apply (assoc_map_snd (fun w => WOne (pct_encode w))). }
  assert (Hvals : exists vals,
            Forall2 (fun f v => exists w, assoc (fst f) ws = Some w /\ wire_delivers (snd f) v w)
                    (serde_view fs) vals).
  { apply Forall2_exists. intros [name kind] Hin. cbn [fst snd].
    unfold serde_view in Hin. apply in_map_iff in Hin as (l & E & Hl). injection E as <- <-.
    unfold leaf_kind.
    pose proof (Hall _ (P1 l Hl)) as Hk. cbn [leaf_param dp_name] in Hk.
    apply has_key_assoc in Hk as [w Ea].
    destruct (Hsent _ _ (assoc_In _ _ _ Ea)) as [(p & j & Hp & Hn & Hv & Hnn & Hw) Hdel].
    destruct (P2 p Hp) as (l' & Hl' & ->). cbn [leaf_param dp_name dp_schema] in *.
    assert (l' = l) as -> by (apply (distinct_leaf_unique _ l' l Hd Hl' Hl Hn)).
    pose proof (wf_leaf_of _ _ Hwf Hl) as Hwl. unfold wf_leaf in Hwl.
    apply andb_true_iff in Hwl as [Hst _].
    assert (Hu : utf8_valid w = true) by (destruct Hdel as (_ & _ & _ & U); exact U).
    destruct (doc_value_parses env (lf_ty l) (lf_p l) j w Hst (Henv l Hl) Hv Hnn Hw Hu) as [v Hpv].
    assert (Henc : seg_enc w (pct_encode w)) by (apply pct_encode_seg_enc, utf8_valid_bytes_ok, Hu).
    rewrite Hws_assoc, Ea. cbn [option_map].
    destruct (lf_p l) as [| |dv] eqn:Ep.
    - exists (FvOne v), (WOne (pct_encode w)). split; [reflexivity|].
      apply (wd_one _ _ _ w); [discriminate|exact Hpv|exact Hdel|exact Henc].
    - exists (FvOpt (Some v)), (WOne (pct_encode w)). split; [reflexivity|].
      apply (wd_opt _ _ w); [exact Hpv|exact Hdel|exact Henc].
    - exists (FvOne v), (WOne (pct_encode w)). split; [reflexivity|].
      apply (wd_one _ _ _ w); [discriminate|exact Hpv|exact Hdel|exact Henc]. }
  destruct Hvals as [vals Hvals]. exists vals.
  assert (Hx : extract_path_p fs ws = Ok vals).
  { unfold extract_path_p. rewrite Hfb.
    replace (existsb _ ws) with false.
    2:{ symmetry. clear. induction ws as [|w l IH]; cbn [existsb mem_str]; [reflexivity|exact IH]. }
    apply path_value_delivered.
    - apply wf_serde_view, Hd.
    - unfold ws. rewrite map_map. cbn [fst]. exact Hdist.
    - intros x w Hin. unfold ws in Hin. apply in_map_iff in Hin as ([k w0] & E & Hin).
      cbn [fst snd] in E. injection E as <- <-.
      destruct (Hsent _ _ Hin) as [(p & j & Hp & Hn & _) _].
      destruct (P2 p Hp) as (l & Hl & ->). cbn [leaf_param dp_name] in Hn. subst k.
      intros Hnone. apply (assoc_None_not_In _ _ Hnone (leaf_kind l)).
      unfold serde_view. apply in_map_iff. exists l. split; [reflexivity|exact Hl].
    - exact Hvals. }
  rewrite Hx. split; reflexivity.
Qed.

(* C07 theorem 3: leaving out one parameter the document marks required is
   answered with a 400 and the handler is not entered - whatever else the
   query holds *)
Theorem missing_required_refused title fs ps q p :
  wf_pspec fs = true -> doc_params LQuery title fs = Ok ps ->
  In p ps -> dp_required p = true -> assoc (dp_name p) (form_parse q) = None ->
  exists e, extract_query_p fs (Some q) = Err e /\ xerr_status e = Some 400 /\
            entered (handle (extract_query_p fs (Some q))) = false.
Proof.
  intros Hwf Hdoc Hp Hr Hnone. pose proof (wf_names _ Hwf) as Hd.
  assert (Hex : exists e, extract_query_p fs (Some q) = Err e /\ xerr_status e = Some 400).
  { unfold extract_query_p. destruct (existsb _ _); [eexists; split; reflexivity|].
    destruct (proj1 (documented_required_iff LQuery title fs ps Hd Hdoc p Hp) Hr) as [t Hin].
    apply (query_missing_required_refused (serde_view fs) q (dp_name p) t);
      [apply wf_serde_view, Hd|exact Hin|exact Hnone]. }
  destruct Hex as (e & He & Hs). exists e. rewrite He. repeat split; assumption.
Qed.

(* ------------------------------------------------------------ finding K7a *)

(* a parameter inside a flattened struct whose type is an integer or bool is
   refused whatever value it is given *)
Theorem flat_bad_always_refused fs q k w :
  In (k, w) (form_parse q) -> In k (flat_bad fs) ->
  exists e, extract_query_p fs (Some q) = Err e /\ xerr_status e = Some 400 /\
            entered (handle (extract_query_p fs (Some q))) = false.
Proof.
  intros Hin Hk. unfold extract_query_p.
  replace (existsb _ _) with true.
  - eexists. repeat split; reflexivity.
  - symmetry. apply existsb_exists. exists (k, w). split; [exact Hin|]. apply mem_str_In, Hk.
Qed.

(* ... although the document lists it like any other parameter: [doc_params]
   does not depend on where in the tree a leaf sits *)
Definition doc_request_accepted_full_statement : Prop :=
  forall title fs ps env entries e,
  wf_pspec fs = true -> no_128 fs = true ->
  doc_params LQuery title fs = Ok ps ->
  (forall l, In l (leaves fs) -> env_ok env (lf_ty l)) ->
  names_distinct (map fst entries) = true -> Forall kv_valid entries -> query_enc entries e ->
  (forall p, In p ps -> dp_required p = true -> has_key (dp_name p) entries = true) ->
  (forall k w, In (k, w) entries -> sends_valid env ps k w) ->
  exists vals, extract_query_p fs (Some e) = Ok vals.

Definition k7a_spec : pspec := [FFlat [FLeaf [110] (mkSt (TInt false 32) None) PReq None]].

Theorem doc_request_accepted_refuted : ~ doc_request_accepted_full_statement.
Proof.
  intros H.
  destruct (documented_params_exact LQuery [] k7a_spec eq_refl) as (ps & Hdoc & _ & P1 & P2).
  specialize (H [] k7a_spec ps (fun _ _ => true) [([110], [53])] [110; 61; 53]).
  destruct H as [vals Hv]; try reflexivity; try exact Hdoc.
  - intros l Hl. cbn in Hl. destruct Hl as [<-|[]]. exact I.
  - constructor; [split; reflexivity|constructor].
  - apply qe_last. apply (pe_eq [110] [53] [110] [53]); repeat constructor.
  - intros p Hp _. destruct (P2 p Hp) as (l & Hl & ->). cbn in Hl. destruct Hl as [<-|[]]. reflexivity.
  - intros k w [[= <- <-]|[]].
    assert (Hin : In (leaf_param LQuery (mkLeaf [110] (mkSt (TInt false 32) None) PReq None true)) ps).
    { apply P1. left. reflexivity. }
    eexists _, (JNum (NInt 5%Z)). split; [exact Hin|]. repeat split.
  - vm_compute in Hv. discriminate.
Qed.
