(* ExtractProofs.v — theorems about Extract.v (C09: delivery; C10: refusal). *)
From DS Require Import Base Utf8 Pct PctProofs Scalars ScalarsProofs Query QueryProofs Extract.
From Coq Require Import ZifyBool.

(* ------------------------------------------------------------ association *)

Lemma assoc_In {A} k (l : list (str * A)) v : assoc k l = Some v -> In (k, v) l.
Proof.
  induction l as [|[k' v'] l IH]; cbn [assoc]; [discriminate|].
  destruct (str_eqb_spec k k') as [->|Hne].
  - intros [= ->]. left; reflexivity.
  - intros H. right. apply IH, H.
Qed.

Lemma assoc_None_not_In {A} k (l : list (str * A)) :
  assoc k l = None -> forall v, ~ In (k, v) l.
Proof.
  induction l as [|[k' v'] l IH]; cbn [assoc In]; [tauto|].
  destruct (str_eqb_spec k k') as [->|Hne]; [discriminate|].
  intros H v [[= -> _]|Hin]; [congruence|]. exact (IH H v Hin).
Qed.

Lemma has_key_mem {A} k (l : list (str * A)) : has_key k l = mem_str k (map fst l).
Proof.
  unfold has_key. induction l as [|[k' v'] l IH]; cbn [assoc map fst mem_str]; [reflexivity|].
  destruct (str_eqb k k'); [reflexivity|exact IH].
Qed.

Lemma assoc_mem_None {A} k (l : list (str * A)) :
  mem_str k (map fst l) = false -> assoc k l = None.
Proof.
  rewrite <- has_key_mem. unfold has_key. destruct (assoc k l); [discriminate|reflexivity].
Qed.

Lemma assoc_mem_Some {A} k (l : list (str * A)) :
  mem_str k (map fst l) = true -> exists v, assoc k l = Some v.
Proof.
  rewrite <- has_key_mem. unfold has_key. destruct (assoc k l); [eauto|discriminate].
Qed.

(* in a list with distinct names, every member is what [assoc] finds *)
Lemma assoc_distinct {A} (l : list (str * A)) k v :
  names_distinct (map fst l) = true -> In (k, v) l -> assoc k l = Some v.
Proof.
  induction l as [|[k' v'] l IH]; cbn [map fst names_distinct assoc In]; [tauto|].
  intros Hd [[= -> ->]|Hin].
  - rewrite str_eqb_refl. reflexivity.
  - apply andb_true_iff in Hd as [Hnot Hd].
    destruct (str_eqb_spec k k') as [->|Hne].
    + exfalso. apply negb_true_iff in Hnot.
      assert (Hm : mem_str k' (map fst l) = true).
      { apply mem_str_In. change k' with (fst (k', v)). apply in_map, Hin. }
      congruence.
    + apply IH; assumption.
Qed.

(* --------------------------------------------------- the derived visit_map *)

Section StructDeProofs.
  Variable raw : Type.
  Variable deser : fkind -> raw -> res merr fval.
  Variable ignore : raw -> res merr unit.

  Notation visit_map := (visit_map raw deser ignore).
  Notation struct_de := (struct_de raw deser ignore).

  (* does every entry go through?  ([seen]: names already filled) *)
  Fixpoint entries_okb (sp : spec) (seen : list str) (entries : list (str * raw)) : bool :=
    match entries with
    | [] => true
    | (k, r) :: rest =>
        match assoc k sp with
        | None => is_ok (ignore r) && entries_okb sp seen rest
        | Some kind =>
            negb (mem_str k seen) && is_ok (deser kind r) && entries_okb sp (k :: seen) rest
        end
    end.

  (* the declarative reading of the struct: field by field, in declaration
     order, the first entry of that name or the missing-field rule *)
  Definition field_spec (entries : list (str * raw)) (f : str * fkind) : res merr fval :=
    match assoc (fst f) entries with
    | Some r => deser (snd f) r
    | None => missing (fst f) (snd f)
    end.

  Fixpoint struct_spec (sp : spec) (entries : list (str * raw)) : res merr (list fval) :=
    match sp with
    | [] => Ok []
    | f :: sp' =>
        do v <- field_spec entries f;
        do vs <- struct_spec sp' entries;
        Ok (v :: vs)
    end.

  Lemma visit_map_is_ok sp : forall entries filled,
    is_ok (visit_map sp entries filled) = entries_okb sp (map fst filled) entries.
  Proof.
    induction entries as [|[k r] rest IH]; intros filled; cbn [Extract.visit_map entries_okb];
      [reflexivity|].
    destruct (assoc k sp) as [kind|].
    - rewrite has_key_mem. destruct (mem_str k (map fst filled)); cbn [negb andb]; [reflexivity|].
      destruct (deser kind r) as [v|e]; cbn [bind is_ok andb]; [|reflexivity].
      rewrite IH. reflexivity.
    - destruct (ignore r) as [u|e]; cbn [bind is_ok andb]; [|reflexivity]. apply IH.
  Qed.

  Definition de_opt (kind : fkind) (r : raw) : option fval :=
    match deser kind r with Ok v => Some v | Err _ => None end.

  Lemma visit_map_content sp : forall entries filled filled',
    visit_map sp entries filled = Ok filled' ->
    forall k, assoc k filled' =
              match assoc k filled with
              | Some v => Some v
              | None =>
                  match assoc k sp, assoc k entries with
                  | Some kind, Some r => de_opt kind r
                  | _, _ => None
                  end
              end.
  Proof.
    induction entries as [|[k0 r0] rest IH]; intros filled filled'; cbn [Extract.visit_map].
    - intros [= <-] k. destruct (assoc k filled); [reflexivity|].
      cbn [assoc]. destruct (assoc k sp); reflexivity.
    - destruct (assoc k0 sp) as [kind0|] eqn:Hsp.
      + destruct (has_key k0 filled) eqn:Hk; [discriminate|].
        destruct (deser kind0 r0) as [v0|e] eqn:Hd; cbn [bind]; [|discriminate].
        intros H k. rewrite (IH _ _ H k). cbn [assoc].
        destruct (str_eqb_spec k k0) as [->|Hne].
        * unfold has_key in Hk. destruct (assoc k0 filled); [discriminate|].
          rewrite Hsp. unfold de_opt. rewrite Hd. reflexivity.
        * reflexivity.
      + destruct (ignore r0) as [u|e]; cbn [bind]; [|discriminate].
        intros H k. rewrite (IH _ _ H k). cbn [assoc].
        destruct (str_eqb_spec k k0) as [->|Hne]; [|reflexivity].
        rewrite Hsp. destruct (assoc k0 filled); reflexivity.
  Qed.

  (* when every entry goes through, each known entry's value deserialises *)
  Lemma entries_okb_assoc sp : forall entries seen k kind r,
    entries_okb sp seen entries = true ->
    assoc k sp = Some kind -> assoc k entries = Some r ->
    exists v, deser kind r = Ok v.
  Proof.
    induction entries as [|[k0 r0] rest IH]; intros seen k kind r; cbn [entries_okb assoc];
      [discriminate|].
    destruct (str_eqb_spec k k0) as [->|Hne].
    - intros Hok Hsp [= ->]. rewrite Hsp in Hok.
      apply andb_true_iff in Hok as [Hok _]. apply andb_true_iff in Hok as [_ Hok].
      destruct (deser kind r); [eauto|discriminate].
    - intros Hok Hsp Hr. destruct (assoc k0 sp).
      + apply andb_true_iff in Hok as [_ Hok]. eapply IH; eassumption.
      + apply andb_true_iff in Hok as [_ Hok]. eapply IH; eassumption.
  Qed.

  Lemma finish_spec sp entries filled' :
    entries_okb sp [] entries = true ->
    (forall k, assoc k filled' =
               match assoc k sp, assoc k entries with
               | Some kind, Some r => de_opt kind r
               | _, _ => None
               end) ->
    forall sp', (forall f, In f sp' -> assoc (fst f) sp = Some (snd f)) ->
    finish sp' filled' = struct_spec sp' entries.
  Proof.
    intros Hok Hfilled. induction sp' as [|[name kind] sp' IH]; intros Hin;
      cbn [finish struct_spec]; [reflexivity|].
    assert (Hsp : assoc name sp = Some kind) by (apply (Hin (name, kind)); left; reflexivity).
    rewrite IH by (intros f Hf; apply Hin; right; exact Hf).
    unfold field_spec. cbn [fst snd]. rewrite (Hfilled name), Hsp.
    destruct (assoc name entries) as [r|] eqn:Hr; [|reflexivity].
    destruct (entries_okb_assoc _ _ _ _ _ _ Hok Hsp Hr) as [v Hv].
    unfold de_opt. rewrite Hv. reflexivity.
  Qed.

  Lemma wf_spec_assoc sp :
    wf_spec sp = true -> forall f, In f sp -> assoc (fst f) sp = Some (snd f).
  Proof.
    intros Hwf [name kind] Hin. cbn [fst snd]. apply assoc_distinct; assumption.
  Qed.

  (* the struct deserialiser, characterised completely *)
  Theorem struct_de_char sp entries :
    wf_spec sp = true ->
    (entries_okb sp [] entries = true -> struct_de sp entries = struct_spec sp entries) /\
    (entries_okb sp [] entries = false -> exists e, struct_de sp entries = Err e).
  Proof.
    intros Hwf. unfold Extract.struct_de.
    pose proof (visit_map_is_ok sp entries []) as Hok. cbn [map] in Hok.
    destruct (visit_map sp entries []) as [filled'|e] eqn:Hv; cbn [is_ok bind] in *.
    - split; [|intros H; congruence].
      intros Hb. apply (finish_spec sp entries filled' Hb).
      + intros k. rewrite (visit_map_content _ _ _ _ Hv k). reflexivity.
      + apply wf_spec_assoc, Hwf.
    - split; [intros H; congruence|]. intros _. eauto.
  Qed.

  Corollary struct_de_ok_inv sp entries vals :
    wf_spec sp = true -> struct_de sp entries = Ok vals ->
    entries_okb sp [] entries = true /\ struct_spec sp entries = Ok vals.
  Proof.
    intros Hwf H. destruct (struct_de_char sp entries Hwf) as [H1 H2].
    destruct (entries_okb sp [] entries) eqn:E.
    - split; [reflexivity|]. rewrite <- (H1 eq_refl). exact H.
    - destruct (H2 eq_refl) as [e He]. congruence.
  Qed.

  (* field-wise reading of [struct_spec] *)
  Lemma struct_spec_ok_iff sp entries vals :
    struct_spec sp entries = Ok vals <->
    Forall2 (fun f v => field_spec entries f = Ok v) sp vals.
  Proof.
    revert vals. induction sp as [|f sp IH]; intros vals; cbn [struct_spec].
    - split; [intros [= <-]; constructor|intros H; inversion H; reflexivity].
    - split.
      + destruct (field_spec entries f) as [v|e] eqn:Hf; cbn [bind]; [|discriminate].
        destruct (struct_spec sp entries) as [vs|e]; cbn [bind]; [|discriminate].
        intros [= <-]. constructor; [exact Hf|]. apply IH. reflexivity.
      + intros H. inversion H as [|? v ? vs Hf Hrest]; subst.
        rewrite Hf. cbn [bind]. apply IH in Hrest. rewrite Hrest. reflexivity.
  Qed.

  (* entries that all go through: known names pairwise distinct, every known
     value deserialises, every unknown value can be ignored *)
  Lemma entries_okb_intro sp : forall entries seen,
    names_distinct (map fst entries) = true ->
    (forall k, mem_str k seen = true -> mem_str k (map fst entries) = false) ->
    (forall k r, In (k, r) entries ->
                 match assoc k sp with
                 | Some kind => is_ok (deser kind r) = true
                 | None => is_ok (ignore r) = true
                 end) ->
    entries_okb sp seen entries = true.
  Proof.
    induction entries as [|[k0 r0] rest IH]; intros seen Hd Hseen Hall; cbn [entries_okb];
      [reflexivity|].
    cbn [map fst names_distinct] in Hd. apply andb_true_iff in Hd as [Hk0 Hd].
    apply negb_true_iff in Hk0.
    pose proof (Hall k0 r0 (or_introl eq_refl)) as H0.
    destruct (assoc k0 sp) as [kind|].
    - rewrite H0. rewrite andb_true_r.
      assert (Hns : mem_str k0 seen = false).
      { destruct (mem_str k0 seen) eqn:E; [|reflexivity].
        specialize (Hseen k0 E). cbn [map fst mem_str] in Hseen.
        rewrite str_eqb_refl in Hseen. discriminate. }
      rewrite Hns. cbn [negb andb]. apply IH; [exact Hd| |].
      + intros k Hk. cbn [mem_str] in Hk. apply orb_true_iff in Hk as [Hk|Hk].
        * apply str_eqb_eq in Hk as ->. exact Hk0.
        * specialize (Hseen k Hk). cbn [map fst mem_str] in Hseen.
          apply orb_false_iff in Hseen as [_ H]. exact H.
      + intros k r Hin. apply Hall. right. exact Hin.
    - rewrite H0. cbn [andb]. apply IH; [exact Hd| |].
      + intros k Hk. specialize (Hseen k Hk). cbn [map fst mem_str] in Hseen.
        apply orb_false_iff in Hseen as [_ H]. exact H.
      + intros k r Hin. apply Hall. right. exact Hin.
  Qed.

  (* C10: a repeated known name is refused *)
  Lemma entries_okb_dup sp : forall entries seen k,
    entries_okb sp seen entries = true -> assoc k sp <> None ->
    mem_str k seen = true -> mem_str k (map fst entries) = false.
  Proof.
    induction entries as [|[k0 r0] rest IH]; intros seen k Hok Hsp Hseen;
      cbn [entries_okb map fst mem_str] in *; [reflexivity|].
    destruct (str_eqb_spec k k0) as [<-|Hne]; cbn [orb].
    - destruct (assoc k sp) eqn:E; [|congruence]. rewrite Hseen in Hok. discriminate.
    - destruct (assoc k0 sp).
      + apply andb_true_iff in Hok as [_ Hok].
        eapply IH; [exact Hok|exact Hsp|]. cbn [mem_str]. rewrite Hseen. apply orb_true_r.
      + apply andb_true_iff in Hok as [_ Hok]. eapply IH; eassumption.
  Qed.

  Lemma entries_okb_known_once sp : forall entries seen k r,
    entries_okb sp seen entries = true -> assoc k sp <> None ->
    forall pre post, entries = pre ++ (k, r) :: post -> mem_str k (map fst post) = false.
  Proof.
    induction entries as [|[k0 r0] rest IH]; intros seen k r Hok Hsp pre post E.
    - destruct pre; discriminate.
    - destruct pre as [|p pre]; cbn [app] in E.
      + injection E as -> -> ->. cbn [entries_okb] in Hok.
        destruct (assoc k sp) eqn:E; [|congruence].
        apply andb_true_iff in Hok as [_ Hok].
        eapply entries_okb_dup; [exact Hok|congruence|].
        cbn [mem_str]. rewrite str_eqb_refl. reflexivity.
      + injection E as E1 E2. subst p rest. cbn [entries_okb] in Hok.
        destruct (assoc k0 sp).
        * apply andb_true_iff in Hok as [_ Hok]. eapply IH; [exact Hok|exact Hsp|reflexivity].
        * apply andb_true_iff in Hok as [_ Hok]. eapply IH; [exact Hok|exact Hsp|reflexivity].
  Qed.

  (* C10: every entry of a known name must deserialise *)
  Lemma entries_okb_each sp : forall entries seen k r kind,
    entries_okb sp seen entries = true -> In (k, r) entries -> assoc k sp = Some kind ->
    is_ok (deser kind r) = true.
  Proof.
    induction entries as [|[k0 r0] rest IH]; intros seen k r kind Hok Hin Hsp; [destruct Hin|].
    cbn [entries_okb] in Hok. destruct Hin as [[= -> ->]|Hin].
    - rewrite Hsp in Hok. apply andb_true_iff in Hok as [Hok _].
      apply andb_true_iff in Hok as [_ Hok]. exact Hok.
    - destruct (assoc k0 sp).
      + apply andb_true_iff in Hok as [_ Hok]. eapply IH; eassumption.
      + apply andb_true_iff in Hok as [_ Hok]. eapply IH; eassumption.
  Qed.

  Lemma entries_okb_unknown sp : forall entries seen k r,
    entries_okb sp seen entries = true -> In (k, r) entries -> assoc k sp = None ->
    is_ok (ignore r) = true.
  Proof.
    induction entries as [|[k0 r0] rest IH]; intros seen k r Hok Hin Hsp; [destruct Hin|].
    cbn [entries_okb] in Hok. destruct Hin as [[= -> ->]|Hin].
    - rewrite Hsp in Hok. apply andb_true_iff in Hok as [Hok _]. exact Hok.
    - destruct (assoc k0 sp).
      + apply andb_true_iff in Hok as [_ Hok]. eapply IH; eassumption.
      + apply andb_true_iff in Hok as [_ Hok]. eapply IH; eassumption.
  Qed.
End StructDeProofs.

(* ------------------------------------------------------------- BTreeMap *)

Lemma assoc_insert_sorted {A} k (v : A) : forall l x,
  assoc x (insert_sorted k v l) = if str_eqb x k then Some v else assoc x l.
Proof.
  induction l as [|[k' v'] l IH]; intros x; cbn [insert_sorted assoc]; [reflexivity|].
  destruct (str_ltb k k'); [reflexivity|].
  destruct (str_eqb_spec k k') as [->|Hne]; cbn [assoc].
  - destruct (str_eqb x k'); reflexivity.
  - rewrite IH. destruct (str_eqb_spec x k') as [->|Hx]; [|reflexivity].
    destruct (str_eqb_spec k' k); [congruence|reflexivity].
Qed.

Fixpoint ksorted {A} (l : list (str * A)) : bool :=
  match l with
  | [] => true
  | (k, _) :: l' => forallb (fun kv => str_ltb k (fst kv)) l' && ksorted l'
  end.

Lemma insert_sorted_lb {A} x k (v : A) : forall l,
  forallb (fun kv => str_ltb x (fst kv)) l = true -> str_ltb x k = true ->
  forallb (fun kv => str_ltb x (fst kv)) (insert_sorted k v l) = true.
Proof.
  induction l as [|[k' v'] l IH]; intros Hl Hk; cbn [insert_sorted forallb fst] in *.
  - rewrite Hk. reflexivity.
  - apply andb_true_iff in Hl as [H1 H2].
    destruct (str_ltb k k'); cbn [forallb fst].
    + rewrite Hk, H1, H2. reflexivity.
    + destruct (str_eqb k k'); cbn [forallb fst].
      * rewrite Hk, H2. reflexivity.
      * rewrite H1, (IH H2 Hk). reflexivity.
Qed.

Lemma forallb_ltb_trans {A} a b (l : list (str * A)) :
  str_ltb a b = true -> forallb (fun kv => str_ltb b (fst kv)) l = true ->
  forallb (fun kv => str_ltb a (fst kv)) l = true.
Proof.
  intros Hab. induction l as [|[k v] l IH]; cbn [forallb fst]; [reflexivity|].
  intros H. apply andb_true_iff in H as [H1 H2].
  rewrite (str_ltb_trans _ _ _ Hab H1), (IH H2). reflexivity.
Qed.

Lemma insert_sorted_ksorted {A} k (v : A) : forall l,
  ksorted l = true -> ksorted (insert_sorted k v l) = true.
Proof.
  induction l as [|[k' v'] l IH]; intros Hs; cbn [insert_sorted ksorted] in *; [reflexivity|].
  apply andb_true_iff in Hs as [H1 H2].
  destruct (str_ltb k k') eqn:Hlt; cbn [ksorted forallb fst].
  - rewrite Hlt, (forallb_ltb_trans _ _ _ Hlt H1), H1, H2. reflexivity.
  - destruct (str_eqb_spec k k') as [->|Hne]; cbn [ksorted].
    + rewrite H1, H2. reflexivity.
    + assert (Hgt : str_ltb k' k = true).
      { destruct (str_ltb_total k k') as [H|[H|H]]; congruence. }
      rewrite (insert_sorted_lb _ _ _ _ H1 Hgt), (IH H2). reflexivity.
Qed.

Lemma ksorted_distinct {A} (l : list (str * A)) :
  ksorted l = true -> names_distinct (map fst l) = true.
Proof.
  induction l as [|[k v] l IH]; cbn [ksorted map fst names_distinct]; [reflexivity|].
  intros H. apply andb_true_iff in H as [H1 H2]. rewrite (IH H2), andb_true_r.
  apply negb_true_iff. destruct (mem_str k (map fst l)) eqn:E; [|reflexivity].
  apply mem_str_In, in_map_iff in E as ([k' v'] & Hk & Hin). cbn [fst] in Hk. subst k'.
  rewrite forallb_forall in H1. specialize (H1 _ Hin). cbn [fst] in H1.
  rewrite str_ltb_irrefl in H1. discriminate.
Qed.

Lemma to_btree_fold {A} : forall (l m : list (str * A)),
  ksorted m = true -> names_distinct (map fst l) = true ->
  let r := fold_left (fun m kv => insert_sorted (fst kv) (snd kv) m) l m in
  ksorted r = true /\
  forall x, assoc x r = match assoc x l with Some v => Some v | None => assoc x m end.
Proof.
  induction l as [|[k v] l IH]; intros m Hm Hd; cbn [fold_left fst snd].
  - split; [exact Hm|reflexivity].
  - cbn [map fst names_distinct] in Hd. apply andb_true_iff in Hd as [Hk Hd].
    apply negb_true_iff in Hk.
    destruct (IH (insert_sorted k v m) (insert_sorted_ksorted _ _ _ Hm) Hd) as [S1 S2].
    split; [exact S1|]. intros x. rewrite S2, assoc_insert_sorted. cbn [assoc].
    destruct (str_eqb_spec x k) as [->|Hne]; [|reflexivity].
    rewrite (assoc_mem_None _ _ Hk). reflexivity.
Qed.

Lemma to_btree_spec {A} (l : list (str * A)) :
  names_distinct (map fst l) = true ->
  names_distinct (map fst (to_btree l)) = true /\
  forall x, assoc x (to_btree l) = assoc x l.
Proof.
  intros Hd. destruct (to_btree_fold l [] eq_refl Hd) as [S1 S2].
  split; [apply ksorted_distinct, S1|].
  intros x. unfold to_btree. rewrite S2. cbn [assoc]. destruct (assoc x l); reflexivity.
Qed.

(* ------------------------------------------------------- C09: path values *)

(* text that can travel as ONE path segment: non-empty, not a dot segment,
   well-formed UTF-8 *)
Definition deliverable (s : str) : Prop :=
  s <> [] /\ s <> DOT /\ s <> DOTDOT /\ utf8_valid s = true.

Theorem decode_segment_enc s e :
  seg_enc s e -> deliverable s -> decode_segment e = Ok s.
Proof.
  intros He (Hne & Hd1 & Hd2 & Hu). unfold decode_segment.
  pose proof (seg_enc_nonempty _ _ He Hne) as Hene.
  destruct e as [|c e']; [congruence|]. cbn [is_nil].
  rewrite (seg_enc_decode _ _ He), Hu. cbn [negb].
  destruct (str_eqb_spec s DOT); [congruence|].
  destruct (str_eqb_spec s DOTDOT); [congruence|]. reflexivity.
Qed.

Lemma decode_segments_enc l es :
  Forall2 (fun s e => deliverable s /\ seg_enc s e) l es -> decode_segments es = Ok l.
Proof.
  induction 1 as [|s e l es [Hd He] _ IH]; cbn [decode_segments]; [reflexivity|].
  rewrite (decode_segment_enc _ _ He Hd). cbn [bind]. rewrite IH. reflexivity.
Qed.

Lemma from_map_scalar_parsed t s x :
  parse_scalar t s = Some x -> from_map_scalar t (VOne s) = Ok x.
Proof.
  intros H. unfold from_map_scalar. cbn [as_value bind]. rewrite H. destruct t; reflexivity.
Qed.

(* how a client puts a field's value on the wire: any legal percent-encoding
   [e] of any text [s] that denotes the value (the canonical [print_scalar x],
   but also "+5", "007", ..) in the segment at the variable's position; for
   the wildcard, one segment per element *)
Inductive wire_delivers : fkind -> fval -> wseg -> Prop :=
| wd_one t p x s e :
    p <> POpt -> parse_scalar t s = Some x -> deliverable s -> seg_enc s e ->
    wire_delivers (KScalar t p) (FvOne x) (WOne e)
| wd_opt t x s e :
    parse_scalar t s = Some x -> deliverable s -> seg_enc s e ->
    wire_delivers (KScalar t POpt) (FvOpt (Some x)) (WOne e)
| wd_seq t xs es :
    Forall2 (fun x e => exists s, parse_scalar t s = Some x /\ deliverable s /\ seg_enc s e) xs es ->
    wire_delivers (KSeq t) (FvSeq xs) (WMany es).

(* a typed sequence: delivered iff EVERY element parses, and then it is the
   list of the parsed elements, in order *)
Theorem from_map_elems_ok_iff t : forall l xs,
  from_map_elems t l = Ok xs <-> Forall2 (fun s x => parse_scalar t s = Some x) l xs.
Proof.
  induction l as [|s l IH]; intros xs; cbn [from_map_elems].
  - split; [intros [= <-]; constructor|intros H; inversion H; reflexivity].
  - unfold from_map_scalar at 1. cbn [as_value bind]. split.
    + destruct (parse_scalar t s) as [x|] eqn:E.
      * replace (match t with TEnum _ => Ok x | _ => Ok x end) with (@Ok merr _ x) by (destruct t; reflexivity).
        cbn [bind]. destruct (from_map_elems t l) as [xs'|e] eqn:El; cbn [bind]; [|discriminate].
        intros [= <-]. constructor; [exact E|]. apply IH. reflexivity.
      * destruct t; discriminate.
    + intros H. inversion H as [|? x ? xs' Hx Hrest]; subst. rewrite Hx.
      replace (match t with TEnum _ => Ok x | _ => Ok x end) with (@Ok merr _ x) by (destruct t; reflexivity).
      cbn [bind]. apply IH in Hrest. rewrite Hrest. reflexivity.
Qed.

Lemma from_map_scalar_err t s e :
  from_map_scalar t (VOne s) = Err e -> e = MParse \/ e = MUnknownVariant.
Proof.
  unfold from_map_scalar. cbn [as_value bind].
  destruct (parse_scalar t s); destruct t; try discriminate; intros [= <-]; auto.
Qed.

Lemma from_map_elems_err t : forall l e,
  from_map_elems t l = Err e -> e = MParse \/ e = MUnknownVariant.
Proof.
  induction l as [|s l IH]; intros e; cbn [from_map_elems]; [discriminate|].
  destruct (from_map_scalar t (VOne s)) as [x|e0] eqn:E; cbn [bind].
  - destruct (from_map_elems t l) as [xs|e1] eqn:El; cbn [bind]; [discriminate|].
    intros [= <-]. eapply IH. reflexivity.
  - intros [= <-]. eapply from_map_scalar_err, E.
Qed.

(* C10: ONE element that does not parse - first, middle or last, alone or
   among valid ones - fails the whole sequence *)
Theorem from_map_elems_bad t : forall l s,
  In s l -> parse_scalar t s = None -> exists e, from_map_elems t l = Err e.
Proof.
  intros l s Hin Hbad. destruct (from_map_elems t l) as [xs|e] eqn:E; [|eauto].
  exfalso. apply from_map_elems_ok_iff in E. clear -E Hin Hbad.
  induction E as [|s' x l xs Hx _ IH]; [destruct Hin|].
  destruct Hin as [->|Hin]; [congruence|exact (IH Hin)].
Qed.

Lemma seq_delivers_decode t xs es :
  Forall2 (fun x e => exists s, parse_scalar t s = Some x /\ deliverable s /\ seg_enc s e) xs es ->
  exists l, decode_segments es = Ok l /\ from_map_elems t l = Ok xs.
Proof.
  induction 1 as [|x e xs es (s & Hp & Hd & He) _ (l & Hl & Hx)].
  - exists []. split; reflexivity.
  - exists (s :: l). split.
    + cbn [decode_segments]. rewrite (decode_segment_enc _ _ He Hd). cbn [bind]. rewrite Hl. reflexivity.
    + cbn [from_map_elems]. rewrite (from_map_scalar_parsed _ _ _ Hp). cbn [bind]. rewrite Hx. reflexivity.
Qed.

Lemma wire_delivers_bind kind v w :
  wire_delivers kind v w ->
  exists vv, bind_var w = Ok vv /\ from_map_field kind vv = Ok v.
Proof.
  intros H. destruct H as [t p x s e Hp Hok Hd He|t x s e Hok Hd He|t xs es Hall].
  - exists (VOne s). cbn [bind_var]. rewrite (decode_segment_enc _ _ He Hd).
    split; [reflexivity|]. unfold from_map_field.
    destruct p; try congruence; rewrite (from_map_scalar_parsed _ _ _ Hok); reflexivity.
  - exists (VOne s). cbn [bind_var]. rewrite (decode_segment_enc _ _ He Hd).
    split; [reflexivity|]. unfold from_map_field.
    rewrite (from_map_scalar_parsed _ _ _ Hok). reflexivity.
  - destruct (seq_delivers_decode _ _ _ Hall) as (l & Hl & Hx).
    exists (VMany l). cbn [bind_var]. rewrite Hl. split; [reflexivity|].
    cbn [from_map_field as_seq bind]. rewrite Hx. reflexivity.
Qed.

Lemma bind_vars_ok : forall ws,
  (forall x w, In (x, w) ws -> exists vv, bind_var w = Ok vv) ->
  exists vars, bind_vars ws = Ok vars /\ map fst vars = map fst ws /\
    (forall x w, assoc x ws = Some w -> exists vv, bind_var w = Ok vv /\ assoc x vars = Some vv) /\
    (forall x vv, assoc x vars = Some vv -> exists w, assoc x ws = Some w /\ bind_var w = Ok vv).
Proof.
  induction ws as [|[x0 w0] ws IH]; intros Hall.
  - exists []. repeat split; cbn [assoc]; intros; discriminate.
  - destruct (Hall x0 w0 (or_introl eq_refl)) as [v0 Hv0].
    destruct (IH (fun x w Hin => Hall x w (or_intror Hin))) as (vars & Hb & Hk & H1 & H2).
    exists ((x0, v0) :: vars). cbn [bind_vars]. rewrite Hv0. cbn [bind]. rewrite Hb. cbn [bind].
    split; [reflexivity|]. split; [cbn [map fst]; f_equal; exact Hk|]. split.
    + intros x w. cbn [assoc]. destruct (str_eqb x x0).
      * intros [= <-]. eauto.
      * apply H1.
    + intros x vv. cbn [assoc]. destruct (str_eqb x x0).
      * intros [= <-]. eauto.
      * apply H2.
Qed.

Lemma Forall2_In_l {A B} (P : A -> B -> Prop) l l' a :
  Forall2 P l l' -> In a l -> exists b, P a b.
Proof.
  induction 1 as [|x y l l' Hxy _ IH]; cbn [In]; [tauto|].
  intros [<-|Hin]; [eauto|apply IH, Hin].
Qed.

Lemma Forall2_impl_In {A B} (P Q : A -> B -> Prop) l l' :
  (forall a b, In a l -> P a b -> Q a b) -> Forall2 P l l' -> Forall2 Q l l'.
Proof.
  intros H F. induction F as [|x y l l' Hxy _ IH]; constructor.
  - apply H; [left; reflexivity|exact Hxy].
  - apply IH. intros a b Hin. apply H. right. exact Hin.
Qed.

(* C09 clause 2: every field of the path struct equals the value the client
   encoded at its variable's position - for any legal percent-encoding, any
   order of the variables in the template, every scalar type, the wildcard *)
Theorem path_value_delivered sp ws vals :
  wf_spec sp = true ->
  names_distinct (map fst ws) = true ->
  (forall x w, In (x, w) ws -> assoc x sp <> None) ->
  Forall2 (fun f v => exists w, assoc (fst f) ws = Some w /\ wire_delivers (snd f) v w) sp vals ->
  extract_path sp ws = Ok vals.
Proof.
  intros Hwf Hdw Hknown Hall. unfold extract_path.
  (* every bound variable is a field, hence a deliverable encoding *)
  assert (Hbind : forall x w, In (x, w) ws ->
            exists kind v, In (x, kind) sp /\ wire_delivers kind v w).
  { intros x w Hin. destruct (assoc x sp) as [kind|] eqn:Hsp; [|exfalso; eapply Hknown; eassumption].
    apply assoc_In in Hsp.
    destruct (Forall2_In_l _ _ _ _ Hall Hsp) as (v & w' & Hw' & Hd). cbn [fst snd] in *.
    rewrite (assoc_distinct _ _ _ Hdw Hin) in Hw'. injection Hw' as <-. eauto. }
  destruct (bind_vars_ok ws) as (vars & Hb & Hkeys & H1 & H2).
  { intros x w Hin. destruct (Hbind x w Hin) as (kind & v & _ & Hd).
    destruct (wire_delivers_bind _ _ _ Hd) as (vv & Hvv & _). eauto. }
  rewrite Hb. cbn [bind].
  assert (Hdv : names_distinct (map fst vars) = true) by (rewrite Hkeys; exact Hdw).
  destruct (to_btree_spec vars Hdv) as [Hdb Hab].
  unfold http_extract_path_params, from_map.
  destruct (struct_de_char varval from_map_field from_map_ignore sp (to_btree vars) Hwf) as [Hchar _].
  rewrite Hchar.
  - replace (struct_spec varval from_map_field sp (to_btree vars)) with (@Ok merr _ vals);
      [reflexivity|].
    symmetry. apply struct_spec_ok_iff.
    eapply Forall2_impl_In; [|exact Hall].
    intros [name kind] v _ (w & Hw & Hd). cbn [fst snd] in *.
    unfold field_spec. cbn [fst snd]. rewrite Hab.
    destruct (H1 _ _ Hw) as (vv & Hvv & Hav). rewrite Hav.
    destruct (wire_delivers_bind _ _ _ Hd) as (vv' & Hvv' & Hf).
    rewrite Hvv in Hvv'. injection Hvv' as <-. exact Hf.
  - apply entries_okb_intro; [exact Hdb|intros k Hk; discriminate|].
    intros k r Hin.
    pose proof (assoc_distinct _ _ _ Hdb Hin) as Ha. rewrite Hab in Ha.
    destruct (H2 _ _ Ha) as (w & Hw & Hbw).
    destruct (Hbind k w (assoc_In _ _ _ Hw)) as (kind & v & Hsp & Hd).
    rewrite (assoc_distinct _ _ _ Hwf Hsp).
    destruct (wire_delivers_bind _ _ _ Hd) as (vv & Hvv & Hf).
    rewrite Hbw in Hvv. injection Hvv as <-. rewrite Hf. reflexivity.
Qed.

(* the String case spelled out: any UTF-8 text other than "", "." and ".."
   reaches a String path variable unchanged *)
Corollary path_string_delivered x s e :
  deliverable s -> seg_enc s e ->
  extract_path [(x, KScalar TStr PReq)] [(x, WOne e)] = Ok [FvOne (VStr s)].
Proof.
  intros Hd He. apply path_value_delivered.
  - reflexivity.
  - reflexivity.
  - intros x' w [[= <- <-]|[]]. cbn [assoc]. rewrite str_eqb_refl. discriminate.
  - constructor; [|constructor]. exists (WOne e). cbn [fst snd assoc].
    rewrite str_eqb_refl. split; [reflexivity|].
    apply (wd_one TStr PReq (VStr s) s e); [discriminate|reflexivity|exact Hd|exact He].
Qed.

Corollary path_string_delivered_pct x s :
  deliverable s ->
  extract_path [(x, KScalar TStr PReq)] [(x, WOne (pct_encode s))] = Ok [FvOne (VStr s)].
Proof.
  intros Hd. apply path_string_delivered; [exact Hd|].
  apply pct_encode_seg_enc, utf8_valid_bytes_ok. apply Hd.
Qed.

(* the printed forms of numbers, booleans and chars travel as a segment *)
Lemma ascii_nodot_deliverable s :
  s <> [] -> forallb (fun c => (c <? 128) && negb (c =? 46)) s = true -> deliverable s.
Proof.
  intros Hne Hall. repeat split; [exact Hne| | |].
  - intros ->. discriminate.
  - intros ->. discriminate.
  - apply utf8_valid_ascii. rewrite forallb_forall in *. intros c Hc.
    specialize (Hall c Hc). lia.
Qed.

Lemma print_N_ascii n : forallb (fun c => (c <? 128) && negb (c =? 46)) (print_N n) = true.
Proof.
  pose proof (print_N_all_digits n) as H. rewrite forallb_forall in *.
  intros c Hc. specialize (H c Hc). unfold is_digit in H. lia.
Qed.

Lemma print_int_deliverable z : deliverable (print_int z).
Proof.
  apply ascii_nodot_deliverable; unfold print_int; destruct (z <? 0)%Z.
  - discriminate.
  - destruct (print_N_nonempty (Z.to_N z)) as (d & ds & E & _). rewrite E. discriminate.
  - cbn [forallb]. rewrite print_N_ascii. reflexivity.
  - apply print_N_ascii.
Qed.

Lemma print_bool_deliverable b : deliverable (print_bool b).
Proof. apply ascii_nodot_deliverable; destruct b; [discriminate|discriminate|reflexivity|reflexivity]. Qed.

Lemma utf8_encode_deliverable c : is_scalar c = true -> c <> 46 -> deliverable (utf8_encode c).
Proof.
  intros Hs Hc. pose proof (utf8_encode_valid c Hs) as Hv.
  unfold utf8_encode in *.
  destruct (c <? 128) eqn:H1.
  { repeat split; try discriminate; try exact Hv. intros [= ->]. congruence. }
  destruct (c <? 2048) eqn:H2.
  { repeat split; try discriminate; try exact Hv. intros [= E _]. lia. }
  destruct (c <? 65536) eqn:H3; repeat split; try discriminate; exact Hv.
Qed.

(* C09 clause 2, typed: a field of scalar type [t] equals [x] when the segment
   is [pct_encode (print_scalar x)] *)
Corollary path_typed_delivered name t x :
  sval_ok t x = true -> deliverable (print_scalar x) ->
  extract_path [(name, KScalar t PReq)] [(name, WOne (pct_encode (print_scalar x)))]
  = Ok [FvOne x].
Proof.
  intros Hok Hd. apply path_value_delivered.
  - reflexivity.
  - reflexivity.
  - intros x' w [[= <- <-]|[]]. cbn [assoc]. rewrite str_eqb_refl. discriminate.
  - constructor; [|constructor]. eexists. cbn [fst snd assoc]. rewrite str_eqb_refl.
    split; [reflexivity|].
    apply (wd_one t PReq x (print_scalar x)); [discriminate|apply scalar_round_trip, Hok|exact Hd|].
    apply pct_encode_seg_enc, utf8_valid_bytes_ok, Hd.
Qed.

(* ------------------------------- C09: query strings and url-encoded bodies *)

Lemma urlenc_scalar_parsed t s x :
  is_128 t = false -> parse_scalar t s = Some x -> urlenc_scalar t s = Ok x.
Proof. intros H8 H. unfold urlenc_scalar. rewrite H8, H. destruct t; reflexivity. Qed.

(* what the entry list must hold for a field to come out as [v]: a text that
   denotes the value, or nothing at all for an absent Option / a defaulted
   field left at its default *)
Inductive q_delivers : fkind -> fval -> option str -> Prop :=
| qd_one t p x s :
    p <> POpt -> is_128 t = false -> parse_scalar t s = Some x ->
    q_delivers (KScalar t p) (FvOne x) (Some s)
| qd_some t x s :
    is_128 t = false -> parse_scalar t s = Some x ->
    q_delivers (KScalar t POpt) (FvOpt (Some x)) (Some s)
| qd_none t : q_delivers (KScalar t POpt) (FvOpt None) None
| qd_default t d : q_delivers (KScalar t (PDef d)) (FvOne d) None.

Lemma q_delivers_field name kind v o :
  q_delivers kind v o ->
  match o with
  | Some s => urlenc_field kind s = Ok v
  | None => missing name kind = Ok v
  end.
Proof.
  intros H. destruct H as [t p x s Hp H8 Hs|t x s H8 Hs|t|t d]; cbn [urlenc_field missing].
  - rewrite (urlenc_scalar_parsed _ _ _ H8 Hs). destruct p; try congruence; reflexivity.
  - rewrite (urlenc_scalar_parsed _ _ _ H8 Hs). reflexivity.
  - reflexivity.
  - reflexivity.
Qed.

Theorem urlenc_struct_delivered sp entries vals :
  wf_spec sp = true -> names_distinct (map fst entries) = true ->
  Forall2 (fun f v => q_delivers (snd f) v (assoc (fst f) entries)) sp vals ->
  urlenc_struct sp entries = Ok vals.
Proof.
  intros Hwf Hd Hall. unfold urlenc_struct.
  destruct (struct_de_char str urlenc_field urlenc_ignore sp entries Hwf) as [Hchar _].
  rewrite Hchar.
  - apply struct_spec_ok_iff. eapply Forall2_impl_In; [|exact Hall].
    intros [name kind] v _ Hq. cbn [fst snd] in *. unfold field_spec. cbn [fst snd].
    pose proof (q_delivers_field name _ _ _ Hq) as H.
    destruct (assoc name entries); exact H.
  - apply entries_okb_intro; [exact Hd|intros k Hk; discriminate|].
    intros k r Hin. destruct (assoc k sp) as [kind|] eqn:Hsp; [|reflexivity].
    destruct (Forall2_In_l _ _ _ _ Hall (assoc_In _ _ _ Hsp)) as [v Hq]. cbn [fst snd] in Hq.
    rewrite (assoc_distinct _ _ _ Hd Hin) in Hq.
    pose proof (q_delivers_field k _ _ _ Hq) as H. cbn in H. rewrite H. reflexivity.
Qed.

(* C09 clause 3b: whatever legal encoding [e] of whatever list of pairs
   carrying the fields (any order, unknown names in between, Options absent,
   defaults omitted) the client sends, the query struct is the value encoded *)
Theorem extract_query_delivered sp entries vals e :
  wf_spec sp = true -> names_distinct (map fst entries) = true ->
  Forall kv_valid entries -> query_enc entries e ->
  Forall2 (fun f v => q_delivers (snd f) v (assoc (fst f) entries)) sp vals ->
  extract_query sp (Some e) = Ok vals.
Proof.
  intros Hwf Hd Hv He Hall. unfold extract_query.
  rewrite (form_parse_enc _ _ He Hv), (urlenc_struct_delivered _ _ _ Hwf Hd Hall). reflexivity.
Qed.

(* the canonical client: every present field as name=print(value) *)
Definition client_field (name : str) (v : fval) : list (str * str) :=
  match v with
  | FvOne x => [(name, print_scalar x)]
  | FvOpt (Some x) => [(name, print_scalar x)]
  | FvOpt None => []
  | FvSeq _ => []
  end.

Fixpoint client_fields (sp : spec) (vals : list fval) : list (str * str) :=
  match sp, vals with
  | (name, _) :: sp', v :: vals' => client_field name v ++ client_fields sp' vals'
  | _, _ => []
  end.

(* [v] is a value of a field of kind [kind] that a query can carry *)
Definition q_typed (kind : fkind) (v : fval) : Prop :=
  match kind, v with
  | KScalar t POpt, FvOpt None => True
  | KScalar t POpt, FvOpt (Some x) => is_128 t = false /\ sval_ok t x = true
  | KScalar t PReq, FvOne x => is_128 t = false /\ sval_ok t x = true
  | KScalar t (PDef _), FvOne x => is_128 t = false /\ sval_ok t x = true
  | _, _ => False
  end.

Lemma client_fields_keys sp : forall vals k,
  mem_str k (map fst (client_fields sp vals)) = true -> mem_str k (map fst sp) = true.
Proof.
  induction sp as [|[name kind] sp IH]; intros vals k; cbn [client_fields]; [discriminate|].
  destruct vals as [|v vals]; [discriminate|].
  rewrite map_app. intros H. apply mem_str_In, in_app_or in H as [H|H]; cbn [map fst mem_str].
  - assert (k = name) as ->.
    { destruct v as [x|[x|]|l]; cbn [client_field map fst In] in H; try tauto;
        destruct H as [<-|[]]; reflexivity. }
    rewrite str_eqb_refl. reflexivity.
  - apply mem_str_In in H. rewrite (IH _ _ H). apply orb_true_r.
Qed.

Lemma names_distinct_app l1 l2 :
  names_distinct l1 = true -> names_distinct l2 = true ->
  (forall k, In k l1 -> mem_str k l2 = false) -> names_distinct (l1 ++ l2) = true.
Proof.
  induction l1 as [|x l1 IH]; intros H1 H2 Hdis; cbn [app names_distinct] in *; [exact H2|].
  apply andb_true_iff in H1 as [Hx H1]. rewrite IH; [|exact H1|exact H2|intros k Hk; apply Hdis; right; exact Hk].
  rewrite andb_true_r. apply negb_true_iff. apply negb_true_iff in Hx.
  destruct (mem_str x (l1 ++ l2)) eqn:E; [|reflexivity].
  apply mem_str_In, in_app_or in E as [E|E].
  - apply mem_str_In in E. congruence.
  - apply mem_str_In in E. rewrite (Hdis x (or_introl eq_refl)) in E. discriminate.
Qed.

Lemma client_fields_distinct sp : forall vals,
  wf_spec sp = true -> names_distinct (map fst (client_fields sp vals)) = true.
Proof.
  unfold wf_spec. induction sp as [|[name kind] sp IH]; intros vals Hwf; cbn [client_fields];
    [reflexivity|].
  destruct vals as [|v vals]; [reflexivity|].
  cbn [map fst names_distinct] in Hwf. apply andb_true_iff in Hwf as [Hn Hwf].
  apply negb_true_iff in Hn. rewrite map_app.
  apply names_distinct_app; [|apply IH, Hwf|].
  - destruct v as [x|[x|]|l]; reflexivity.
  - intros k Hk.
    assert (k = name) as ->.
    { destruct v as [x|[x|]|l]; cbn [client_field map fst In] in Hk; try tauto;
        destruct Hk as [<-|[]]; reflexivity. }
    destruct (mem_str name (map fst (client_fields sp vals))) eqn:E; [|reflexivity].
    apply client_fields_keys in E. congruence.
Qed.

Lemma assoc_app {A} k (l1 l2 : list (str * A)) :
  assoc k (l1 ++ l2) = match assoc k l1 with Some v => Some v | None => assoc k l2 end.
Proof.
  induction l1 as [|[k' v'] l1 IH]; cbn [app assoc]; [reflexivity|].
  destruct (str_eqb k k'); [reflexivity|exact IH].
Qed.

Lemma client_fields_delivers sp : forall vals,
  wf_spec sp = true -> Forall2 (fun f v => q_typed (snd f) v) sp vals ->
  Forall2 (fun f v => q_delivers (snd f) v (assoc (fst f) (client_fields sp vals))) sp vals.
Proof.
  unfold wf_spec. induction sp as [|[name kind] sp IH]; intros vals Hwf Hall.
  - inversion Hall. constructor.
  - inversion Hall as [|? v ? vals' Hty Hrest]; subst. cbn [client_fields].
    cbn [map fst names_distinct] in Hwf. apply andb_true_iff in Hwf as [Hn Hwf].
    apply negb_true_iff in Hn.
    assert (Hnone : assoc name (client_fields sp vals') = None).
    { apply assoc_mem_None.
      destruct (mem_str name (map fst (client_fields sp vals'))) eqn:E; [|reflexivity].
      apply client_fields_keys in E. congruence. }
    constructor.
    + cbn [fst snd] in *. rewrite assoc_app.
      destruct kind as [t p|t|]; cbn [q_typed] in Hty; try tauto.
      destruct p as [| |d]; destruct v as [x|[x|]|l]; try tauto; cbn [client_field assoc];
        rewrite ?str_eqb_refl, ?Hnone.
      * destruct Hty as [H8 Hok].
        apply qd_one; [discriminate|exact H8|apply scalar_round_trip, Hok].
      * destruct Hty as [H8 Hok]. apply qd_some; [exact H8|apply scalar_round_trip, Hok].
      * apply qd_none.
      * destruct Hty as [H8 Hok].
        apply qd_one; [discriminate|exact H8|apply scalar_round_trip, Hok].
    + eapply Forall2_impl_In; [|apply (IH _ Hwf Hrest)].
      intros [n' k'] v' Hin Hq. cbn [fst snd] in *. rewrite assoc_app.
      assert (Hne : assoc n' (client_field name v) = None).
      { assert (n' <> name).
        { intros ->. assert (mem_str name (map fst sp) = true); [|congruence].
          apply mem_str_In. change name with (fst (name, k')). apply in_map, Hin. }
        destruct v as [x|[x|]|l]; cbn [client_field assoc]; try reflexivity;
          destruct (str_eqb_spec n' name); congruence. }
      rewrite Hne. exact Hq.
Qed.

(* C09 clause 3b for the canonical client, including absent optionals *)
Theorem extract_query_client sp vals :
  wf_spec sp = true -> Forall2 (fun f v => q_typed (snd f) v) sp vals ->
  Forall kv_valid (client_fields sp vals) ->
  extract_query sp (Some (form_encode (client_fields sp vals))) = Ok vals.
Proof.
  intros Hwf Hty Hv. unfold extract_query.
  rewrite (form_parse_encode _ Hv).
  rewrite (urlenc_struct_delivered sp _ vals Hwf (client_fields_distinct _ _ Hwf)); [reflexivity|].
  apply client_fields_delivers; assumption.
Qed.

(* a defaulted field left out altogether comes out as its default *)
Corollary extract_query_default_omitted name t d :
  extract_query [(name, KScalar t (PDef d))] None = Ok [FvOne d].
Proof. reflexivity. Qed.

(* ------------------------------------------------------------ C09: bodies *)

Definition total (frames : list str) : N := N.of_nat (length (concat frames)).

(* [collect] keeps [read <= cap] as long as it continues *)
Lemma collect_spec : forall frames cap read acc,
  read <= cap ->
  collect cap read frames acc =
  if read + total frames <=? cap then Ok (acc ++ concat frames) else Err XBodyTooLarge.
Proof.
  unfold total.
  induction frames as [|f fs IH]; intros cap read acc Hr; cbn [collect concat].
  - rewrite app_nil_r. cbn [length]. replace (read + N.of_nat 0 <=? cap) with true by lia.
    reflexivity.
  - rewrite app_length, Nat2N.inj_add.
    destruct (cap <? read + N.of_nat (length f)) eqn:E.
    + replace (read + (N.of_nat (length f) + N.of_nat (length (concat fs))) <=? cap)
        with false by lia. reflexivity.
    + rewrite IH by lia. rewrite <- app_assoc.
      replace (read + N.of_nat (length f) + N.of_nat (length (concat fs)))
        with (read + (N.of_nat (length f) + N.of_nat (length (concat fs)))) by lia.
      reflexivity.
Qed.

(* every chunking of the same bytes gives the same result: only the
   concatenation and its length matter *)
Theorem buffer_body_spec cap frames :
  buffer_body cap frames =
  if total frames <=? cap then Ok (concat frames) else Err XBodyTooLarge.
Proof. unfold buffer_body. rewrite collect_spec by lia. reflexivity. Qed.

Lemma stream_yield_fits : forall frames cap read,
  read + total frames <= cap -> stream_yield cap read frames = (frames, true).
Proof.
  unfold total. induction frames as [|f fs IH]; intros cap read H; cbn [stream_yield];
    [reflexivity|].
  cbn [concat] in H. rewrite app_length, Nat2N.inj_add in H.
  replace (cap <? read + N.of_nat (length f)) with false by lia.
  rewrite IH by lia. reflexivity.
Qed.

(* C09 clause 4, raw bodies: UntypedBody holds, and StreamingBody yields, the
   concatenation of the frames - whatever the chunking *)
Theorem raw_body_delivered cap frames :
  total frames <= cap ->
  extract_untyped_body cap frames = Ok (concat frames) /\
  stream_yield cap 0 frames = (frames, true).
Proof.
  intros H. split.
  - unfold extract_untyped_body. rewrite buffer_body_spec.
    replace (total frames <=? cap) with true by lia. reflexivity.
  - apply stream_yield_fits. lia.
Qed.

(* --- content-type spellings --- *)

Definition clean_mime (m : str) : bool :=
  forallb (fun c => negb (is_ascii_ws c) && negb (c =? 59)) m.

Lemma before_semicolon_app a rest :
  forallb (fun c => negb (c =? 59)) a = true -> (rest = [] \/ exists r, rest = 59 :: r) ->
  before_semicolon (a ++ rest) = a.
Proof.
  induction a as [|c a IH]; intros Ha Hr; cbn [app before_semicolon].
  - destruct Hr as [->|[r ->]]; reflexivity.
  - cbn [forallb] in Ha. apply andb_true_iff in Ha as [Hc Ha].
    apply negb_true_iff in Hc. rewrite Hc, (IH Ha Hr). reflexivity.
Qed.

Lemma trim_end_ws pad : forallb is_ascii_ws pad = true -> trim_end pad = [].
Proof.
  induction pad as [|c pad IH]; cbn [forallb trim_end]; [reflexivity|].
  intros H. apply andb_true_iff in H as [Hc Hp]. rewrite (IH Hp), Hc. reflexivity.
Qed.

Lemma trim_end_clean_app a pad :
  forallb (fun c => negb (is_ascii_ws c)) a = true -> forallb is_ascii_ws pad = true ->
  trim_end (a ++ pad) = a.
Proof.
  induction a as [|c a IH]; intros Ha Hp; cbn [app].
  - apply trim_end_ws, Hp.
  - cbn [forallb] in Ha. apply andb_true_iff in Ha as [Hc Ha]. apply negb_true_iff in Hc.
    cbn [trim_end]. rewrite (IH Ha Hp). destruct a; [rewrite Hc|]; reflexivity.
Qed.

Lemma lower_byte_ws c : is_ascii_ws (lower_byte c) = is_ascii_ws c.
Proof. unfold is_ascii_ws, lower_byte. destruct ((65 <=? c) && (c <=? 90)) eqn:E; lia. Qed.
Lemma lower_byte_eqb_stable c k :
  (k < 65 \/ 122 < k \/ (90 < k /\ k < 97)) -> (lower_byte c =? k) = (c =? k).
Proof. unfold lower_byte. destruct ((65 <=? c) && (c <=? 90)) eqn:E; lia. Qed.

Lemma forallb_map_eq {A B} (p : B -> bool) (f : A -> B) l :
  forallb p (map f l) = forallb (fun x => p (f x)) l.
Proof. induction l as [|x l IH]; cbn [map forallb]; [reflexivity|]. rewrite IH. reflexivity. Qed.

Lemma clean_mime_lower m' :
  clean_mime (str_lower m') = true -> clean_mime m' = true.
Proof.
  unfold clean_mime, str_lower. rewrite forallb_map_eq.
  intros H. rewrite forallb_forall in *. intros c Hc. specialize (H c Hc). cbn beta in H.
  rewrite lower_byte_ws, (lower_byte_eqb_stable c 59) in H by lia. exact H.
Qed.

(* every way the RFCs let a client write media type [m] in a Content-Type
   header: any letter case, optional blanks, optionally ';' and anything
   (parameters) after it *)
Definition ct_spelling (m v : str) : Prop :=
  exists m' pad rest,
    v = m' ++ pad ++ rest /\ str_lower m' = m /\
    forallb (fun c => (c =? 32) || (c =? 9)) pad = true /\
    (rest = [] \/ exists r, rest = 59 :: r) /\
    header_is_str v = true.

Lemma mime_type_of_spelling m v :
  clean_mime m = true -> ct_spelling m v -> mime_type_of v = m.
Proof.
  intros Hm (m' & pad & rest & -> & Hl & Hpad & Hrest & _). unfold mime_type_of.
  assert (Hm' : clean_mime m' = true) by (apply clean_mime_lower; rewrite Hl; exact Hm).
  unfold clean_mime in Hm'. rewrite forallb_forall in Hm', Hpad.
  rewrite app_assoc, before_semicolon_app; [| |exact Hrest].
  - rewrite trim_end_clean_app; [exact Hl| |].
    + apply forallb_forall. intros c Hc. specialize (Hm' c Hc). lia.
    + apply forallb_forall. intros c Hc. specialize (Hpad c Hc). unfold is_ascii_ws. lia.
  - rewrite forallb_app. apply andb_true_iff. split; apply forallb_forall; intros c Hc.
    + specialize (Hm' c Hc). lia.
    + specialize (Hpad c Hc). lia.
Qed.

Lemma content_type_spelling m v :
  ct_spelling m v -> content_type_str (HVal v) = Ok v.
Proof. intros (m' & pad & rest & _ & _ & _ & _ & H). cbn [content_type_str]. rewrite H. reflexivity. Qed.

Section TypedBody.
  (* serde_json for the endpoint's body type: a parser and the serialiser of a
     conforming client, with the one property used (LIBRARY CONTRACT) *)
  Variable V : Type.
  Variable json_de : str -> option V.
  Variable json_ser : V -> str.
  Hypothesis json_round_trip : forall v, json_de (json_ser v) = Some v.

  (* C09 clause 4, JSON: no Content-Type at all, or any spelling of
     application/json; any chunking whose concatenation is the document *)
  Theorem json_body_delivered sp h cap frames v :
    (h = HAbsent \/ exists ct, h = HVal ct /\ ct_spelling CT_JSON ct) ->
    concat frames = json_ser v -> total frames <= cap ->
    extract_typed_body json_de CtJson sp h cap frames = Ok (TJson v).
  Proof.
    intros Hh Hb Hcap. unfold extract_typed_body. rewrite buffer_body_spec.
    replace (total frames <=? cap) with true by lia. cbn [bind].
    assert (Hm : exists ct, content_type_str h = Ok ct /\ mime_type_of ct = CT_JSON).
    { destruct Hh as [->|(ct & -> & Hs)].
      - exists CT_JSON. split; reflexivity.
      - exists ct. split; [eapply content_type_spelling, Hs|].
        apply mime_type_of_spelling; [reflexivity|exact Hs]. }
    destruct Hm as (ct & -> & Hmt). cbn [bind]. rewrite Hmt.
    change (from_mime_type CT_JSON) with (Some CtJson). cbn iota.
    rewrite Hb, json_round_trip. reflexivity.
  Qed.

  (* C09 clause 4, url-encoded: any spelling of the media type, any legal
     encoding of the fields, any chunking *)
  Theorem form_body_delivered sp ct cap frames entries vals :
    ct_spelling CT_FORM ct ->
    wf_spec sp = true -> names_distinct (map fst entries) = true ->
    Forall kv_valid entries -> query_enc entries (concat frames) ->
    Forall2 (fun f v => q_delivers (snd f) v (assoc (fst f) entries)) sp vals ->
    total frames <= cap ->
    extract_typed_body json_de CtForm sp (HVal ct) cap frames = Ok (TForm vals).
  Proof.
    intros Hs Hwf Hd Hv He Hall Hcap. unfold extract_typed_body. rewrite buffer_body_spec.
    replace (total frames <=? cap) with true by lia. cbn [bind].
    rewrite (content_type_spelling _ _ Hs). cbn [bind].
    rewrite (mime_type_of_spelling CT_FORM ct eq_refl Hs).
    change (from_mime_type CT_FORM) with (Some CtForm). cbn iota.
    rewrite (form_parse_enc _ _ He Hv), (urlenc_struct_delivered _ _ _ Hwf Hd Hall). reflexivity.
  Qed.

  (* C10: every failure of the typed-body extractor is a 400 *)
  Theorem typed_body_errors_400 expected sp h cap frames e :
    extract_typed_body json_de expected sp h cap frames = Err e -> xerr_status e = Some 400.
  Proof.
    unfold extract_typed_body.
    destruct (buffer_body cap frames) as [body|e0] eqn:Hb; cbn [bind].
    2:{ unfold buffer_body in Hb. intros [= <-].
        rewrite collect_spec in Hb by lia. destruct (_ <=? _); [discriminate|].
        injection Hb as <-. reflexivity. }
    destruct (content_type_str h) as [ct|e1] eqn:Hc; cbn [bind].
    2:{ intros [= <-]. destruct h as [|v]; cbn [content_type_str] in Hc; [discriminate|].
        destruct (header_is_str v); [discriminate|]. injection Hc as <-. reflexivity. }
    destruct (from_mime_type (mime_type_of ct)) as [got|]; [|intros [= <-]; reflexivity].
    destruct expected, got; try (intros [= <-]; reflexivity).
    - destruct (json_de body); [discriminate|]. intros [= <-]. reflexivity.
    - destruct (urlenc_struct sp (form_parse body)); [discriminate|]. intros [= <-]. reflexivity.
  Qed.

  (* C10: a body whose media type is not the endpoint's, or is unknown, or is
     not even text, is refused whatever the body holds *)
  Theorem wrong_content_type_refused expected sp v cap frames :
    from_mime_type (mime_type_of v) <> Some expected \/ header_is_str v = false ->
    exists e, extract_typed_body json_de expected sp (HVal v) cap frames = Err e
              /\ xerr_status e = Some 400.
  Proof.
    intros H.
    destruct (extract_typed_body json_de expected sp (HVal v) cap frames) as [r|e] eqn:E.
    - exfalso. unfold extract_typed_body in E.
      destruct (buffer_body cap frames); cbn [bind] in E; [|discriminate].
      cbn [content_type_str] in E.
      destruct (header_is_str v) eqn:Hs; cbn [bind] in E; [|discriminate].
      destruct H as [H|H]; [|discriminate].
      destruct (from_mime_type (mime_type_of v)) as [got|]; [|discriminate].
      destruct expected, got; try discriminate; congruence.
    - exists e. split; [reflexivity|]. eapply typed_body_errors_400, E.
  Qed.

  (* C10: malformed JSON - whatever is not, as a whole, one JSON text of the
     body type ([json_de] is the whole-buffer parser) - is a 400 *)
  Theorem malformed_json_refused sp h cap frames body :
    buffer_body cap frames = Ok body -> json_de body = None ->
    exists e, extract_typed_body json_de CtJson sp h cap frames = Err e
              /\ xerr_status e = Some 400.
  Proof.
    intros Hb Hj.
    destruct (extract_typed_body json_de CtJson sp h cap frames) as [r|e] eqn:E.
    - exfalso. unfold extract_typed_body in E. rewrite Hb in E. cbn [bind] in E.
      destruct (content_type_str h); cbn [bind] in E; [|discriminate].
      destruct (from_mime_type _) as [[]|]; try discriminate.
      rewrite Hj in E. discriminate.
    - exists e. split; [reflexivity|]. eapply typed_body_errors_400, E.
  Qed.
End TypedBody.

(* ------------------------------------------------ C09: multipart boundary *)

(* a parameter as a client may write it after a ';': optional spaces, a
   token name, '=', and the value either as a token or as a quoted string
   (then optionally followed by spaces) *)
Record cparam := {
  cp_spaces : nat;
  cp_name : str;
  cp_value : str;
  cp_quoted : bool;
  cp_trail : nat
}.

Definition spaces (n : nat) : str := repeat 32 n.

Definition render_param (p : cparam) : str :=
  spaces (cp_spaces p) ++ cp_name p ++
  61 :: (if cp_quoted p then 34 :: cp_value p ++ 34 :: spaces (cp_trail p) else cp_value p).

Fixpoint render_params (ps : list cparam) : str :=
  match ps with
  | [] => []
  | p :: ps' => 59 :: render_param p ++ render_params ps'
  end.

Definition qchar_ok (c : N) : bool := is_quoted_char c && negb (c =? 34).

Definition cparam_ok (p : cparam) : Prop :=
  cp_name p <> [] /\ forallb is_token (cp_name p) = true /\ cp_value p <> [] /\
  (if cp_quoted p then forallb qchar_ok (cp_value p) = true
   else forallb is_token (cp_value p) = true).

Definition cparam_pair (p : cparam) : str * str := (cp_name p, cp_value p).

Lemma run_spaces n : forall acc s,
  params_run PStart acc (spaces n ++ s) = params_run PStart acc s.
Proof. induction n as [|n IH]; intros acc s; cbn [spaces repeat app params_run]; [reflexivity|apply IH]. Qed.

Lemma run_name toks : forall nm acc s,
  forallb is_token toks = true ->
  params_run (PName nm) acc (toks ++ 61 :: s) = params_run (PValStart (nm ++ toks)) acc s.
Proof.
  induction toks as [|c toks IH]; intros nm acc s H; cbn [app params_run].
  - rewrite app_nil_r. reflexivity.
  - cbn [forallb] in H. apply andb_true_iff in H as [Hc H]. rewrite Hc, (IH _ _ _ H), <- app_assoc.
    reflexivity.
Qed.

Lemma token_not c k : is_token c = true -> is_token k = false -> (c =? k) = false.
Proof. intros Hc Hk. destruct (N.eqb_spec c k) as [->|]; congruence. Qed.

Lemma run_start_name name acc s :
  name <> [] -> forallb is_token name = true ->
  params_run PStart acc (name ++ 61 :: s) = params_run (PValStart name) acc s.
Proof.
  intros Hne H. destruct name as [|c toks]; [congruence|].
  cbn [forallb] in H. apply andb_true_iff in H as [Hc H]. cbn [app params_run].
  rewrite (token_not c 32 Hc eq_refl), Hc. apply (run_name toks [c] acc s H).
Qed.

Lemma run_val toks : forall nm v acc,
  forallb is_token toks = true ->
  params_run (PVal nm v) acc toks = Some (rev ((nm, v ++ toks) :: acc)) /\
  forall s, params_run (PVal nm v) acc (toks ++ 59 :: s)
            = params_run PStart ((nm, v ++ toks) :: acc) s.
Proof.
  induction toks as [|c toks IH]; intros nm v acc H; cbn [app params_run].
  - rewrite app_nil_r. split; reflexivity.
  - cbn [forallb] in H. apply andb_true_iff in H as [Hc H]. rewrite Hc.
    destruct (IH nm (v ++ [c]) acc H) as [I1 I2]. rewrite <- app_assoc in I1, I2.
    split; [exact I1|exact I2].
Qed.

Lemma run_quoted cs : forall nm v acc s,
  forallb qchar_ok cs = true ->
  params_run (PQuoted nm v) acc (cs ++ 34 :: s) = params_run (PAfterQuoted nm (v ++ cs)) acc s.
Proof.
  induction cs as [|c cs IH]; intros nm v acc s H; cbn [app params_run].
  - rewrite app_nil_r. reflexivity.
  - cbn [forallb] in H. apply andb_true_iff in H as [Hc H]. unfold qchar_ok in Hc.
    apply andb_true_iff in Hc as [Hq H34]. apply negb_true_iff in H34.
    rewrite H34, Hq, (IH _ _ _ _ H), <- app_assoc. reflexivity.
Qed.

Lemma run_after n : forall nm v acc,
  params_run (PAfterQuoted nm v) acc (spaces n) = Some (rev ((nm, v) :: acc)) /\
  forall s, params_run (PAfterQuoted nm v) acc (spaces n ++ 59 :: s)
            = params_run PStart ((nm, v) :: acc) s.
Proof.
  induction n as [|n IH]; intros nm v acc; cbn [spaces repeat app params_run].
  - split; reflexivity.
  - apply IH.
Qed.

Lemma param_step p acc :
  cparam_ok p ->
  params_run PStart acc (render_param p) = Some (rev (cparam_pair p :: acc)) /\
  forall s, params_run PStart acc (render_param p ++ 59 :: s)
            = params_run PStart (cparam_pair p :: acc) s.
Proof.
  intros (Hn1 & Hn2 & Hv1 & Hv2). unfold render_param, cparam_pair.
  destruct p as [sp name value quoted trail]. cbn [cp_spaces cp_name cp_value cp_quoted cp_trail] in *.
  destruct quoted.
  - (* quoted *)
    destruct value as [|c0 cs]; [congruence|].
    cbn [forallb] in Hv2. apply andb_true_iff in Hv2 as [Hc0 Hcs].
    unfold qchar_ok in Hc0. apply andb_true_iff in Hc0 as [Hq0 _].
    split.
    + rewrite run_spaces, (run_start_name _ _ _ Hn1 Hn2). cbn [params_run app].
      rewrite Hq0. rewrite (run_quoted cs name [c0] acc (spaces trail) Hcs).
      apply run_after.
    + intros s.
      replace ((spaces sp ++ name ++ 61 :: 34 :: (c0 :: cs) ++ 34 :: spaces trail) ++ 59 :: s)
        with (spaces sp ++ name ++ 61 :: 34 :: c0 :: cs ++ 34 :: spaces trail ++ 59 :: s).
      2:{ rewrite <- app_assoc. f_equal. rewrite <- app_assoc. f_equal. cbn [app].
          do 3 f_equal. rewrite <- app_assoc. reflexivity. }
      rewrite run_spaces, (run_start_name _ _ _ Hn1 Hn2). cbn [params_run].
      rewrite Hq0. rewrite (run_quoted cs name [c0] acc _ Hcs).
      apply run_after.
  - (* token *)
    destruct value as [|c0 cs]; [congruence|].
    cbn [forallb] in Hv2. apply andb_true_iff in Hv2 as [Hc0 Hcs].
    split.
    + rewrite run_spaces, (run_start_name _ _ _ Hn1 Hn2). cbn [params_run].
      rewrite (token_not c0 34 Hc0 eq_refl), Hc0.
      apply (run_val cs name [c0] acc Hcs).
    + intros s.
      replace ((spaces sp ++ name ++ 61 :: c0 :: cs) ++ 59 :: s)
        with (spaces sp ++ name ++ 61 :: c0 :: cs ++ 59 :: s).
      2:{ rewrite <- app_assoc. f_equal. rewrite <- app_assoc. reflexivity. }
      rewrite run_spaces, (run_start_name _ _ _ Hn1 Hn2). cbn [params_run].
      rewrite (token_not c0 34 Hc0 eq_refl), Hc0.
      apply (run_val cs name [c0] acc Hcs).
Qed.

Lemma params_run_render : forall ps p acc,
  Forall cparam_ok (p :: ps) ->
  params_run PStart acc (render_param p ++ render_params ps)
  = Some (rev acc ++ map cparam_pair (p :: ps)).
Proof.
  induction ps as [|p' ps IH]; intros p acc Hall; inversion Hall as [|? ? Hp Hrest]; subst.
  - cbn [render_params]. rewrite app_nil_r. destruct (param_step p acc Hp) as [H _].
    rewrite H. cbn [rev map]. reflexivity.
  - cbn [render_params]. destruct (param_step p acc Hp) as [_ H]. rewrite H.
    rewrite (IH p' _ Hrest). cbn [rev map]. rewrite <- app_assoc. reflexivity.
Qed.

Lemma span_tokens a rest :
  forallb is_token a = true ->
  (rest = [] \/ exists c r, rest = c :: r /\ is_token c = false) ->
  span is_token (a ++ rest) = (a, rest).
Proof.
  induction a as [|c a IH]; intros Ha Hr; cbn [app].
  - destruct Hr as [->|(c & r & -> & Hc)]; cbn [span]; [reflexivity|rewrite Hc; reflexivity].
  - cbn [forallb] in Ha. apply andb_true_iff in Ha as [Hc Ha]. cbn [span].
    rewrite Hc, (IH Ha Hr). reflexivity.
Qed.

Lemma cut_last_plus_none s : forall b,
  forallb (fun c => negb (c =? 43)) s = true -> cut_last_plus b s = None.
Proof.
  induction s as [|c s IH]; intros b H; cbn [cut_last_plus]; [reflexivity|].
  cbn [forallb] in H. apply andb_true_iff in H as [Hc H]. apply negb_true_iff in Hc.
  rewrite (IH false H), Hc. reflexivity.
Qed.

Lemma is_token_lower c : is_token (lower_byte c) = is_token c.
Proof. unfold is_token, lower_byte. destruct ((65 <=? c) && (c <=? 90)) eqn:E; lia. Qed.

Lemma forallb_lower (p : N -> bool) s :
  (forall c, p (lower_byte c) = p c) -> forallb p (str_lower s) = forallb p s.
Proof.
  intros H. unfold str_lower. rewrite forallb_map_eq.
  induction s as [|c s IH]; cbn [forallb]; [reflexivity|]. rewrite H, IH. reflexivity.
Qed.

(* C09 clause 5: the boundary is found for every spelling of a
   multipart/form-data content type built from the media type in any letter
   case and parameters ';' [spaces] name '=' (token | quoted-string [spaces]),
   the boundary being the first parameter whose name is "boundary" in any
   letter case - before or after other parameters, quoted or not *)
Theorem multipart_boundary T S ps b :
  str_lower T = S_MULTIPART -> str_lower S = S_FORM_DATA ->
  Forall cparam_ok ps ->
  assoc S_BOUNDARY (map (fun p => (str_lower (cp_name p), cp_value p)) ps) = Some b ->
  parse_boundary (T ++ 47 :: S ++ render_params ps) = BOk b.
Proof.
  intros HT HS Hps Hb. unfold parse_boundary, mime_parse.
  assert (HTt : forallb is_token T = true).
  { rewrite <- (forallb_lower is_token T is_token_lower), HT. reflexivity. }
  assert (HSt : forallb is_token S = true).
  { rewrite <- (forallb_lower is_token S is_token_lower), HS. reflexivity. }
  assert (HSp : forallb (fun c => negb (c =? 43)) S = true).
  { rewrite <- (forallb_lower (fun c => negb (c =? 43)) S), HS; [reflexivity|].
    intros c. rewrite (lower_byte_eqb_stable c 43) by lia. reflexivity. }
  rewrite (span_tokens T (47 :: S ++ render_params ps) HTt)
    by (right; eexists _, _; split; reflexivity).
  assert (HTn : is_nil T = false).
  { destruct T; [discriminate HT|reflexivity]. }
  rewrite HTn.
  destruct ps as [|p ps]; [discriminate Hb|].
  cbn [render_params].
  rewrite (span_tokens S (59 :: render_param p ++ render_params ps) HSt)
    by (right; eexists _, _; split; reflexivity).
  assert (HSn : is_nil S = false).
  { destruct S; [discriminate HS|reflexivity]. }
  rewrite HSn, (params_run_render ps p [] Hps). cbn [rev app].
  unfold subtype_of. rewrite (cut_last_plus_none S true HSp), HT, HS.
  rewrite !str_eqb_refl. cbn [andb].
  unfold lower_names. rewrite map_map. unfold cparam_pair. cbn [fst snd].
  rewrite Hb. reflexivity.
Qed.

Theorem multipart_errors_400 h e : extract_multipart h = Err e -> xerr_status e = Some 400.
Proof.
  destruct h as [|v]; cbn [extract_multipart]; [intros [= <-]; reflexivity|].
  destruct (header_is_str v); [|intros [= <-]; reflexivity].
  destruct (parse_boundary _); try discriminate; intros [= <-]; reflexivity.
Qed.

(* ------------------------------------------------------ C09: isolation *)

Section ConcProofs.
  Variables Req Args Resp : Type.
  Variable extract : Req -> res xerr Args.
  Variable handler : Args -> Resp.
  Variable respond_err : xerr -> Resp.

  Notation stage := (stage Req Args Resp).
  Notation advance := (advance Req Args Resp extract handler respond_err).
  Notation step := (step Req Args Resp extract handler respond_err).
  Notation run := (run Req Args Resp extract handler respond_err).
  Notation lookup := (lookup Req Args Resp).
  Notation iter_stage := (iter_stage Req Args Resp extract handler respond_err).
  Notation delivered := (delivered Req Args Resp).
  Notation init := (init Req Args Resp).

  Lemma lookup_step q q' : forall st,
    lookup q (step q' st) = if q' =? q then option_map advance (lookup q st) else lookup q st.
  Proof.
    induction st as [|[k s] rest IH]; cbn [Extract.step Extract.lookup].
    - destruct (q' =? q); reflexivity.
    - destruct (N.eqb_spec k q') as [->|Hk]; cbn [Extract.lookup].
      + destruct (N.eqb_spec q' q) as [->|Hq]; [reflexivity|reflexivity].
      + rewrite IH. destruct (N.eqb_spec k q) as [->|Hkq]; [|reflexivity].
        destruct (N.eqb_spec q' q); [congruence|reflexivity].
  Qed.

  Lemma lookup_run q : forall sched st,
    lookup q (run sched st) = option_map (iter_stage (count q sched)) (lookup q st).
  Proof.
    unfold Extract.run.
    induction sched as [|q' sched IH]; intros st; cbn [fold_left count].
    - destruct (lookup q st); reflexivity.
    - rewrite IH, lookup_step. destruct (q' =? q); [|reflexivity].
      destruct (lookup q st); reflexivity.
  Qed.

  (* the frame property: what happens to request q depends on q's own stage
     and on how often q was scheduled - not on any other request, nor on the
     order in which the others ran *)
  Theorem isolation q sched sched' st st' :
    lookup q st = lookup q st' -> count q sched = count q sched' ->
    lookup q (run sched st) = lookup q (run sched' st').
  Proof. intros H1 H2. rewrite !lookup_run, H1, H2. reflexivity. Qed.

  Lemma iter_done n r g : iter_stage n (SDone Req Args Resp r g) = SDone Req Args Resp r g.
  Proof. induction n as [|n IH]; cbn [Extract.iter_stage Extract.advance]; [reflexivity|exact IH]. Qed.

  Lemma delivered_iter n r a :
    delivered (iter_stage n (SReceived Req Args Resp r)) = Some a -> extract r = Ok a.
  Proof.
    destruct n as [|[|[|n]]]; cbn [Extract.iter_stage Extract.advance Extract.delivered];
      try discriminate.
    - destruct (extract r) as [a'|e]; cbn [Extract.delivered]; [intros [= <-]; reflexivity|discriminate].
    - destruct (extract r) as [a'|e]; cbn [Extract.advance]; rewrite iter_done;
        cbn [Extract.delivered]; [intros [= <-]; reflexivity|discriminate].
  Qed.

  Fixpoint find_req (q : N) (reqs : list (N * Req)) : option Req :=
    match reqs with
    | [] => None
    | (k, r) :: l => if k =? q then Some r else find_req q l
    end.

  Lemma lookup_init q : forall reqs,
    lookup q (init reqs) = option_map (SReceived Req Args Resp) (find_req q reqs).
  Proof.
    induction reqs as [|[k r] reqs IH];
      cbn [Extract.init map fst snd Extract.lookup find_req]; [reflexivity|].
    destruct (k =? q); [reflexivity|exact IH].
  Qed.

  Lemma find_req_In q : forall reqs r, find_req q reqs = Some r -> In (q, r) reqs.
  Proof.
    induction reqs as [|[k r0] reqs IH]; intros r; cbn [find_req]; [discriminate|].
    destruct (N.eqb_spec k q) as [->|Hne].
    - intros [= ->]. left; reflexivity.
    - intros H. right. apply IH, H.
  Qed.

  (* C09 clause 6: in ANY interleaving, what the handler of request q has
     received is the extraction of q's own request *)
  Theorem handler_sees_own_request q sched reqs s a :
    lookup q (run sched (init reqs)) = Some s -> delivered s = Some a ->
    exists r, In (q, r) reqs /\ extract r = Ok a.
  Proof.
    rewrite lookup_run, lookup_init.
    destruct (find_req q reqs) as [r|] eqn:E; cbn [option_map]; [|discriminate].
    intros [= <-] Hd. exists r. split; [apply find_req_In, E|].
    eapply delivered_iter, Hd.
  Qed.
End ConcProofs.

(* the request context shows the request's own method, URI, headers and peer *)
Theorem request_info_own r :
  ri_method (request_info_of r) = rq_method r /\ ri_uri (request_info_of r) = rq_target r /\
  ri_headers (request_info_of r) = rq_headers r /\ ri_peer (request_info_of r) = rq_peer r.
Proof. repeat split. Qed.

(* ============================================================== C10 ===== *)

(* every extraction error other than a panic is a 400 *)
Lemma xerr_status_400 e : (forall p, e <> XPanic p) -> xerr_status e = Some 400.
Proof. destruct e; intros H; try reflexivity. exfalso. eapply H. reflexivity. Qed.

(* the assert! of http_extract_path_params cannot fire: no message the
   deserialiser produces begins with "missing field: " (serde's text for a
   missing field is "missing field `name`") *)
Lemma assert_never_fires e : starts_with MISSING_FIELD_COLON (merr_message_head e) = false.
Proof. destruct e; vm_compute; reflexivity. Qed.

Section StructDeErrors.
  Variable raw : Type.
  Variable deser : fkind -> raw -> res merr fval.
  Variable ignore : raw -> res merr unit.

  (* where an error of the derived deserialiser comes from *)
  Inductive err_origin (sp : spec) (e : merr) : Prop :=
  | eo_dup k : e = MDuplicate k -> err_origin sp e
  | eo_missing k : e = MMissing k -> err_origin sp e
  | eo_deser k kind r : In (k, kind) sp -> deser kind r = Err e -> err_origin sp e
  | eo_ignore r : ignore r = Err e -> err_origin sp e.

  Lemma visit_map_err sp : forall entries filled e,
    visit_map raw deser ignore sp entries filled = Err e -> err_origin sp e.
  Proof.
    induction entries as [|[k r] rest IH]; intros filled e; cbn [visit_map]; [discriminate|].
    destruct (assoc k sp) as [kind|] eqn:Hsp.
    - destruct (has_key k filled); [intros [= <-]; eapply eo_dup; reflexivity|].
      destruct (deser kind r) as [v|e0] eqn:Hd; cbn [bind].
      + apply IH.
      + intros [= <-]. eapply eo_deser; [apply assoc_In, Hsp|exact Hd].
    - destruct (ignore r) as [u|e0] eqn:Hi; cbn [bind].
      + apply IH.
      + intros [= <-]. eapply eo_ignore, Hi.
  Qed.

  Lemma finish_err : forall sp filled e,
    finish sp filled = Err e -> exists k, e = MMissing k.
  Proof.
    induction sp as [|[name kind] sp IH]; intros filled e; cbn [finish]; [discriminate|].
    destruct (assoc name filled) as [v|]; cbn [bind].
    - destruct (finish sp filled) as [vs|e0] eqn:Hf; cbn [bind]; [discriminate|].
      intros [= <-]. eapply IH, Hf.
    - destruct (missing name kind) as [v|e0] eqn:Hm; cbn [bind].
      + destruct (finish sp filled) as [vs|e1] eqn:Hf; cbn [bind]; [discriminate|].
        intros [= <-]. eapply IH, Hf.
      + intros [= <-]. unfold missing in Hm.
        destruct kind as [t [| |d]|t|]; try discriminate; injection Hm as <-; eauto.
  Qed.

  Lemma struct_de_err sp entries e :
    struct_de raw deser ignore sp entries = Err e -> err_origin sp e.
  Proof.
    unfold struct_de. destruct (visit_map raw deser ignore sp entries []) as [filled|e0] eqn:Hv;
      cbn [bind].
    - intros H. destruct (finish_err sp filled e H) as [k ->]. eapply eo_missing. reflexivity.
    - intros [= <-]. eapply visit_map_err, Hv.
  Qed.

  (* --- each malformation is refused --- *)

  Lemma refused_bad_value sp entries k r kind :
    wf_spec sp = true -> In (k, r) entries -> assoc k sp = Some kind ->
    is_ok (deser kind r) = false ->
    exists e, struct_de raw deser ignore sp entries = Err e.
  Proof.
    intros Hwf Hin Hsp Hbad.
    destruct (struct_de_char raw deser ignore sp entries Hwf) as [_ H]. apply H.
    destruct (entries_okb raw deser ignore sp [] entries) eqn:E; [|reflexivity].
    rewrite (entries_okb_each raw deser ignore sp entries [] k r kind E Hin Hsp) in Hbad.
    discriminate.
  Qed.

  Lemma refused_duplicate sp pre k r post :
    wf_spec sp = true -> assoc k sp <> None -> mem_str k (map fst post) = true ->
    exists e, struct_de raw deser ignore sp (pre ++ (k, r) :: post) = Err e.
  Proof.
    intros Hwf Hsp Hdup.
    destruct (struct_de_char raw deser ignore sp (pre ++ (k, r) :: post) Hwf) as [_ H]. apply H.
    destruct (entries_okb raw deser ignore sp [] (pre ++ (k, r) :: post)) eqn:E; [|reflexivity].
    rewrite (entries_okb_known_once raw deser ignore sp _ [] k r E Hsp pre post eq_refl) in Hdup.
    discriminate.
  Qed.

  Lemma refused_missing sp entries k kind :
    wf_spec sp = true -> In (k, kind) sp -> assoc k entries = None ->
    is_ok (missing k kind) = false ->
    exists e, struct_de raw deser ignore sp entries = Err e.
  Proof.
    intros Hwf Hin Habs Hreq.
    destruct (struct_de raw deser ignore sp entries) as [vals|e] eqn:E; [|eauto].
    exfalso. destruct (struct_de_ok_inv raw deser ignore sp entries vals Hwf E) as [_ Hs].
    apply struct_spec_ok_iff in Hs.
    destruct (Forall2_In_l _ _ _ _ Hs Hin) as [v Hv].
    unfold field_spec in Hv. cbn [fst snd] in Hv. rewrite Habs in Hv. rewrite Hv in Hreq.
    discriminate.
  Qed.
End StructDeErrors.

(* --- query strings (and, through the same deserialiser, url-encoded bodies) --- *)

Theorem query_errors_400 sp q e : extract_query sp q = Err e -> xerr_status e = Some 400.
Proof.
  unfold extract_query. destruct (urlenc_struct sp _); [discriminate|]. intros [= <-]. reflexivity.
Qed.

Lemma extract_query_err_of sp q :
  (exists m, urlenc_struct sp (form_parse q) = Err m) ->
  exists e, extract_query sp (Some q) = Err e /\ xerr_status e = Some 400.
Proof.
  intros [m Hm]. unfold extract_query. rewrite Hm. eexists. split; reflexivity.
Qed.

Lemma urlenc_field_bad t p s :
  parse_scalar t s = None -> is_ok (urlenc_field (KScalar t p) s) = false.
Proof.
  intros H. unfold urlenc_field, urlenc_scalar.
  destruct (is_128 t); [destruct p; reflexivity|]. rewrite H.
  destruct p, t; reflexivity.
Qed.

(* wrong type / unparsable scalar / out-of-range number / unknown variant:
   whatever text the scalar parser refuses, in any position *)
Theorem query_bad_scalar_refused sp q k s t p :
  wf_spec sp = true -> In (k, s) (form_parse q) -> assoc k sp = Some (KScalar t p) ->
  parse_scalar t s = None ->
  exists e, extract_query sp (Some q) = Err e /\ xerr_status e = Some 400.
Proof.
  intros Hwf Hin Hsp Hbad. apply extract_query_err_of.
  eapply refused_bad_value; [exact Hwf|exact Hin|exact Hsp|apply urlenc_field_bad, Hbad].
Qed.

Theorem query_missing_required_refused sp q k t :
  wf_spec sp = true -> In (k, KScalar t PReq) sp -> assoc k (form_parse q) = None ->
  exists e, extract_query sp (Some q) = Err e /\ xerr_status e = Some 400.
Proof.
  intros Hwf Hin Habs. apply extract_query_err_of.
  eapply refused_missing; [exact Hwf|exact Hin|exact Habs|reflexivity].
Qed.

Theorem query_duplicate_refused sp q pre k s post :
  wf_spec sp = true -> form_parse q = pre ++ (k, s) :: post ->
  assoc k sp <> None -> mem_str k (map fst post) = true ->
  exists e, extract_query sp (Some q) = Err e /\ xerr_status e = Some 400.
Proof.
  intros Hwf Hq Hsp Hdup. apply extract_query_err_of. rewrite Hq.
  eapply refused_duplicate; assumption.
Qed.

(* soundness: when the query extractor succeeds, every field was obtained
   from the text the client sent under that name (or by the missing-field
   rule), and is a value of the declared type *)
Theorem extract_query_sound sp q vals :
  wf_spec sp = true -> extract_query sp (Some q) = Ok vals ->
  Forall2 (fun f v =>
             match assoc (fst f) (form_parse q) with
             | Some s => urlenc_field (snd f) s = Ok v
             | None => missing (fst f) (snd f) = Ok v
             end) sp vals.
Proof.
  intros Hwf H. unfold extract_query in H.
  destruct (urlenc_struct sp (form_parse q)) as [v|e] eqn:E; [|discriminate].
  injection H as ->.
  destruct (struct_de_ok_inv _ _ _ _ _ _ Hwf E) as [_ Hs].
  apply struct_spec_ok_iff in Hs. eapply Forall2_impl_In; [|exact Hs].
  intros f v _ Hf. unfold field_spec in Hf. destruct (assoc (fst f) (form_parse q)); exact Hf.
Qed.

Lemma urlenc_field_typed t p s v :
  urlenc_field (KScalar t p) s = Ok v ->
  exists x, parse_scalar t s = Some x /\ sval_ok t x = true /\
            (v = FvOne x \/ v = FvOpt (Some x)).
Proof.
  unfold urlenc_field, urlenc_scalar. destruct (is_128 t); [destruct p; discriminate|].
  destruct (parse_scalar t s) as [x|] eqn:E.
  - intros H. exists x. split; [reflexivity|]. split; [eapply parse_scalar_sound, E|].
    destruct p, t; cbn [bind] in H; injection H as <-; auto.
  - destruct p, t; discriminate.
Qed.

(* --- path variables --- *)

Definition no_stub (sp : spec) : bool :=
  forallb (fun f => match snd f with KStub => false | _ => true end) sp.

Lemma from_map_field_not_stub kind v :
  kind <> KStub -> from_map_field kind v <> Err MStub.
Proof.
  intros Hk. unfold from_map_field, from_map_scalar.
  destruct kind as [t p|t|]; [| |congruence].
  - destruct v as [s|l]; cbn [as_value bind].
    + destruct p, t; destruct (parse_scalar _ s); cbn [bind]; discriminate.
    + destruct p; discriminate.
  - destruct v as [s|l]; cbn [as_seq bind]; [discriminate|].
    destruct (from_map_elems t l) as [xs|e] eqn:E; cbn [bind]; [discriminate|].
    destruct (from_map_elems_err _ _ _ E) as [->| ->]; discriminate.
Qed.

Lemma from_map_not_stub sp vars : no_stub sp = true -> from_map sp vars <> Err MStub.
Proof.
  intros Hns H. unfold from_map in H. apply struct_de_err in H.
  destruct H as [k Hk|k Hk|k kind r Hin Hd|r Hi]; try discriminate.
  - unfold no_stub in Hns. rewrite forallb_forall in Hns. specialize (Hns _ Hin). cbn [snd] in Hns.
    eapply (from_map_field_not_stub kind r); [intros ->; discriminate|exact Hd].
  - unfold from_map_ignore in Hi. destruct r; cbn [as_value bind] in Hi; discriminate.
Qed.

Lemma bind_var_err w e : bind_var w = Err e -> e = XBadSegment.
Proof.
  destruct w as [r|rs]; cbn [bind_var].
  - unfold decode_segment. destruct (is_nil r); [intros [= <-]; reflexivity|].
    destruct (negb _); [intros [= <-]; reflexivity|].
    destruct (_ || _); cbn [bind]; [intros [= <-]; reflexivity|discriminate].
  - assert (H : forall l e, decode_segments l = Err e -> e = XBadSegment).
    { induction l as [|r l IH]; intros e0; cbn [decode_segments]; [discriminate|].
      unfold decode_segment. destruct (is_nil r); [intros [= <-]; reflexivity|].
      destruct (negb _); [intros [= <-]; reflexivity|].
      destruct (_ || _); cbn [bind]; [intros [= <-]; reflexivity|].
      destruct (decode_segments l) as [ss|e1] eqn:E; cbn [bind]; [discriminate|].
      intros [= <-]. eapply IH. reflexivity. }
    destruct (decode_segments rs) as [ss|e1] eqn:E; cbn [bind]; [discriminate|].
    intros [= <-]. eapply H, E.
Qed.

Lemma bind_vars_err : forall ws e, bind_vars ws = Err e -> e = XBadSegment.
Proof.
  induction ws as [|[x w] ws IH]; intros e; cbn [bind_vars]; [discriminate|].
  destruct (bind_var w) as [v|e0] eqn:E; cbn [bind].
  - destruct (bind_vars ws) as [vs|e1] eqn:E1; cbn [bind]; [discriminate|].
    intros [= <-]. eapply IH. reflexivity.
  - intros [= <-]. eapply bind_var_err, E.
Qed.

(* C10 clauses 1 and 3 for the path extractor: for a struct without stub
   fields (what registration's scalar / string-array check guarantees) every
   failure is a 400 - neither the assert! nor an unimplemented! stub is
   reachable *)
Theorem path_errors_400 sp ws e :
  no_stub sp = true -> extract_path sp ws = Err e -> xerr_status e = Some 400.
Proof.
  intros Hns. unfold extract_path.
  destruct (bind_vars ws) as [vars|e0] eqn:Hb; cbn [bind].
  2:{ intros [= <-]. rewrite (bind_vars_err _ _ Hb). reflexivity. }
  unfold http_extract_path_params.
  pose proof (from_map_not_stub sp (to_btree vars) Hns) as Hstub.
  destruct (from_map sp (to_btree vars)) as [v|m]; [discriminate|].
  rewrite assert_never_fires.
  destruct m; try (intros [= <-]; reflexivity). congruence.
Qed.

Corollary path_never_panics sp ws p :
  no_stub sp = true -> extract_path sp ws <> Err (XPanic p).
Proof. intros Hns H. apply (path_errors_400 _ _ _ Hns) in H. discriminate. Qed.

(* the stubs ARE reachable for a struct registration must not accept *)
Example stub_reachable :
  extract_path [([118], KStub)] [([118], WOne [120])] = Err (XPanic PUnimplementedStub).
Proof. reflexivity. Qed.

Lemma bind_vars_members : forall ws vars,
  bind_vars ws = Ok vars ->
  map fst vars = map fst ws /\
  forall x w, In (x, w) ws -> exists vv, bind_var w = Ok vv /\ In (x, vv) vars.
Proof.
  induction ws as [|[x0 w0] ws IH]; intros vars; cbn [bind_vars].
  - intros [= <-]. split; [reflexivity|intros x w []].
  - destruct (bind_var w0) as [v0|e] eqn:E0; cbn [bind]; [|discriminate].
    destruct (bind_vars ws) as [vs|e] eqn:E1; cbn [bind]; [|discriminate].
    intros [= <-]. destruct (IH vs eq_refl) as [Hk Hm]. split.
    + cbn [map fst]. f_equal. exact Hk.
    + intros x w [[= -> ->]|Hin].
      * exists v0. split; [exact E0|left; reflexivity].
      * destruct (Hm x w Hin) as (vv & Hv & Hi). exists vv. split; [exact Hv|right; exact Hi].
Qed.

Lemma from_map_field_bad t p s :
  parse_scalar t s = None -> is_ok (from_map_field (KScalar t p) (VOne s)) = false.
Proof.
  intros H. unfold from_map_field, from_map_scalar. cbn [as_value bind]. rewrite H.
  destruct p, t; reflexivity.
Qed.

(* wrong type / out-of-range / unknown variant in a path position *)
Theorem path_bad_scalar_refused sp ws x e s t p :
  wf_spec sp = true -> no_stub sp = true -> names_distinct (map fst ws) = true ->
  In (x, WOne e) ws -> decode_segment e = Ok s ->
  assoc x sp = Some (KScalar t p) -> parse_scalar t s = None ->
  exists err, extract_path sp ws = Err err /\ xerr_status err = Some 400.
Proof.
  intros Hwf Hns Hd Hin Hdec Hsp Hbad.
  destruct (extract_path sp ws) as [vals|err] eqn:E.
  2:{ exists err. split; [reflexivity|]. eapply path_errors_400; eassumption. }
  exfalso. unfold extract_path in E.
  destruct (bind_vars ws) as [vars|e0] eqn:Hb; cbn [bind] in E; [|discriminate].
  destruct (bind_vars_members _ _ Hb) as [Hk Hm].
  destruct (Hm _ _ Hin) as (vv & Hvv & Hiv). cbn [bind_var] in Hvv. rewrite Hdec in Hvv.
  cbn [bind] in Hvv. injection Hvv as <-.
  assert (Hdv : names_distinct (map fst vars) = true) by (rewrite Hk; exact Hd).
  destruct (to_btree_spec vars Hdv) as [Hdb Hab].
  assert (Hie : In (x, VOne s) (to_btree vars)).
  { apply assoc_In. rewrite Hab. apply assoc_distinct; assumption. }
  destruct (refused_bad_value varval from_map_field from_map_ignore sp (to_btree vars)
              x (VOne s) _ Hwf Hie Hsp (from_map_field_bad _ _ _ Hbad)) as [m Hm'].
  unfold http_extract_path_params, from_map in E. rewrite Hm' in E.
  destruct m; discriminate.
Qed.

(* --- the handler is not entered on an extraction error --- *)

Theorem no_handler_on_extract_error {A} (x : res xerr A) e :
  x = Err e -> handle x = Responded (xerr_status e) /\ entered (handle x) = false.
Proof. intros ->. split; reflexivity. Qed.

Theorem handler_entered_iff {A} (x : res xerr A) a :
  handle x = HandlerEntered a <-> x = Ok a.
Proof. destruct x; cbn [handle]; split; intros H; try discriminate; injection H as ->; reflexivity. Qed.

(* with several extractors the handler is entered only if ALL succeed *)
Theorem extract3_ok_iff {A B C} (a : res xerr A) (b : res xerr B) (c : res xerr C) x y z :
  extract3 a b c = Ok (x, y, z) <-> a = Ok x /\ b = Ok y /\ c = Ok z.
Proof.
  unfold extract3. destruct a, b, c; cbn [bind]; split;
    try discriminate; try (intros (H1 & H2 & H3); discriminate).
  - intros [= -> -> ->]. auto.
  - intros ([= ->] & [= ->] & [= ->]). reflexivity.
Qed.

Theorem extract3_errors_400 {A B C} (a : res xerr A) (b : res xerr B) (c : res xerr C) e :
  (forall e, a = Err e -> xerr_status e = Some 400) ->
  (forall e, b = Err e -> xerr_status e = Some 400) ->
  (forall e, c = Err e -> xerr_status e = Some 400) ->
  extract3 a b c = Err e -> xerr_status e = Some 400.
Proof.
  intros Ha Hb Hc. unfold extract3.
  destruct a; cbn [bind]; [|intros [= <-]; apply Ha; reflexivity].
  destruct b; cbn [bind]; [|intros [= <-]; apply Hb; reflexivity].
  destruct c; cbn [bind]; [discriminate|intros [= <-]; apply Hc; reflexivity].
Qed.

Theorem untyped_body_errors_400 cap frames e :
  extract_untyped_body cap frames = Err e -> xerr_status e = Some 400.
Proof.
  unfold extract_untyped_body. rewrite buffer_body_spec.
  destruct (_ <=? _); [discriminate|]. intros [= <-]. reflexivity.
Qed.

(* ---- C09, the open class K-Q128, as a fact about the model ---- *)

(* K-Q128: a u128 / i128 field of a query (or url-encoded body) is refused
   whatever text is sent for it *)
Theorem query_128_always_refused sp q k s t p :
  wf_spec sp = true -> In (k, s) (form_parse q) -> assoc k sp = Some (KScalar t p) ->
  is_128 t = true ->
  exists e, extract_query sp (Some q) = Err e.
Proof.
  intros Hwf Hin Hsp H8.
  destruct (extract_query_err_of sp q) as (e & He & _); [|eauto].
  eapply refused_bad_value; [exact Hwf|exact Hin|exact Hsp|].
  unfold urlenc_field, urlenc_scalar. rewrite H8. destruct p; reflexivity.
Qed.

(* the query clause without the 128-bit exclusion *)
Definition q_typed_any (kind : fkind) (v : fval) : Prop :=
  match kind, v with
  | KScalar t POpt, FvOpt None => True
  | KScalar t POpt, FvOpt (Some x) => sval_ok t x = true
  | KScalar t PReq, FvOne x => sval_ok t x = true
  | KScalar t (PDef _), FvOne x => sval_ok t x = true
  | _, _ => False
  end.

Definition extract_query_client_full_statement : Prop :=
  forall sp vals,
    wf_spec sp = true -> Forall2 (fun f v => q_typed_any (snd f) v) sp vals ->
    Forall kv_valid (client_fields sp vals) ->
    extract_query sp (Some (form_encode (client_fields sp vals))) = Ok vals.

Theorem extract_query_client_refuted : ~ extract_query_client_full_statement.
Proof.
  intros H.
  specialize (H [([118], KScalar (TInt false 128) PReq)] [FvOne (VInt 5)] eq_refl).
  assert (E : extract_query [([118], KScalar (TInt false 128) PReq)]
                (Some (form_encode (client_fields [([118], KScalar (TInt false 128) PReq)]
                                                  [FvOne (VInt 5)])))
              = Err (XBadQuery MUnsupported128)) by (vm_compute; reflexivity).
  rewrite H in E; [discriminate| |].
  - constructor; [reflexivity|constructor].
  - constructor; [split; reflexivity|constructor].
Qed.

(* ---- registration rules out the missing-field error for path structs ---- *)

Lemma finish_err_field : forall sp filled e,
  finish sp filled = Err e ->
  exists name kind, In (name, kind) sp /\ assoc name filled = None /\ e = MMissing name.
Proof.
  induction sp as [|[name kind] sp IH]; intros filled e; cbn [finish]; [discriminate|].
  destruct (assoc name filled) as [v|] eqn:Ha; cbn [bind].
  - destruct (finish sp filled) as [vs|e0] eqn:Hf; cbn [bind]; [discriminate|].
    intros [= <-]. destruct (IH _ _ Hf) as (n & k & Hin & Hn & He).
    exists n, k. split; [right; exact Hin|split; assumption].
  - destruct (missing name kind) as [v|e0] eqn:Hm; cbn [bind].
    + destruct (finish sp filled) as [vs|e1] eqn:Hf; cbn [bind]; [discriminate|].
      intros [= <-]. destruct (IH _ _ Hf) as (n & k & Hin & Hn & He).
      exists n, k. split; [right; exact Hin|split; assumption].
    + intros [= <-]. exists name, kind. split; [left; reflexivity|]. split; [exact Ha|].
      unfold missing in Hm. destruct kind as [t [| |d]|t|]; try discriminate; injection Hm as <-; reflexivity.
Qed.

Lemma from_map_field_not_missing kind v k : from_map_field kind v <> Err (MMissing k).
Proof.
  unfold from_map_field, from_map_scalar. destruct kind as [t p|t|].
  - destruct v as [s|l]; cbn [as_value bind].
    + destruct p, t; destruct (parse_scalar _ s); cbn [bind]; discriminate.
    + destruct p; discriminate.
  - destruct v as [s|l]; cbn [as_seq bind]; [discriminate|].
    destruct (from_map_elems t l) as [xs|e] eqn:E; cbn [bind]; [discriminate|].
    destruct (from_map_elems_err _ _ _ E) as [->| ->]; discriminate.
  - discriminate.
Qed.

Lemma visit_map_not_missing raw deser ignore sp :
  (forall kind r k, deser kind r <> Err (MMissing k)) ->
  (forall r k, ignore r <> Err (MMissing k)) ->
  forall entries filled k,
    visit_map raw deser ignore sp entries filled = Err (MMissing k) -> False.
Proof.
  intros Hd Hi. induction entries as [|[k0 r0] rest IH]; intros filled k; cbn [visit_map];
    [discriminate|].
  destruct (assoc k0 sp) as [kind|].
  - destruct (has_key k0 filled); [discriminate|].
    destruct (deser kind r0) as [v|e] eqn:E; cbn [bind]; [apply IH|].
    intros [= ->]. exact (Hd _ _ _ E).
  - destruct (ignore r0) as [u|e] eqn:E; cbn [bind]; [apply IH|].
    intros [= ->]. exact (Hi _ _ E).
Qed.

(* when every field of the struct is a variable of the template (what
   ApiDescription::register checks), "missing field" cannot happen: the
   condition the assert! of http_extract_path_params was written for is
   unreachable *)
Theorem path_registered_no_missing sp ws k :
  wf_spec sp = true -> names_distinct (map fst ws) = true ->
  (forall name kind, In (name, kind) sp -> has_key name ws = true) ->
  extract_path sp ws <> Err (XBadPath (MMissing k)).
Proof.
  intros Hwf Hd Hreg H. unfold extract_path in H.
  destruct (bind_vars ws) as [vars|e0] eqn:Hb; cbn [bind] in H.
  2:{ rewrite (bind_vars_err _ _ Hb) in H. discriminate. }
  destruct (bind_vars_members _ _ Hb) as [Hk Hm].
  assert (Hdv : names_distinct (map fst vars) = true) by (rewrite Hk; exact Hd).
  destruct (to_btree_spec vars Hdv) as [Hdb Hab].
  unfold http_extract_path_params in H.
  destruct (from_map sp (to_btree vars)) as [v|m] eqn:Hfm; [discriminate|].
  assert (Hm' : m = MMissing k).
  { destruct m; try discriminate; rewrite ?assert_never_fires in H; congruence. }
  subst m. unfold from_map, struct_de in Hfm.
  destruct (visit_map varval from_map_field from_map_ignore sp (to_btree vars) []) as [filled|e1] eqn:Hv;
    cbn [bind] in Hfm.
  - destruct (finish_err_field _ _ _ Hfm) as (name & kind & Hin & Hnone & He).
    injection He as <-.
    pose proof (visit_map_content _ _ _ _ _ _ _ Hv k) as Hc. cbn [assoc] in Hc.
    rewrite Hnone, (assoc_distinct _ _ _ Hwf Hin) in Hc.
    pose proof (Hreg _ _ Hin) as Hhas. rewrite has_key_mem, <- Hk, <- has_key_mem in Hhas.
    unfold has_key in Hhas. rewrite <- Hab in Hhas.
    destruct (assoc k (to_btree vars)) as [r|] eqn:Hr; [|discriminate].
    pose proof (visit_map_is_ok varval from_map_field from_map_ignore sp (to_btree vars) []) as Hok.
    rewrite Hv in Hok. cbn [is_ok map] in Hok. symmetry in Hok.
    destruct (entries_okb_assoc _ _ _ _ _ _ _ _ _ Hok (assoc_distinct _ _ _ Hwf Hin) Hr) as [v Hv'].
    unfold de_opt in Hc. rewrite Hv' in Hc. discriminate.
  - injection Hfm as ->.
    eapply (visit_map_not_missing varval from_map_field from_map_ignore sp); [| |exact Hv].
    + intros kind r k0. apply from_map_field_not_missing.
    + intros r k0 Hi. unfold from_map_ignore in Hi. destruct r; cbn [as_value bind] in Hi; discriminate.
Qed.

Lemma unknown_variant_unparsable vs s : mem_str s vs = false -> parse_scalar (TEnum vs) s = None.
Proof. intros H. cbn [parse_scalar]. rewrite H. reflexivity. Qed.

Lemma out_of_range_unparsable sg bits z :
  int_in_range sg bits z = false -> parse_scalar (TInt sg bits) (print_int z) = None.
Proof. intros H. cbn [parse_scalar]. rewrite (parse_int_refuses_out_of_range _ _ _ H). reflexivity. Qed.


(* ---------- C09 clause 5 with optional white space (RFC 9110 5.6.6:
   parameters = *( OWS ";" OWS [ parameter ] )): body.rs trims the ';'-separated
   parts before the media-type parser sees them ---------- *)

Definition blank (c : N) : bool := (c =? 32) || (c =? 9).

Lemma blank_ws c : blank c = true -> is_ascii_ws c = true.
Proof. unfold blank, is_ascii_ws. lia. Qed.

Lemma trim_start_blanks pad x c :
  forallb blank pad = true -> is_ascii_ws c = false -> trim_start (pad ++ c :: x) = c :: x.
Proof.
  intros Hp Hc. induction pad as [|b pad IH]; cbn [app trim_start].
  - rewrite Hc. reflexivity.
  - cbn [forallb] in Hp. apply andb_true_iff in Hp as [Hb Hp]. rewrite (blank_ws _ Hb). apply IH, Hp.
Qed.

Lemma trim_end_last a c pad :
  is_ascii_ws c = false -> forallb blank pad = true -> trim_end (a ++ c :: pad) = a ++ [c].
Proof.
  intros Hc Hp.
  assert (Hpad : trim_end pad = []).
  { apply trim_end_ws. rewrite forallb_forall in *. intros x Hx. apply blank_ws, Hp, Hx. }
  induction a as [|x a IH]; cbn [app trim_end].
  - rewrite Hpad, Hc. reflexivity.
  - rewrite IH. destruct (a ++ [c]) eqn:E; [destruct a; discriminate|reflexivity].
Qed.

(* a piece [pad1 ++ core ++ pad2] trims to [core] when the core starts and ends
   with a non-blank *)
Lemma trim_piece pad1 pad2 c x l :
  forallb blank pad1 = true -> forallb blank pad2 = true ->
  is_ascii_ws c = false -> is_ascii_ws l = false ->
  trim (pad1 ++ (c :: x ++ [l]) ++ pad2) = c :: x ++ [l].
Proof.
  intros H1 H2 Hc Hl. unfold trim.
  replace (pad1 ++ (c :: x ++ [l]) ++ pad2) with (pad1 ++ c :: (x ++ l :: pad2))
    by (cbn [app]; rewrite <- app_assoc; reflexivity).
  rewrite (trim_start_blanks _ _ _ H1 Hc).
  replace (c :: x ++ l :: pad2) with ((c :: x) ++ l :: pad2) by reflexivity.
  rewrite (trim_end_last _ _ _ Hl H2). reflexivity.
Qed.

Lemma split_all_concat sep a xs :
  ~ In sep a -> Forall (fun x => ~ In sep x) xs ->
  split_all sep (a ++ concat (map (fun x => sep :: x) xs)) = a :: xs.
Proof.
  intros Ha Hxs. revert a Ha. induction Hxs as [|x xs Hx _ IH]; intros a Ha; cbn [map concat].
  - rewrite app_nil_r. apply split_all_none, Ha.
  - cbn [app]. rewrite (split_all_app _ _ _ Ha). f_equal.
    change (x ++ concat (map (fun x0 => sep :: x0) xs)) with (x ++ concat (map (fun x0 => sep :: x0) xs)).
    apply IH, Hx.
Qed.

Lemma join_semi_cons a cores :
  join_semi (a :: cores) = a ++ concat (map (fun c => 59 :: 32 :: c) cores).
Proof.
  revert a. induction cores as [|c cores IH]; intros a.
  - cbn [join_semi map concat]. rewrite app_nil_r. reflexivity.
  - change (join_semi (a :: c :: cores)) with (a ++ 59 :: 32 :: join_semi (c :: cores)).
    rewrite IH. cbn [map concat app]. reflexivity.
Qed.

(* the text of a parameter: name '=' token | name '=' '"' value '"' *)
Definition core_of (p : cparam) : str :=
  cp_name p ++ 61 :: (if cp_quoted p then 34 :: cp_value p ++ [34] else cp_value p).

(* a parameter as it may stand in the header: ';' blanks core blanks (the
   blanks after the core are what precedes the next ';' or ends the header) *)
Definition oparam := (str * cparam * str)%type.
Definition render_oparam (o : oparam) : str :=
  let '(post, p, trail) := o in post ++ core_of p ++ trail.
Definition render_ows (os : list oparam) : str :=
  concat (map (fun o => 59 :: render_oparam o) os).

Definition oparam_ok (o : oparam) : Prop :=
  let '(post, p, trail) := o in
  forallb blank post = true /\ forallb blank trail = true /\ cparam_ok p /\
  forallb (fun c => negb (c =? 59)) (cp_value p) = true.

Definition canon (p : cparam) : cparam :=
  {| cp_spaces := 1; cp_name := cp_name p; cp_value := cp_value p;
     cp_quoted := cp_quoted p; cp_trail := 0 |}.

Lemma render_canon p : render_param (canon p) = 32 :: core_of p.
Proof. unfold render_param, canon, core_of. cbn. destruct (cp_quoted p); reflexivity. Qed.

Lemma token_not_ws c : is_token c = true -> is_ascii_ws c = false.
Proof. unfold is_token, is_ascii_ws. lia. Qed.
Lemma token_not_semi c : is_token c = true -> (c =? 59) = false.
Proof. unfold is_token. lia. Qed.
Lemma blank_not_semi c : blank c = true -> (c =? 59) = false.
Proof. unfold blank. lia. Qed.

Lemma forallb_not_in (p : N -> bool) k s :
  forallb p s = true -> (forall c, p c = true -> (c =? k) = false) -> ~ In k s.
Proof.
  intros H Hp Hin. rewrite forallb_forall in H. specialize (Hp k (H k Hin)).
  rewrite N.eqb_refl in Hp. discriminate.
Qed.

(* the shape of a well-formed core: starts and ends with a non-blank, holds no ';' *)
Lemma core_shape p :
  cparam_ok p -> forallb (fun c => negb (c =? 59)) (cp_value p) = true ->
  (exists c x l, core_of p = c :: x ++ [l] /\ is_ascii_ws c = false /\ is_ascii_ws l = false)
  /\ ~ In 59 (core_of p).
Proof.
  intros (Hn1 & Hn2 & Hv1 & Hv2) Hv59. unfold core_of.
  destruct (cp_name p) as [|c name] eqn:En; [congruence|].
  cbn [forallb] in Hn2. apply andb_true_iff in Hn2 as [Hc Hname].
  assert (Hno_name : ~ In 59 (c :: name)).
  { apply (forallb_not_in is_token); [cbn [forallb]; rewrite Hc, Hname; reflexivity|apply token_not_semi]. }
  assert (Hno_val : ~ In 59 (cp_value p)).
  { apply (forallb_not_in (fun c => negb (c =? 59))); [exact Hv59|].
    intros x Hx. apply negb_true_iff in Hx. exact Hx. }
  destruct (cp_quoted p).
  - split.
    + exists c, (name ++ 61 :: 34 :: cp_value p), 34.
      split; [|split; [apply token_not_ws, Hc|reflexivity]].
      cbn [app]. f_equal. rewrite <- app_assoc. reflexivity.
    + intros Hin. cbn [app In] in Hin. destruct Hin as [Hin|Hin]; [apply Hno_name; left; exact Hin|].
      apply in_app_or in Hin as [Hin|Hin]; [apply Hno_name; right; exact Hin|].
      cbn [In] in Hin. destruct Hin as [Hin|[Hin|Hin]]; try lia.
      apply in_app_or in Hin as [Hin|Hin]; [tauto|]. cbn [In] in Hin. destruct Hin as [Hin|[]]. lia.
  - destruct (exists_last Hv1) as (v' & l & Ev). rewrite Ev in *.
    rewrite forallb_app in Hv2. apply andb_true_iff in Hv2 as [_ Hl]. cbn [forallb] in Hl.
    apply andb_true_iff in Hl as [Hl _].
    split.
    + exists c, (name ++ 61 :: v'), l.
      split; [|split; [apply token_not_ws, Hc|apply token_not_ws, Hl]].
      cbn [app]. f_equal. rewrite <- app_assoc. reflexivity.
    + intros Hin. cbn [app In] in Hin. destruct Hin as [Hin|Hin]; [apply Hno_name; left; exact Hin|].
      apply in_app_or in Hin as [Hin|Hin]; [apply Hno_name; right; exact Hin|].
      cbn [In] in Hin. destruct Hin as [Hin|Hin]; [lia|tauto].
Qed.

Lemma normalize_ct_ows T S h0 os :
  T <> [] -> S <> [] -> forallb is_token T = true -> forallb is_token S = true ->
  forallb blank h0 = true -> Forall oparam_ok os ->
  normalize_ct (T ++ 47 :: S ++ h0 ++ render_ows os)
  = T ++ 47 :: S ++ render_params (map (fun o => canon (snd (fst o))) os).
Proof.
  intros HTn HSn HT HS Hh0 Hos. unfold normalize_ct, render_ows.
  set (head := T ++ 47 :: S).
  replace (T ++ 47 :: S ++ h0 ++ concat (map (fun o => 59 :: render_oparam o) os))
    with ((head ++ h0) ++ concat (map (fun x => 59 :: x) (map render_oparam os))).
  2:{ unfold head. rewrite map_map. rewrite <- !app_assoc. cbn [app]. rewrite <- ?app_assoc. reflexivity. }
  assert (Hhead59 : ~ In 59 (head ++ h0)).
  { unfold head. intros Hin. apply in_app_or in Hin as [Hin|Hin].
    - apply in_app_or in Hin as [Hin|Hin].
      + revert Hin. apply (forallb_not_in is_token); [exact HT|apply token_not_semi].
      + cbn [In] in Hin. destruct Hin as [Hin|Hin]; [lia|].
        revert Hin. apply (forallb_not_in is_token); [exact HS|apply token_not_semi].
    - revert Hin. apply (forallb_not_in blank); [exact Hh0|apply blank_not_semi]. }
  rewrite split_all_concat; [|exact Hhead59|].
  2:{ apply Forall_forall. intros x Hx. apply in_map_iff in Hx as ([[post p] trail] & <- & Hin).
      rewrite Forall_forall in Hos. destruct (Hos _ Hin) as (Hpost & Htrail & Hp & Hv59).
      destruct (core_shape p Hp Hv59) as [_ Hc59]. unfold render_oparam.
      intros Hi. apply in_app_or in Hi as [Hi|Hi].
      - revert Hi. apply (forallb_not_in blank); [exact Hpost|apply blank_not_semi].
      - apply in_app_or in Hi as [Hi|Hi]; [tauto|].
        revert Hi. apply (forallb_not_in blank); [exact Htrail|apply blank_not_semi]. }
  cbn [map].
  (* the head trims to itself *)
  assert (Hth : trim (head ++ h0) = head).
  { destruct T as [|t0 T']; [congruence|].
    destruct (exists_last HSn) as (S' & sl & ES).
    cbn [forallb] in HT. apply andb_true_iff in HT as [Ht0 _].
    rewrite ES, forallb_app in HS. apply andb_true_iff in HS as [_ Hsl]. cbn [forallb] in Hsl.
    apply andb_true_iff in Hsl as [Hsl _].
    unfold head. rewrite ES.
    replace (((t0 :: T') ++ 47 :: S' ++ [sl]) ++ h0)
      with ([] ++ (t0 :: (T' ++ 47 :: S') ++ [sl]) ++ h0).
    2:{ cbn [app]. rewrite <- ?app_assoc. cbn [app]. rewrite <- ?app_assoc. cbn [app]. reflexivity. }
    rewrite trim_piece; [|reflexivity|exact Hh0|apply token_not_ws, Ht0|apply token_not_ws, Hsl].
    cbn [app]. rewrite <- ?app_assoc. cbn [app]. reflexivity. }
  rewrite Hth, join_semi_cons. unfold head. rewrite <- app_assoc. cbn [app]. do 2 f_equal.
  f_equal.
  (* each piece trims to its core, and "; core" is the canonical rendering *)
  clear - Hos. induction Hos as [|[[post p] trail] os Ho _ IH]; [reflexivity|].
  cbn [map concat render_params fst snd]. rewrite render_canon, <- IH. clear IH.
  destruct Ho as (Hpost & Htrail & Hp & Hv59).
  destruct (core_shape p Hp Hv59) as [(c & x & l & Ec & Hc & Hl) _].
  unfold render_oparam. rewrite Ec, (trim_piece _ _ _ _ _ Hpost Htrail Hc Hl). reflexivity.
Qed.

Lemma canon_ok p : cparam_ok p -> cparam_ok (canon p).
Proof. unfold cparam_ok, canon. cbn. tauto. Qed.

(* C09 clause 5, full strength: any letter case of the media type; optional
   blanks (SP / HTAB) before and after every ';' and at the end; token or
   quoted-string values; the boundary parameter anywhere, its name in any
   letter case *)
Theorem multipart_boundary_ows T S h0 os b :
  str_lower T = S_MULTIPART -> str_lower S = S_FORM_DATA ->
  forallb blank h0 = true -> Forall oparam_ok os ->
  assoc S_BOUNDARY (map (fun o => (str_lower (cp_name (snd (fst o))), cp_value (snd (fst o)))) os) = Some b ->
  parse_boundary (normalize_ct (T ++ 47 :: S ++ h0 ++ render_ows os)) = BOk b.
Proof.
  intros HT HS Hh0 Hos Hb.
  assert (HTt : forallb is_token T = true).
  { rewrite <- (forallb_lower is_token T is_token_lower), HT. reflexivity. }
  assert (HSt : forallb is_token S = true).
  { rewrite <- (forallb_lower is_token S is_token_lower), HS. reflexivity. }
  rewrite normalize_ct_ows; try assumption.
  - apply multipart_boundary; [exact HT|exact HS| |].
    + apply Forall_forall. intros p Hp. apply in_map_iff in Hp as (o & <- & Hin).
      rewrite Forall_forall in Hos. specialize (Hos _ Hin). destruct o as [[post p] trail].
      cbn [fst snd]. apply canon_ok, Hos.
    + rewrite map_map. cbn [canon cp_name cp_value]. exact Hb.
  - intros ->. discriminate HT.
  - intros ->. discriminate HS.
Qed.

Corollary multipart_boundary_extracted T S h0 os b :
  str_lower T = S_MULTIPART -> str_lower S = S_FORM_DATA ->
  forallb blank h0 = true -> Forall oparam_ok os ->
  assoc S_BOUNDARY (map (fun o => (str_lower (cp_name (snd (fst o))), cp_value (snd (fst o)))) os) = Some b ->
  header_is_str (T ++ 47 :: S ++ h0 ++ render_ows os) = true ->
  extract_multipart (HVal (T ++ 47 :: S ++ h0 ++ render_ows os)) = Ok b.
Proof.
  intros HT HS Hh0 Hos Hb Hh. cbn [extract_multipart]. rewrite Hh.
  rewrite (multipart_boundary_ows _ _ _ _ _ HT HS Hh0 Hos Hb). reflexivity.
Qed.


Lemma bind_var_many es vv : bind_var (WMany es) = Ok vv -> exists l, decode_segments es = Ok l /\ vv = VMany l.
Proof.
  cbn [bind_var]. destruct (decode_segments es) as [l|e]; cbn [bind]; [|discriminate].
  intros [= <-]. eauto.
Qed.

(* C10: an ill-typed element anywhere in a wildcard variable's sequence *)
Theorem path_bad_seq_element_refused sp ws x es l s t :
  wf_spec sp = true -> no_stub sp = true -> names_distinct (map fst ws) = true ->
  In (x, WMany es) ws -> decode_segments es = Ok l -> In s l ->
  assoc x sp = Some (KSeq t) -> parse_scalar t s = None ->
  exists err, extract_path sp ws = Err err /\ xerr_status err = Some 400.
Proof.
  intros Hwf Hns Hd Hin Hdec Hs Hsp Hbad.
  destruct (extract_path sp ws) as [vals|err] eqn:E.
  2:{ exists err. split; [reflexivity|]. eapply path_errors_400; eassumption. }
  exfalso. unfold extract_path in E.
  destruct (bind_vars ws) as [vars|e0] eqn:Hb; cbn [bind] in E; [|discriminate].
  destruct (bind_vars_members _ _ Hb) as [Hk Hm].
  destruct (Hm _ _ Hin) as (vv & Hvv & Hiv).
  destruct (bind_var_many _ _ Hvv) as (l' & Hl' & ->). rewrite Hdec in Hl'. injection Hl' as <-.
  assert (Hdv : names_distinct (map fst vars) = true) by (rewrite Hk; exact Hd).
  destruct (to_btree_spec vars Hdv) as [Hdb Hab].
  assert (Hie : In (x, VMany l) (to_btree vars)).
  { apply assoc_In. rewrite Hab. apply assoc_distinct; assumption. }
  assert (Hf : is_ok (from_map_field (KSeq t) (VMany l)) = false).
  { cbn [from_map_field as_seq bind].
    destruct (from_map_elems_bad t l s Hs Hbad) as [e He]. rewrite He. reflexivity. }
  destruct (refused_bad_value varval from_map_field from_map_ignore sp (to_btree vars)
              x (VMany l) _ Hwf Hie Hsp Hf) as [m Hm'].
  unfold http_extract_path_params, from_map in E. rewrite Hm' in E.
  destruct m; discriminate.
Qed.

(* soundness: what a handler gets in a wildcard sequence is, element by
   element, the parse of the decoded segment at that position *)
Theorem seq_field_sound t l v :
  from_map_field (KSeq t) (VMany l) = Ok v ->
  exists xs, v = FvSeq xs /\ Forall2 (fun s x => parse_scalar t s = Some x) l xs.
Proof.
  cbn [from_map_field as_seq bind].
  destruct (from_map_elems t l) as [xs|e] eqn:E; cbn [bind]; [|discriminate].
  intros [= <-]. exists xs. split; [reflexivity|]. apply from_map_elems_ok_iff, E.
Qed.

(* ---- several extractors: the FIRST failing one, in argument order, decides ---- *)

Theorem extract3_err_iff {A B C} (a : res xerr A) (b : res xerr B) (c : res xerr C) e :
  extract3 a b c = Err e <->
  a = Err e \/ (exists x, a = Ok x /\ b = Err e) \/ (exists x y, a = Ok x /\ b = Ok y /\ c = Err e).
Proof.
  unfold extract3. destruct a as [x|ea]; cbn [bind].
  - destruct b as [y|eb]; cbn [bind].
    + destruct c as [z|ec]; cbn [bind].
      * split; [discriminate|]. intros [H|[(x' & _ & H)|(x' & y' & _ & _ & H)]]; discriminate.
      * split.
        -- intros [= <-]. right. right. eauto.
        -- intros [H|[(x' & _ & H)|(x' & y' & _ & _ & H)]]; try discriminate. injection H as <-. reflexivity.
    + split.
      * intros [= <-]. right. left. eauto.
      * intros [H|[(x' & _ & H)|(x' & y' & _ & H & _)]]; try discriminate. injection H as <-. reflexivity.
  - split.
    + intros [= <-]. left. reflexivity.
    + intros [H|[(x' & H & _)|(x' & y' & H & _)]]; try discriminate. injection H as <-. reflexivity.
Qed.

Theorem extract3_is_ok {A B C} (a : res xerr A) (b : res xerr B) (c : res xerr C) :
  is_ok (extract3 a b c) = is_ok a && is_ok b && is_ok c.
Proof. unfold extract3. destruct a, b, c; reflexivity. Qed.

(* the handler is entered iff every stage succeeds *)
Theorem handler_entered_iff_all_ok {A B C} (a : res xerr A) (b : res xerr B) (c : res xerr C) :
  entered (handle (extract3 a b c)) = is_ok a && is_ok b && is_ok c.
Proof. unfold extract3. destruct a, b, c; reflexivity. Qed.

(* a fault in an earlier stage masks every later one *)
Corollary earlier_fault_wins {A B C} (b : res xerr B) (c : res xerr C) e :
  handle (extract3 (@Err xerr A e) b c) = Responded (xerr_status e) /\
  (forall (x : A) eb, handle (extract3 (Ok x) (@Err xerr B eb) c) = Responded (xerr_status eb)).
Proof. split; [reflexivity|]. intros x eb. reflexivity. Qed.

(* the assert! of http_extract_path_params looks at the START of the message;
   the start of every message the deserialiser produces is fixed text that
   differs from "missing field: " before any client-supplied text (the raw
   segment echoed by "unable to parse '..' as T", "unknown variant `..`") is
   reached: whatever follows the head, the assertion holds *)
Theorem assert_never_fires_any_tail e (client_text : str) :
  starts_with MISSING_FIELD_COLON (merr_message_head e ++ client_text) = false.
Proof. destruct e; reflexivity. Qed.
