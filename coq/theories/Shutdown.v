(* Shutdown.v — dropshot's graceful shutdown as a labelled transition system
   (C17).  Model only; the lemmas are in ShutdownProofs.v.

   Code modelled: dropshot/src/server.rs
     HttpServer::close          oneshot send; drop(app_state); join_future.await
     CloseHandle::drop          the same signal when the server is dropped
     HttpServerStarter::start   the spawned server task:
                                  loop { select! { accept => graceful.watch + spawn,
                                                   rx => break } }
                                  graceful.shutdown().await
                                  (task ends: the listener it owns is dropped)
                                the join future: join_handle.await? (an Err
                                  "server stopped" skips the rest);
                                  handler_waitgroup.wait().await; Ok(())
                                .boxed().shared()
     wait_for_shutdown          a clone of the shared join future
     http_request_handle        Detached: each handler task holds a clone of the
                                waitgroup worker until it has finished

   Contracts of the libraries underneath, encoded as transition guards:
     hyper-util GracefulShutdown::shutdown() returns once every watched
       connection future has completed; a signalled HTTP/1 connection finishes
       the request it is reading or answering (the response goes out first,
       then the connection closes), and closes if idle;
     waitgroup::WaitGroup::wait() returns once every Worker clone is dropped;
     futures Shared: every clone yields the one result of the inner future.

   One request at a time per connection; the request is named after its
   connection. *)
From DS Require Import Base.

Inductive mode := CancelOnDisconnect | Detached.

Inductive phase :=
| Serving
| CloseSignalled      (* the close signal has been sent *)
| AcceptStopped       (* the accept loop has left; graceful.shutdown() is running *)
| ConnectionsDrained  (* graceful.shutdown() returned; server task over, listener dropped *)
| HandlersDrained     (* waitgroup.wait() returned *)
| Finished (ok : bool). (* the shared future has its value *)

Inductive conn :=
| Idle                       (* open, no request in progress *)
| InRequest (started : bool) (* a request is being read / its handler runs *)
| Responding                 (* the handler returned; the response is being written *)
| Closed.

Record state := mkSt {
  ph : phase;
  conns : list (N * conn);
  detached : list N;     (* handler tasks spawned (Detached mode) and not finished *)
  listening : bool;      (* the listening socket exists *)
  answered : list N      (* connections whose current response has been fully written *)
}.

Definition init : state := mkSt Serving [] [] true [].

Fixpoint find (l : list (N * conn)) (c : N) : option conn :=
  match l with
  | [] => None
  | (c', x) :: t => if c =? c' then Some x else find t c
  end.

Fixpoint put (l : list (N * conn)) (c : N) (x : conn) : list (N * conn) :=
  match l with
  | [] => [(c, x)]
  | (c', x') :: t => if c =? c' then (c, x) :: t else (c', x') :: put t c x
  end.

Fixpoint remove_id (l : list N) (c : N) : list N :=
  match l with
  | [] => []
  | x :: t => if x =? c then remove_id t c else x :: remove_id t c
  end.

Definition mem_id (c : N) (l : list N) : bool := existsb (N.eqb c) l.

Definition conn_closed (x : conn) : bool := match x with Closed => true | _ => false end.
Definition all_closed (l : list (N * conn)) : bool := forallb (fun p => conn_closed (snd p)) l.

Inductive ev :=
| Accept (c : N)        (* the accept loop takes connection c: graceful.watch + spawn *)
| ReqBegin (c : N)      (* bytes of a request arrive on idle connection c *)
| Enter (c : N)         (* the handler of c's request starts *)
| Complete (c : N)      (* it returns *)
| Deliver (c : N)       (* the response has been written completely *)
| ClientGone (c : N)    (* the client closes c (or the connection fails) *)
| CloseIdle (c : N)     (* graceful shutdown closes idle connection c *)
| Signal                (* close() / drop of the CloseHandle *)
| StopAccept            (* select! sees the signal: break *)
| ConnsDrained          (* graceful.shutdown() returns, the server task ends *)
| WaitgroupDone         (* handler_waitgroup.wait() returns *)
| Publish               (* the join future returns Ok(()) *)
| TaskFail              (* the server task panicked / was aborted: Err("server stopped") *)
| Release (j : N) (ok : bool). (* waiter j (0: the caller of close()) gets the result *)

Definition set_ph (s : state) (p : phase) : state :=
  mkSt p (conns s) (detached s) (listening s) (answered s).
Definition set_conn (s : state) (c : N) (x : conn) : state :=
  mkSt (ph s) (put (conns s) c x) (detached s) (listening s) (answered s).

(* has the connection been told to shut down gracefully? *)
Definition signalled (p : phase) : bool :=
  match p with Serving | CloseSignalled => false | _ => true end.

Definition step (m : mode) (s : state) (e : ev) : option state :=
  match e with
  | Accept c =>
      match ph s, find (conns s) c with
      | (Serving | CloseSignalled), None => Some (set_conn s c Idle)
      | _, _ => None
      end
  | ReqBegin c =>
      match find (conns s) c with
      | Some Idle => Some (set_conn s c (InRequest false))
      | _ => None
      end
  | Enter c =>
      match find (conns s) c with
      | Some (InRequest false) =>
          let s' := set_conn s c (InRequest true) in
          match m with
          | Detached => if mem_id c (detached s) then None
                        else Some (mkSt (ph s') (conns s') (c :: detached s') (listening s') (answered s'))
          | CancelOnDisconnect => Some s'
          end
      | _ => None
      end
  | Complete c =>
      match m with
      | CancelOnDisconnect =>
          match find (conns s) c with
          | Some (InRequest true) => Some (set_conn s c Responding)
          | _ => None
          end
      | Detached =>
          if mem_id c (detached s) then
            let s' := mkSt (ph s) (conns s) (remove_id (detached s) c) (listening s) (answered s) in
            match find (conns s) c with
            | Some (InRequest true) => Some (set_conn s' c Responding)   (* tx.send(result) reaches the waiter *)
            | _ => Some s'                                                (* the waiter is gone *)
            end
          else None
      end
  | Deliver c =>
      match find (conns s) c with
      | Some Responding =>
          let s' := set_conn s c (if signalled (ph s) then Closed else Idle) in
          Some (mkSt (ph s') (conns s') (detached s') (listening s') (c :: answered s'))
      | _ => None
      end
  | ClientGone c =>
      match find (conns s) c with
      | Some Closed | None => None
      | Some _ => Some (set_conn s c Closed)
        (* CancelOnDisconnect: the handler is dropped with the connection;
           Detached: it stays in [detached] until it completes *)
      end
  | CloseIdle c =>
      match ph s, find (conns s) c with
      | AcceptStopped, Some Idle => Some (set_conn s c Closed)
      | _, _ => None
      end
  | Signal => match ph s with Serving => Some (set_ph s CloseSignalled) | _ => None end
  | StopAccept => match ph s with CloseSignalled => Some (set_ph s AcceptStopped) | _ => None end
  | ConnsDrained =>
      match ph s with
      | AcceptStopped =>
          if all_closed (conns s)
          then Some (mkSt ConnectionsDrained (conns s) (detached s) false (answered s))
          else None
      | _ => None
      end
  | WaitgroupDone =>
      match ph s, detached s with
      | ConnectionsDrained, [] => Some (set_ph s HandlersDrained)
      | _, _ => None
      end
  | Publish => match ph s with HandlersDrained => Some (set_ph s (Finished true)) | _ => None end
  | TaskFail =>
      match ph s with
      | Serving | CloseSignalled | AcceptStopped =>
          Some (mkSt (Finished false) (conns s) (detached s) false (answered s))
      | _ => None
      end
  | Release _ ok =>
      match ph s with
      | Finished r => if Bool.eqb ok r then Some s else None
      | _ => None
      end
  end.

Fixpoint run (m : mode) (s : state) (t : list ev) : option state :=
  match t with
  | [] => Some s
  | e :: t' => match step m s e with
               | Some s' => run m s' t'
               | None => None
               end
  end.

Definition accepts (m : mode) (t : list ev) : bool :=
  match run m init t with Some _ => true | None => false end.

(* ---- observed traces ----

   What the harness sees.  The server-internal steps StopAccept, CloseIdle,
   ConnsDrained, WaitgroupDone, Publish are not observable; they are placed at
   the first observation that needs them (a released waiter, close()
   returning).  The client reads a response after the server wrote it, so
   [ORespRead c] may be logged after the release it in fact preceded: a
   response still being written when shutdown finishes is taken as written
   ([Deliver] placed there) and must then be confirmed by [ORespRead c true]
   later in the log — the property clauses of Run_C17.v demand that
   confirmation from every client that stayed. *)
Inductive oev :=
| OConn (c : N)                  (* a client connected (logged after connect() returned) *)
| OEntered (c : N)               (* handler of c's request entered *)
| OCompleted (c : N)             (* handler returned *)
| OHDropped (c : N)              (* handler future dropped before it returned *)
| ORespRead (c : N) (complete : bool)
| OClientGone (c : N)            (* the client is about to close its socket *)
| OSawEof (c : N)                (* the client saw its connection end without a (further) response *)
| OCloseCalled
| OCloseReturned (ok : bool)
| OWaiter (j : N) (ok : bool)
| OConnectAfter (r : N).         (* connect() after close() returned: 0 refused, 1 accepted by a
                                    listener that is not this process's, 2 accepted by this server's *)

(* the unobservable steps that take the server from where it is to Finished *)
Definition finish_seq (s : state) (ok : bool) : list ev :=
  match ph s with
  | Finished _ => []
  | _ =>
      if ok then
        (match ph s with CloseSignalled => [StopAccept] | _ => [] end) ++
        (match ph s with
         | CloseSignalled | AcceptStopped =>
             flat_map (fun p => match snd p with
                                | Responding => [Deliver (fst p)]
                                | Idle => [CloseIdle (fst p)]
                                | _ => []
                                end) (conns s) ++ [ConnsDrained]
         | _ => []
         end) ++
        (match ph s with
         | CloseSignalled | AcceptStopped | ConnectionsDrained => [WaitgroupDone]
         | _ => []
         end) ++ [Publish]
      else [TaskFail]
  end.

(* [OClientGone c] is logged by the client before it closes its socket; the
   server notices later.  While c's handler is running the step [ClientGone c]
   is therefore deferred ([pend]) to the observation that shows the server
   noticed — the handler future is dropped ([OHDropped c], CancelOnDisconnect)
   — or made it irrelevant — the handler returned first ([OCompleted c]); at
   the latest it is placed where shutdown finishes. *)
Definition elab (m : mode) (s : state) (pend : list N) (o : oev) : option (list ev * list N) :=
  match o with
  | OConn c => Some ([Accept c], pend)
  | OEntered c =>
      match find (conns s) c with
      | Some Idle => Some ([ReqBegin c; Enter c], pend)
      | _ => Some ([Enter c], pend)
      end
  | OCompleted c =>
      if mem_id c pend then Some ([Complete c; ClientGone c], remove_id pend c)
      else Some ([Complete c], pend)
  | OHDropped c =>
      match m with
      | CancelOnDisconnect =>
          (* cancelled with its connection *)
          if mem_id c pend then Some ([ClientGone c], remove_id pend c) else None
      | Detached => None
      end
  | ORespRead c true =>
      match find (conns s) c with
      | Some Responding => Some ([Deliver c], pend)
      | _ => if mem_id c (answered s) then Some ([], pend) else None
      end
  | ORespRead c false => Some ([], pend)
  | OClientGone c =>
      match find (conns s) c with
      | Some Closed => Some ([], pend)      (* the server had closed it already *)
      | Some (InRequest true) => Some ([], c :: pend)
      | _ => Some ([ClientGone c], pend)
      end
  | OSawEof _ => Some ([], pend)
  | OCloseCalled => Some ([Signal], pend)
  | OCloseReturned ok =>
      match ph s with
      | Finished _ => Some ([Release 0 ok], pend)
      | _ => Some (map ClientGone pend ++ finish_seq s ok ++ [Release 0 ok], [])
      end
  | OWaiter j ok =>
      match ph s with
      | Finished _ => Some ([Release j ok], pend)
      | _ => Some (map ClientGone pend ++ finish_seq s ok ++ [Release j ok], [])
      end
  | OConnectAfter _ => Some ([], pend)
  end.

Fixpoint run_obs (m : mode) (s : state) (pend : list N) (os : list oev) : option (state * list ev) :=
  match os with
  | [] => Some (s, [])
  | o :: os' =>
      match elab m s pend o with
      | None => None
      | Some (ls, pend') =>
          match run m s ls with
          | None => None
          | Some s' =>
              match run_obs m s' pend' os' with
              | None => None
              | Some (s'', ls') => Some (s'', ls ++ ls')
              end
          end
      end
  end.

Definition replay_obs (m : mode) (os : list oev) : option (state * list ev) := run_obs m init [] os.
