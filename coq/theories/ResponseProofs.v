(* ResponseProofs.v — lemmas about the header-map model and the typed-response
   model of Response.v (property C12; the header-map lemmas are reused by
   ErrorsProofs.v for C13). *)
From Coq Require Import String.
From DS Require Import Base Response.

(* ---------- small facts ---------- *)

Lemma option_eqb_str_some (x : option str) (n : str) :
  option_eqb str_eqb x (Some n) = true <-> x = Some n.
Proof.
  destruct x as [y|]; cbn [option_eqb].
  - rewrite str_eqb_eq. split; congruence.
  - split; discriminate.
Qed.

(* ---------- HeaderMap: get after set / insert / append / extend ---------- *)

Lemma hm_get_set m n vs k :
  hm_get (hm_set m n vs) k = if str_eqb n k then Some vs else hm_get m k.
Proof.
  induction m as [|[k0 old] m IH]; cbn [hm_set].
  - cbn [hm_get]. reflexivity.
  - destruct (str_eqb_spec k0 n) as [->|Hne]; cbn [hm_get].
    + destruct (str_eqb n k); reflexivity.
    + destruct (str_eqb_spec k0 k) as [->|Hne2].
      * destruct (str_eqb_spec n k) as [->|_]; [congruence|reflexivity].
      * apply IH.
Qed.

Lemma hm_get_insert m n v k :
  hm_get (hm_insert m n v) k = if str_eqb n k then Some [v] else hm_get m k.
Proof. apply hm_get_set. Qed.

Definition appended (old : option (list str)) (v : str) : list str :=
  match old with Some o => o ++ [v] | None => [v] end.

Lemma hm_get_append m n v k :
  hm_get (hm_append m n v) k =
  if str_eqb n k then Some (appended (hm_get m n) v) else hm_get m k.
Proof.
  induction m as [|[k0 old] m IH]; cbn [hm_append].
  - cbn [hm_get appended]. reflexivity.
  - destruct (str_eqb_spec k0 n) as [->|Hne]; cbn [hm_get].
    + rewrite str_eqb_refl. cbn [appended].
      destruct (str_eqb n k); reflexivity.
    + destruct (str_eqb_spec k0 n) as [->|_]; [congruence|].
      destruct (str_eqb_spec k0 k) as [->|Hne2].
      * destruct (str_eqb_spec n k) as [->|_]; [congruence|reflexivity].
      * apply IH.
Qed.

Lemma hm_get_fold_append rest : forall m n o k,
  hm_get m n = Some o ->
  hm_get (fold_left (fun a x => hm_append a n x) rest m) k =
  if str_eqb n k then Some (o ++ rest) else hm_get m k.
Proof.
  induction rest as [|x rest IH]; intros m n o k Hget; cbn [fold_left].
  - rewrite app_nil_r. destruct (str_eqb_spec n k) as [->|_]; auto.
  - rewrite (IH (hm_append m n x) n (o ++ [x]) k).
    + rewrite <- app_assoc. cbn [app].
      rewrite hm_get_append.
      destruct (str_eqb n k); reflexivity.
    + rewrite hm_get_append, str_eqb_refl, Hget. reflexivity.
Qed.

Lemma hm_get_extend_group m n v rest k :
  hm_get (hm_extend_group m (n, v :: rest)) k =
  if str_eqb n k then Some (v :: rest) else hm_get m k.
Proof.
  cbn [hm_extend_group].
  rewrite (hm_get_fold_append rest (hm_insert m n v) n [v] k).
  - cbn [app]. rewrite hm_get_insert. destruct (str_eqb n k); reflexivity.
  - rewrite hm_get_insert, str_eqb_refl. reflexivity.
Qed.

Lemma hm_wf_cons n vs t :
  hm_wf ((n, vs) :: t) = true ->
  hm_get t n = None /\ vs <> [] /\ hm_wf t = true.
Proof.
  unfold hm_wf. cbn [hm_names_nodup forallb snd].
  rewrite !andb_true_iff, !negb_true_iff.
  intros [[Hn Hnd] [Hv Hall]].
  unfold hm_has in Hn. destruct (hm_get t n); [discriminate|].
  repeat split; auto.
  intros ->; discriminate.
Qed.

(* HeaderMap::extend: every name of [other] ends up with exactly [other]'s
   values; every other name keeps what it had *)
Lemma hm_get_extend other : forall m k,
  hm_wf other = true ->
  hm_get (hm_extend m other) k =
  match hm_get other k with Some vs => Some vs | None => hm_get m k end.
Proof.
  induction other as [|[n vs] t IH]; intros m k Hwf.
  - reflexivity.
  - apply hm_wf_cons in Hwf as (Hnone & Hne & Hwft).
    unfold hm_extend in *. cbn [fold_left].
    rewrite (IH _ k Hwft).
    destruct vs as [|v rest]; [congruence|].
    rewrite hm_get_extend_group. cbn [hm_get].
    destruct (str_eqb_spec n k) as [->|Hnk].
    + rewrite Hnone. reflexivity.
    + reflexivity.
Qed.

(* ---------- HeaderMap: well-formedness is preserved ---------- *)

Lemma hm_has_false_iff m n : hm_has m n = false <-> ~ In n (map fst m).
Proof.
  unfold hm_has.
  induction m as [|[k vs] m IH]; cbn [hm_get map fst In].
  - tauto.
  - destruct (str_eqb_spec k n) as [->|Hne].
    + split; [discriminate|tauto].
    + rewrite IH. tauto.
Qed.

Lemma hm_names_nodup_iff m : hm_names_nodup m = true <-> NoDup (map fst m).
Proof.
  induction m as [|[k vs] m IH]; cbn [hm_names_nodup map fst].
  - split; [constructor|reflexivity].
  - rewrite andb_true_iff, negb_true_iff, hm_has_false_iff, IH.
    split.
    + intros [H1 H2]; constructor; auto.
    + intros H; inversion H; auto.
Qed.

Lemma names_set m n vs :
  map fst (hm_set m n vs) = if hm_has m n then map fst m else map fst m ++ [n].
Proof.
  unfold hm_has.
  induction m as [|[k old] m IH]; cbn [hm_set hm_get map fst app].
  - reflexivity.
  - destruct (str_eqb_spec k n) as [->|Hne]; cbn [map fst].
    + reflexivity.
    + rewrite IH. destruct (hm_get m n); reflexivity.
Qed.

Lemma names_append m n v :
  map fst (hm_append m n v) = if hm_has m n then map fst m else map fst m ++ [n].
Proof.
  unfold hm_has.
  induction m as [|[k old] m IH]; cbn [hm_append hm_get map fst app].
  - reflexivity.
  - destruct (str_eqb_spec k n) as [->|Hne]; cbn [map fst].
    + reflexivity.
    + rewrite IH. destruct (hm_get m n); reflexivity.
Qed.

Lemma nodup_snoc (l : list str) n : NoDup l -> ~ In n l -> NoDup (l ++ [n]).
Proof.
  induction l as [|x l IH]; cbn [app]; intros Hnd Hnot.
  - constructor; [intros []|constructor].
  - inversion Hnd as [|? ? Hx Hl]; subst.
    constructor.
    + rewrite in_app_iff. cbn [In]. intros [H|[H|[]]]; [tauto|].
      subst. apply Hnot. left; reflexivity.
    + apply IH; auto. intros H; apply Hnot; right; auto.
Qed.

Definition vals_ok (m : hmap) : bool := forallb (fun e => negb (is_nil (snd e))) m.

Lemma vals_ok_set m n vs : vs <> [] -> vals_ok m = true -> vals_ok (hm_set m n vs) = true.
Proof.
  intros Hne. unfold vals_ok.
  induction m as [|[k old] m IH]; cbn [hm_set forallb snd].
  - destruct vs; [congruence|reflexivity].
  - rewrite andb_true_iff. intros [H1 H2].
    destruct (str_eqb k n); cbn [forallb snd]; rewrite andb_true_iff; split; auto.
    destruct vs; [congruence|reflexivity].
Qed.

Lemma vals_ok_append m n v : vals_ok m = true -> vals_ok (hm_append m n v) = true.
Proof.
  unfold vals_ok.
  induction m as [|[k old] m IH]; cbn [hm_append forallb snd].
  - reflexivity.
  - rewrite andb_true_iff. intros [H1 H2].
    destruct (str_eqb k n); cbn [forallb snd]; rewrite andb_true_iff; split; auto.
    destruct old; reflexivity.
Qed.

Lemma hm_wf_split m : hm_wf m = true <-> NoDup (map fst m) /\ vals_ok m = true.
Proof.
  unfold hm_wf. fold (vals_ok m). rewrite andb_true_iff, hm_names_nodup_iff. tauto.
Qed.

Lemma hm_wf_set m n vs : vs <> [] -> hm_wf m = true -> hm_wf (hm_set m n vs) = true.
Proof.
  rewrite !hm_wf_split. intros Hne [Hnd Hv]. split.
  - rewrite names_set. destruct (hm_has m n) eqn:E; auto.
    apply nodup_snoc; auto. apply hm_has_false_iff; auto.
  - apply vals_ok_set; auto.
Qed.

Lemma hm_wf_insert m n v : hm_wf m = true -> hm_wf (hm_insert m n v) = true.
Proof. apply hm_wf_set. discriminate. Qed.

Lemma hm_wf_append m n v : hm_wf m = true -> hm_wf (hm_append m n v) = true.
Proof.
  rewrite !hm_wf_split. intros [Hnd Hv]. split.
  - rewrite names_append. destruct (hm_has m n) eqn:E; auto.
    apply nodup_snoc; auto. apply hm_has_false_iff; auto.
  - apply vals_ok_append; auto.
Qed.

Lemma hm_wf_extend_group m g : hm_wf m = true -> hm_wf (hm_extend_group m g) = true.
Proof.
  destruct g as [n [|v rest]]; cbn [hm_extend_group]; auto.
  intros H. apply (hm_wf_insert m n v) in H. revert H.
  generalize (hm_insert m n v) as m0.
  induction rest as [|x rest IH]; intros m0 H; cbn [fold_left]; auto.
  apply IH. apply hm_wf_append; auto.
Qed.

Lemma hm_wf_extend other : forall m, hm_wf m = true -> hm_wf (hm_extend m other) = true.
Proof.
  unfold hm_extend.
  induction other as [|g t IH]; intros m H; cbn [fold_left]; auto.
  apply IH. apply hm_wf_extend_group; auto.
Qed.

Lemma hm_of_ops_wf ops : forall m m',
  hm_wf m = true -> hm_of_ops ops m = Some m' -> hm_wf m' = true.
Proof.
  induction ops as [|[n v|n v] t IH]; intros m m' Hwf; cbn [hm_of_ops].
  - intros [= <-]; auto.
  - destruct (header_name n); [|discriminate].
    destruct (header_legal v); [|discriminate].
    apply IH. apply hm_wf_insert; auto.
  - destruct (header_name n); [|discriminate].
    destruct (header_legal v); [|discriminate].
    apply IH. apply hm_wf_append; auto.
Qed.

(* ---------- header names ---------- *)

Lemma header_name_lower s n : header_name s = Some n -> n = str_lower s.
Proof.
  unfold header_name.
  destruct (is_nil s); [discriminate|].
  destruct (HN_MAX_LEN <? N.of_nat (List.length s)); [discriminate|].
  destruct (forallb is_tchar s); [|discriminate].
  congruence.
Qed.

(* ---------- to_map and the declared-header loop ---------- *)

Lemma bt_insert_in1 k v m : In (k, v) (bt_insert k v m).
Proof.
  induction m as [|[k' v'] m IH]; cbn [bt_insert].
  - left; reflexivity.
  - destruct (str_cmp k k'); cbn [In]; auto.
Qed.

Lemma bt_insert_in2 k v m a b :
  In (a, b) m -> a <> k -> In (a, b) (bt_insert k v m).
Proof.
  intros Hin Hne.
  induction m as [|[k' v'] m IH]; cbn [bt_insert]; [destruct Hin|].
  destruct (str_cmp k k') eqn:E; cbn [In] in *.
  - apply str_cmp_eq in E. subst k'.
    destruct Hin as [H|H]; [congruence|auto].
  - auto.
  - destruct Hin as [H|H]; auto.
Qed.

Lemma bt_insert_inv k v m a b :
  In (a, b) (bt_insert k v m) -> (a, b) = (k, v) \/ In (a, b) m.
Proof.
  induction m as [|[k' v'] m IH]; cbn [bt_insert In].
  - intros [H|[]]; auto.
  - destruct (str_cmp k k'); cbn [In].
    + intros [H|H]; auto.
    + intros [H|H]; auto.
    + intros [H|H]; auto. apply IH in H. tauto.
Qed.

Lemma to_map_inv fields : forall acc m a b,
  to_map fields acc = Ok m -> In (a, b) m ->
  In (a, b) acc \/ In (a, FStr b) fields.
Proof.
  induction fields as [|[k [v|]] t IH]; intros acc m a b; cbn [to_map].
  - intros [= <-]; auto.
  - intros H Hin. destruct (IH _ _ _ _ H Hin) as [H1|H1].
    + apply bt_insert_inv in H1 as [[= -> ->]|H1]; cbn [In]; auto.
    + cbn [In]; auto.
  - discriminate.
Qed.

Lemma to_map_survives fields : forall acc m a b,
  to_map fields acc = Ok m -> In (a, b) acc -> ~ In a (map fst fields) ->
  In (a, b) m.
Proof.
  induction fields as [|[k [v|]] t IH]; intros acc m a b; cbn [to_map map fst In].
  - intros [= <-]; auto.
  - intros H Hin Hnot. apply (IH _ _ _ _ H).
    + apply bt_insert_in2; auto.
    + tauto.
  - discriminate.
Qed.

Lemma to_map_in fields : forall acc m k v,
  NoDup (map fst fields) -> to_map fields acc = Ok m ->
  In (k, FStr v) fields -> In (k, v) m.
Proof.
  induction fields as [|[k0 [v0|]] t IH]; intros acc m k v Hnd; cbn [to_map In].
  - intros _ [].
  - cbn [map fst] in Hnd. inversion Hnd as [|? ? Hk0 Ht]; subst.
    intros H [[= -> ->]|Hin].
    + apply (to_map_survives _ _ _ _ _ H); auto. apply bt_insert_in1.
    + apply (IH _ _ _ _ Ht H Hin).
  - discriminate.
Qed.

Lemma to_map_all_str fields : forall acc,
  (exists m, to_map fields acc = Ok m) <-> (forall k f, In (k, f) fields -> exists v, f = FStr v).
Proof.
  induction fields as [|[k0 [v0|]] t IH]; intros acc; cbn [to_map In].
  - split; [intros _ k f []|eauto].
  - rewrite IH. split.
    + intros H k f [[= <- <-]|Hin]; eauto.
    + intros H k f Hin; eauto.
  - split.
    + intros [m H]; discriminate.
    + intros H. destruct (H k0 FOther) as [v Hv]; auto. discriminate.
Qed.

Lemma to_map_err fields : forall acc e, to_map fields acc = Err e -> e = 500.
Proof.
  induction fields as [|[k0 [v0|]] t IH]; intros acc e; cbn [to_map].
  - discriminate.
  - apply IH.
  - congruence.
Qed.

Lemma declared_value_in m n x :
  declared_value m n = Some x -> exists a, In (a, x) m /\ header_name a = Some n.
Proof.
  induction m as [|[k v] t IH]; cbn [declared_value]; [discriminate|].
  destruct (declared_value t n) as [y|] eqn:E.
  - intros [= <-]. destruct (IH eq_refl) as (a & H1 & H2). exists a; cbn [In]; auto.
  - destruct (option_eqb str_eqb (header_name k) (Some n)) eqn:E2; [|discriminate].
    intros [= <-]. apply option_eqb_str_some in E2. exists k; cbn [In]; auto.
Qed.

Lemma declared_value_none m n :
  declared_value m n = None -> forall a b, In (a, b) m -> header_name a <> Some n.
Proof.
  induction m as [|[k v] t IH]; cbn [declared_value In]; [intros _ a b []|].
  destruct (declared_value t n) as [y|] eqn:E; [discriminate|].
  destruct (option_eqb str_eqb (header_name k) (Some n)) eqn:E2; [discriminate|].
  intros _ a b [[= -> ->]|Hin].
  - intros H. apply option_eqb_str_some in H. congruence.
  - apply (IH eq_refl a b Hin).
Qed.

Lemma declared_value_unique m n v :
  (exists a, In (a, v) m /\ header_name a = Some n) ->
  (forall a b, In (a, b) m -> header_name a = Some n -> b = v) ->
  declared_value m n = Some v.
Proof.
  intros (a & Hin & Hn) Huniq.
  destruct (declared_value m n) as [x|] eqn:E.
  - apply declared_value_in in E as (a' & Hin' & Hn').
    f_equal. apply (Huniq a' x Hin' Hn').
  - exfalso. apply (declared_value_none _ _ E a v Hin Hn).
Qed.

Lemma insert_declared_get m : forall hs hs',
  insert_declared hs m = Ok hs' ->
  forall n, hm_get hs' n =
            match declared_value m n with Some v => Some [v] | None => hm_get hs n end.
Proof.
  induction m as [|[k v] t IH]; intros hs hs'; cbn [insert_declared declared_value].
  - intros [= <-] n; reflexivity.
  - destruct (header_name k) as [kn|] eqn:Ek; [|discriminate].
    destruct (header_legal v) eqn:Ev; [|discriminate].
    intros H n. rewrite (IH _ _ H n).
    destruct (declared_value t n); [reflexivity|].
    cbn [option_eqb]. rewrite hm_get_insert.
    destruct (str_eqb kn n); reflexivity.
Qed.

Lemma insert_declared_ok_iff m : forall hs,
  (exists hs', insert_declared hs m = Ok hs') <->
  (forall k v, In (k, v) m -> header_name k <> None /\ header_legal v = true).
Proof.
  induction m as [|[k v] t IH]; intros hs; cbn [insert_declared In].
  - split; [intros _ k v []|eauto].
  - destruct (header_name k) as [kn|] eqn:Ek.
    + destruct (header_legal v) eqn:Ev.
      * rewrite IH. split.
        -- intros H a b [[= <- <-]|Hin]; [split; congruence|auto].
        -- intros H a b Hin; auto.
      * split; [intros [x Hx]; discriminate|].
        intros H. destruct (H k v) as [_ H2]; auto. congruence.
    + split; [intros [x Hx]; discriminate|].
      intros H. destruct (H k v) as [H1 _]; auto. congruence.
Qed.

Lemma insert_declared_err m : forall hs e, insert_declared hs m = Err e -> e = 500.
Proof.
  induction m as [|[k v] t IH]; intros hs e; cbn [insert_declared]; [discriminate|].
  destruct (header_name k); [|congruence].
  destruct (header_legal v); [apply IH|congruence].
Qed.

Lemma insert_declared_wf m : forall hs hs',
  hm_wf hs = true -> insert_declared hs m = Ok hs' -> hm_wf hs' = true.
Proof.
  induction m as [|[k v] t IH]; intros hs hs' Hwf; cbn [insert_declared].
  - intros [= <-]; auto.
  - destruct (header_name k); [|discriminate].
    destruct (header_legal v); [|discriminate].
    apply IH. apply hm_wf_insert; auto.
Qed.

(* ---------- typed responses ---------- *)

Section TypedProofs.
  Variable V : Type.
  Variable json_ser : V -> option str.

  Definition payload_of (c : coded V) : option (payload V) :=
    match c with
    | ROk p | RCreated p | RAccepted p => Some p
    | _ => None
    end.

  (* what to_result_coded produces, by content kind *)
  Lemma to_result_coded_spec c r :
    to_result_coded V json_ser c = Ok r ->
    r_status r = status_of c /\
    match payload_of c with
    | Some (PJson v) =>
        exists b, json_ser v = Some b /\ r_body r = BBytes b /\
                  r_headers r = [(H_CONTENT_TYPE, [CT_JSON])]
    | Some (PFreeform b) =>
        r_body r = BBytes b /\ r_headers r = [(H_CONTENT_TYPE, [CT_OCTET])]
    | None => r_body r = BEmpty /\ r_headers r = []
    end.
  Proof.
    assert (Hp : forall st p, payload_to_response V json_ser st p = Ok r ->
              r_status r = st /\
              match p with
              | PJson v => exists b, json_ser v = Some b /\ r_body r = BBytes b /\
                                     r_headers r = [(H_CONTENT_TYPE, [CT_JSON])]
              | PFreeform b => r_body r = BBytes b /\
                               r_headers r = [(H_CONTENT_TYPE, [CT_OCTET])]
              end).
    { intros st [v|b]; cbn [payload_to_response]; unfold json_to_response, freeform_to_response.
      - destruct (json_ser v) as [bb|] eqn:E; [|discriminate].
        intros [= <-]. cbn [r_status r_body r_headers]. split; [reflexivity|].
        exists bb. auto.
      - intros [= <-]. cbn [r_status r_body r_headers]. auto. }
    destruct c as [p|p|p| | | | |]; cbn [to_result_coded payload_of status_of];
      try (apply Hp);
      unfold empty_to_response; intros [= <-]; cbn [r_status r_body r_headers]; auto.
  Qed.

  (* the only failure is a serialisation failure, reported as 500 *)
  Lemma to_result_coded_err c e :
    to_result_coded V json_ser c = Err e ->
    e = 500 /\ exists v, payload_of c = Some (PJson v) /\ json_ser v = None.
  Proof.
    assert (Hp : forall st p, payload_to_response V json_ser st p = Err e ->
              e = 500 /\ exists v, p = PJson v /\ json_ser v = None).
    { intros st [v|b]; cbn [payload_to_response]; unfold json_to_response, freeform_to_response.
      - destruct (json_ser v) eqn:E; [discriminate|]. intros [= <-]. split; eauto.
      - discriminate. }
    destruct c as [p|p|p| | | | |]; cbn [to_result_coded payload_of];
      try (unfold empty_to_response; discriminate);
      (intros H; apply Hp in H as (-> & v & -> & Hv); split; eauto).
  Qed.

  Lemma to_result_coded_wf c r :
    to_result_coded V json_ser c = Ok r -> hm_wf (r_headers r) = true.
  Proof.
    intros H. apply to_result_coded_spec in H as [_ H].
    destruct (payload_of c) as [[v|b]|].
    - destruct H as (bb & _ & _ & ->). reflexivity.
    - destruct H as (_ & ->). reflexivity.
    - destruct H as (_ & ->). reflexivity.
  Qed.

  (* the complete header algebra of HttpResponseHeaders::to_result *)
  Lemma to_result_headers_get h r :
    to_result_headers V json_ser h = Ok r -> hm_wf (hr_explicit h) = true ->
    exists r0 m,
      to_result_coded V json_ser (hr_body h) = Ok r0 /\
      to_map (hr_declared h) [] = Ok m /\
      r_status r = r_status r0 /\ r_body r = r_body r0 /\
      forall n, hm_get (r_headers r) n =
                match hm_get (hr_explicit h) n with
                | Some vs => Some vs
                | None => match declared_value m n with
                          | Some v => Some [v]
                          | None => hm_get (r_headers r0) n
                          end
                end.
  Proof.
    unfold to_result_headers, bind.
    destruct (to_result_coded V json_ser (hr_body h)) as [r0|] eqn:E0; [|discriminate].
    destruct (to_map (hr_declared h) []) as [m|] eqn:E1; [|discriminate].
    destruct (insert_declared (r_headers r0) m) as [hs|] eqn:E2; [|discriminate].
    intros [= <-] Hwf. exists r0, m. cbn [r_status r_body r_headers].
    repeat split; auto.
    intros n. rewrite (hm_get_extend _ _ _ Hwf).
    rewrite (insert_declared_get _ _ _ E2 n). reflexivity.
  Qed.

  Lemma to_result_headers_err h e : to_result_headers V json_ser h = Err e -> e = 500.
  Proof.
    unfold to_result_headers, bind.
    destruct (to_result_coded V json_ser (hr_body h)) as [r0|] eqn:E0.
    - destruct (to_map (hr_declared h) []) as [m|] eqn:E1.
      + destruct (insert_declared (r_headers r0) m) as [hs|] eqn:E2; [discriminate|].
        intros [= <-]. eapply insert_declared_err; eauto.
      + intros [= <-]. eapply to_map_err; eauto.
    - intros [= <-]. apply to_result_coded_err in E0 as [-> _]. reflexivity.
  Qed.

  (* exactly when it succeeds *)
  Lemma to_result_headers_ok_iff h :
    (exists r, to_result_headers V json_ser h = Ok r) <->
    (exists r0 m, to_result_coded V json_ser (hr_body h) = Ok r0 /\
                  to_map (hr_declared h) [] = Ok m /\
                  forall k v, In (k, v) m -> header_name k <> None /\ header_legal v = true).
  Proof.
    unfold to_result_headers, bind. split.
    - intros [r H].
      destruct (to_result_coded V json_ser (hr_body h)) as [r0|]; [|discriminate].
      destruct (to_map (hr_declared h) []) as [m|]; [|discriminate].
      destruct (insert_declared (r_headers r0) m) as [hs|] eqn:E2; [|discriminate].
      exists r0, m. repeat split; auto;
        apply (proj1 (insert_declared_ok_iff m (r_headers r0)) (ex_intro _ hs E2) k v H0).
    - intros (r0 & m & -> & -> & Hall).
      apply (insert_declared_ok_iff m (r_headers r0)) in Hall as [hs ->]. eauto.
  Qed.

  (* a sufficient condition in terms of the declared fields themselves *)
  Lemma to_result_headers_ok h r0 :
    to_result_coded V json_ser (hr_body h) = Ok r0 ->
    (forall k f, In (k, f) (hr_declared h) ->
                 exists v, f = FStr v /\ header_name k <> None /\ header_legal v = true) ->
    exists r, to_result_headers V json_ser h = Ok r.
  Proof.
    intros H0 Hall. apply to_result_headers_ok_iff.
    destruct (proj2 (to_map_all_str (hr_declared h) [])) as [m Hm].
    { intros k f Hin. destruct (Hall k f Hin) as (v & -> & _). eauto. }
    exists r0, m. repeat split; auto;
      (destruct (to_map_inv _ _ _ _ _ Hm H) as [[]|Hin];
       destruct (Hall _ _ Hin) as (v' & [= <-] & H1 & H2); auto).
  Qed.

  (* C12 clause 1 *)
  Theorem status_and_body (json_de : str -> option V)
          (roundtrip : forall v b, json_ser v = Some b -> json_de b = Some v) :
    forall c r, to_result_coded V json_ser c = Ok r ->
    r_status r = status_of c /\
    match payload_of c with
    | Some (PJson v) =>
        exists b, r_body r = BBytes b /\ json_de b = Some v /\
                  hm_get (r_headers r) H_CONTENT_TYPE = Some [CT_JSON]
    | Some (PFreeform b) => r_body r = BBytes b
    | None => r_body r = BEmpty /\ r_headers r = []
    end.
  Proof.
    intros c r H. apply to_result_coded_spec in H as [Hs H]. split; auto.
    destruct (payload_of c) as [[v|b]|].
    - destruct H as (bb & Hser & Hb & Hh). exists bb. rewrite Hh. repeat split; auto.
    - tauto.
    - tauto.
  Qed.

  (* the wrapper changes neither status nor body *)
  Theorem headers_keep_status_and_body : forall h r,
    to_result_headers V json_ser h = Ok r ->
    exists r0, to_result_coded V json_ser (hr_body h) = Ok r0 /\
               r_status r = status_of (hr_body h) /\ r_body r = r_body r0.
  Proof.
    unfold to_result_headers, bind. intros h r.
    destruct (to_result_coded V json_ser (hr_body h)) as [r0|] eqn:E0; [|discriminate].
    destruct (to_map (hr_declared h) []) as [m|]; [|discriminate].
    destruct (insert_declared (r_headers r0) m) as [hs|]; [|discriminate].
    intros [= <-]. exists r0. cbn [r_status r_body]. repeat split; auto.
    apply to_result_coded_spec in E0. tauto.
  Qed.

  (* C12 clause 2 *)
  Theorem declared_headers_sent : forall h r,
    to_result_headers V json_ser h = Ok r ->
    hm_wf (hr_explicit h) = true ->
    NoDup (map (fun f => header_name (fst f)) (hr_declared h)) ->
    forall k v, In (k, FStr v) (hr_declared h) ->
    exists n, header_name k = Some n /\
      hm_get (r_headers r) n =
      match hm_get (hr_explicit h) n with Some vs => Some vs | None => Some [v] end.
  Proof.
    intros h r Hres Hwf Hnd k v Hin.
    pose proof (proj1 (to_result_headers_ok_iff h) (ex_intro _ r Hres))
      as (r0' & m' & _ & Hm' & Hvalid).
    destruct (to_result_headers_get h r Hres Hwf) as (r0 & m & _ & Hm & _ & _ & Hget).
    rewrite Hm in Hm'. injection Hm' as <-.
    assert (Hnd1 : NoDup (map fst (hr_declared h))).
    { clear -Hnd. induction (hr_declared h) as [|f t IH]; cbn [map] in *; [constructor|].
      inversion Hnd as [|? ? Hx Ht]; subst. constructor; auto.
      intros Hc. apply Hx. apply in_map_iff in Hc as (g & Hg & Hing).
      apply in_map_iff. exists g. rewrite Hg. auto. }
    pose proof (to_map_in _ _ _ _ _ Hnd1 Hm Hin) as Hinm.
    destruct (Hvalid k v Hinm) as [Hname _].
    destruct (header_name k) as [n|] eqn:Ek; [|congruence].
    exists n. split; auto. rewrite Hget.
    destruct (hm_get (hr_explicit h) n); auto.
    rewrite (declared_value_unique m n v); auto.
    - exists k; auto.
    - intros a b Hab Ha.
      destruct (to_map_inv _ _ _ _ _ Hm Hab) as [[]|Hfield].
      (* two fields with the same header name are the same field *)
      assert (Heq : (a, FStr b) = (k, FStr v)).
      { clear -Hnd Hin Hfield Ha Ek.
        revert Hnd Hin Hfield. induction (hr_declared h) as [|f t IH]; cbn [map In]; [tauto|].
        intros Hnd [H1|H1] [H2|H2]; inversion Hnd as [|? ? Hx Ht]; subst.
        - congruence.
        - exfalso. apply Hx. apply in_map_iff. exists (a, FStr b). cbn [fst].
          rewrite Ha, Ek. auto.
        - exfalso. apply Hx. apply in_map_iff. exists (k, FStr v). cbn [fst].
          rewrite Ha, Ek. auto.
        - auto. }
      congruence.
  Qed.

  (* C12 clause 3 *)
  Theorem explicit_overrides_declared : forall h r,
    to_result_headers V json_ser h = Ok r ->
    hm_wf (hr_explicit h) = true ->
    forall n vs, hm_get (hr_explicit h) n = Some vs -> hm_get (r_headers r) n = Some vs.
  Proof.
    intros h r Hres Hwf n vs Hn.
    destruct (to_result_headers_get h r Hres Hwf) as (r0 & m & _ & _ & _ & _ & Hget).
    rewrite Hget, Hn. reflexivity.
  Qed.

  (* names that are neither declared nor explicit keep what the body set
     (content-type) *)
  Theorem other_headers_untouched : forall h r,
    to_result_headers V json_ser h = Ok r ->
    hm_wf (hr_explicit h) = true ->
    forall n, hm_get (hr_explicit h) n = None ->
    (forall k f, In (k, f) (hr_declared h) -> header_name k <> Some n) ->
    exists r0, to_result_coded V json_ser (hr_body h) = Ok r0 /\
               hm_get (r_headers r) n = hm_get (r_headers r0) n.
  Proof.
    intros h r Hres Hwf n Hn Hdecl.
    destruct (to_result_headers_get h r Hres Hwf) as (r0 & m & H0 & Hm & _ & _ & Hget).
    exists r0. split; auto. rewrite Hget, Hn.
    destruct (declared_value m n) as [x|] eqn:E; auto.
    apply declared_value_in in E as (a & Hin & Ha).
    destruct (to_map_inv _ _ _ _ _ Hm Hin) as [[]|Hf].
    exfalso. apply (Hdecl _ _ Hf Ha).
  Qed.

  Theorem result_headers_wf : forall h r,
    to_result_headers V json_ser h = Ok r -> hm_wf (r_headers r) = true.
  Proof.
    unfold to_result_headers, bind. intros h r.
    destruct (to_result_coded V json_ser (hr_body h)) as [r0|] eqn:E0; [|discriminate].
    destruct (to_map (hr_declared h) []) as [m|]; [|discriminate].
    destruct (insert_declared (r_headers r0) m) as [hs|] eqn:E2; [|discriminate].
    intros [= <-]. cbn [r_headers]. apply hm_wf_extend.
    eapply insert_declared_wf; eauto. eapply to_result_coded_wf; eauto.
  Qed.

  (* C12 clause 4 *)
  Definition is_redirect_status (c : coded V) : bool :=
    match c with
    | RFoundStatus | RSeeOtherStatus | RTemporaryRedirectStatus => true
    | _ => false
    end.

  Theorem redirect_location : forall (st : coded V) loc,
    is_redirect_status st = true ->
    (is_ok (redirect st loc) = header_legal loc) /\
    (header_legal loc = false -> redirect st loc = Err 500) /\
    (forall h, redirect st loc = Ok h ->
       to_result_headers V json_ser h =
       Ok (mkResponse (status_of st) [(H_LOCATION, [loc])] BEmpty)).
  Proof.
    intros st loc Hst. unfold redirect.
    destruct (header_legal loc) eqn:El; cbn [is_ok]; repeat split; try discriminate; auto.
    intros h [= <-].
    unfold to_result_headers, bind. cbn [hr_body hr_declared hr_explicit].
    destruct st; try discriminate Hst;
      cbn [to_result_coded empty_to_response to_map bt_insert insert_declared r_headers
           r_status r_body status_of];
      (replace (header_name H_LOCATION) with (Some H_LOCATION) by (vm_compute; reflexivity));
      rewrite El; reflexivity.
  Qed.

  (* headers added with headers_mut() take precedence over Location too *)
  Theorem redirect_location_explicit : forall (st : coded V) loc h m r,
    is_redirect_status st = true -> redirect st loc = Ok h -> hm_wf m = true ->
    to_result_headers V json_ser (with_explicit h m) = Ok r ->
    r_status r = status_of st /\ r_body r = BEmpty /\
    hm_get (r_headers r) H_LOCATION =
      match hm_get m H_LOCATION with Some vs => Some vs | None => Some [loc] end.
  Proof.
    intros st loc h m r Hst Hred Hwf Hres.
    unfold redirect in Hred. destruct (header_legal loc) eqn:El; [|discriminate].
    injection Hred as <-.
    destruct (to_result_headers_get _ r Hres Hwf) as (r0 & mm & H0 & Hm & Hs & Hb & Hget).
    cbn [with_explicit hr_body hr_declared hr_explicit] in *.
    cbn [to_map bt_insert] in Hm. injection Hm as <-.
    rewrite Hget, Hs, Hb.
    destruct st; try discriminate Hst;
      cbn [to_result_coded] in H0; unfold empty_to_response in H0; injection H0 as <-;
      cbn [r_status r_body r_headers status_of];
      (repeat split; auto);
      destruct (hm_get m H_LOCATION); auto.
  Qed.
End TypedProofs.
