(* MacroProofs.v — the expansion of an endpoint/channel declaration carries
   exactly what the declaration says, in every form of the macro. *)
From DS Require Import Base Versions VersionsProofs Semver SemverProofs DocComment DocCommentProofs Macro.

(* the concrete semver order is a total order (as in props/C05.v) *)
Lemma semver_total_order : total_order version Semver.cmp Semver.bot.
Proof.
  exact (Build_total_order _ _ _ cmp_eq_strong SemverProofs.cmp_refl SemverProofs.cmp_antisym
           SemverProofs.cmp_trans bot_min_strong).
Qed.

(* ---------- content types ---------- *)

Lemma from_mime_vct c :
  from_mime_type (vct_str c) =
  Some match c with VJson => CTJson | VUrlEncoded => CTUrlEncoded | VMultipart => CTMultipart end.
Proof. destruct c; reflexivity. Qed.

Definition ctype_of_vct (c : vct) : ctype :=
  match c with VJson => CTJson | VUrlEncoded => CTUrlEncoded | VMultipart => CTMultipart end.

(* ---------- versions ---------- *)

Definition rvalue (r : rspec) : version :=
  match r with RLit v => v | RIdent _ v => v end.
Definition rlit (r : rspec) : bool := match r with RLit _ => true | _ => false end.
Definition slit (x : vspec) : bool := match x with SLit _ => true | _ => false end.

Lemma plain_eta v : is_plain v = true -> mkVersion (major v) (minor v) (patch v) [] [] = v.
Proof.
  destruct v as [M m p pr b]. unfold is_plain. cbn [pre build major minor patch].
  destruct pr; destruct b; cbn; try discriminate. reflexivity.
Qed.

Lemma parse_semver_ok s v : parse_semver s = Ok v <-> Semver.parse s = Some v /\ is_plain v = true.
Proof.
  unfold parse_semver, is_plain. destruct (Semver.parse s) as [w|]; [|split; [discriminate|intros [H _]; discriminate]].
  destruct (pre w) eqn:P; destruct (build w) eqn:B; cbn [is_nil negb andb];
    split; try discriminate.
  - intros [= ->]. rewrite P, B. auto.
  - intros [[= ->] _]. reflexivity.
  - intros [[= <-] H]. rewrite P, B in H. discriminate.
  - intros [[= <-] H]. rewrite P in H. discriminate.
  - intros [[= <-] H]. rewrite P in H. discriminate.
Qed.

Lemma parse_semver_err s e : parse_semver s = Err e ->
  match Semver.parse s with Some v => is_plain v = false | None => True end.
Proof.
  unfold parse_semver, is_plain. destruct (Semver.parse s) as [w|]; [|auto].
  destruct (pre w); destruct (build w); cbn [is_nil negb andb]; try discriminate; auto.
Qed.

(* a specifier parses iff it denotes a version; then it evaluates to it *)
Lemma parse_spec_ok x r :
  parse_spec x = Ok r ->
  spec_version x = Some (rvalue r) /\ eval_spec r = Ok (rvalue r) /\ rlit r = slit x.
Proof.
  destruct x as [s|n v]; cbn [parse_spec spec_version slit].
  - destruct (parse_semver s) as [v|e] eqn:E; cbn [bind]; [|discriminate].
    intros [= <-]. apply parse_semver_ok in E. destruct E as [E P].
    rewrite E, P. cbn [rvalue eval_spec rlit]. repeat split.
    unfold is_plain in P. rewrite P. now rewrite (plain_eta _ P).
  - intros [= <-]. cbn. auto.
Qed.

Lemma parse_spec_err x e : parse_spec x = Err e -> spec_version x = None.
Proof.
  destruct x as [s|n v]; cbn [parse_spec spec_version]; [|discriminate].
  destruct (parse_semver s) as [v|e'] eqn:E; cbn [bind]; [discriminate|].
  intros _. apply parse_semver_err in E. destruct (Semver.parse s); [now rewrite E|reflexivity].
Qed.

Lemma vltb_vleb a b : vltb b a = negb (vleb a b).
Proof.
  unfold vltb, vleb. rewrite (SemverProofs.cmp_antisym a b).
  destruct (Semver.cmp a b); reflexivity.
Qed.

Lemma from_until_vleb x y :
  from_until version Semver.cmp x y = if vleb x y then Ok (VFromUntil x y) else Err tt.
Proof.
  unfold from_until. change (vlt version Semver.cmp y x) with (vltb y x).
  rewrite vltb_vleb. destruct (vleb x y); reflexivity.
Qed.

(* [parse_versions] fails exactly when the argument does not compile ... *)
Lemma parse_versions_compile x :
  versions_compile x = is_ok (parse_versions x).
Proof.
  destruct x as [| |a|b|a b]; cbn [parse_versions versions_compile]; try reflexivity.
  - destruct (parse_spec a) as [r|e] eqn:E; cbn [bind is_ok].
    + destruct (parse_spec_ok _ _ E) as (S & _). now rewrite S.
    + now rewrite (parse_spec_err _ _ E).
  - destruct (parse_spec b) as [r|e] eqn:E; cbn [bind is_ok].
    + destruct (parse_spec_ok _ _ E) as (S & _). now rewrite S.
    + now rewrite (parse_spec_err _ _ E).
  - destruct (parse_spec a) as [ra|e] eqn:Ea; cbn [bind].
    2:{ now rewrite (parse_spec_err _ _ Ea). }
    destruct (parse_spec_ok _ _ Ea) as (Sa & _ & La). rewrite Sa.
    destruct (parse_spec b) as [rb|e] eqn:Eb; cbn [bind].
    2:{ now rewrite (parse_spec_err _ _ Eb). }
    destruct (parse_spec_ok _ _ Eb) as (Sb & _ & Lb). rewrite Sb.
    destruct ra as [va|na va]; destruct rb as [vb|nb vb];
      destruct a as [sa|? ?]; destruct b as [sb|? ?]; cbn [rlit slit] in La, Lb; try discriminate;
      cbn [rvalue]; try reflexivity.
    rewrite vltb_vleb. destruct (vleb va vb); reflexivity.
Qed.

(* ... and when it succeeds, evaluating the range gives the declared range,
   or panics in from_until(..).unwrap() when there is none *)
Lemma eval_versions_declared x r :
  parse_versions x = Ok r ->
  eval_versions (unwrap_or_all r) =
  match declared_range x with Some v => Ok v | None => Err PanicFromUntil end.
Proof.
  destruct x as [| |a|b|a b]; cbn [parse_versions declared_range].
  - intros [= <-]. reflexivity.
  - intros [= <-]. reflexivity.
  - destruct (parse_spec a) as [ra|e] eqn:E; cbn [bind]; [|discriminate].
    intros [= <-]. destruct (parse_spec_ok _ _ E) as (S & V & _). rewrite S.
    cbn [unwrap_or_all eval_versions option_map]. now rewrite V.
  - destruct (parse_spec b) as [rb|e] eqn:E; cbn [bind]; [|discriminate].
    intros [= <-]. destruct (parse_spec_ok _ _ E) as (S & V & _). rewrite S.
    cbn [unwrap_or_all eval_versions option_map]. now rewrite V.
  - destruct (parse_spec a) as [ra|e] eqn:Ea; cbn [bind]; [|discriminate].
    destruct (parse_spec_ok _ _ Ea) as (Sa & Va & _). rewrite Sa.
    destruct (parse_spec b) as [rb|e] eqn:Eb; cbn [bind]; [|discriminate].
    destruct (parse_spec_ok _ _ Eb) as (Sb & Vb & _). rewrite Sb.
    assert (Hev : eval_versions (RFromUntil ra rb) =
                  if vleb (rvalue ra) (rvalue rb)
                  then Ok (VFromUntil (rvalue ra) (rvalue rb)) else Err PanicFromUntil).
    { cbn [eval_versions]. rewrite Va, Vb. cbn [bind]. rewrite from_until_vleb.
      destruct (vleb (rvalue ra) (rvalue rb)); reflexivity. }
    intros H.
    assert (r = Some (RFromUntil ra rb)) as ->.
    { destruct ra, rb; try (now inversion H).
      destruct (vltb v0 v); now inversion H. }
    cbn [unwrap_or_all]. rewrite Hev. destruct (vleb (rvalue ra) (rvalue rb)); reflexivity.
Qed.

(* ---------- the builder chain ---------- *)

Lemma fold_push_tag ts : forall e,
  let e' := fold_left push_tag ts e in
  e_tags e' = e_tags e ++ ts /\
  e_opid e' = e_opid e /\ e_handler e' = e_handler e /\ e_method e' = e_method e /\
  e_path e' = e_path e /\ e_body_param e' = e_body_param e /\ e_ctype e' = e_ctype e /\
  e_maxbytes e' = e_maxbytes e /\ e_summary e' = e_summary e /\
  e_description e' = e_description e /\ e_websocket e' = e_websocket e /\
  e_visible e' = e_visible e /\ e_deprecated e' = e_deprecated e /\ e_versions e' = e_versions e.
Proof.
  induction ts as [|t ts IH]; intros e; cbn [fold_left].
  - cbn. rewrite app_nil_r. repeat split.
  - specialize (IH (push_tag e t)). cbn zeta in *.
    destruct IH as (H1 & H2 & H3 & H4 & H5 & H6 & H7 & H8 & H9 & H10 & H11 & H12 & H13 & H14).
    rewrite H1, H2, H3, H4, H5, H6, H7, H8, H9, H10, H11, H12, H13, H14.
    cbn. rewrite <- app_assoc. repeat split.
Qed.

(* the value of the whole builder-call sequence, field by field *)
Definition built (st : style) (name : str) (doc : extracted) (m : validated) (versions : vr)
  : endpoint :=
  let opid := match vm_opid m with Some s => s | None => name end in
  let c := ctype_of_vct (vm_ctype m) in
  mkEndpoint opid (handler_of st (vm_channel m) name opid) (vm_method m) (vm_path m)
    (body_param c (vm_body m)) c (vm_maxbytes m) (summary doc) (description doc) (vm_tags m)
    (vm_channel m) (negb (vm_unpublished m)) (vm_deprecated m) versions.

Lemma endpoint_ext e1 e2 :
  e_opid e1 = e_opid e2 -> e_handler e1 = e_handler e2 -> e_method e1 = e_method e2 ->
  e_path e1 = e_path e2 -> e_body_param e1 = e_body_param e2 -> e_ctype e1 = e_ctype e2 ->
  e_maxbytes e1 = e_maxbytes e2 -> e_summary e1 = e_summary e2 ->
  e_description e1 = e_description e2 -> e_tags e1 = e_tags e2 ->
  e_websocket e1 = e_websocket e2 -> e_visible e1 = e_visible e2 ->
  e_deprecated e1 = e_deprecated e2 -> e_versions e1 = e_versions e2 -> e1 = e2.
Proof. destruct e1, e2; cbn; intros; subst; reflexivity. Qed.

Lemma to_api_endpoint_built st name doc m versions :
  eval_versions (vm_versions m) = Ok versions ->
  to_api_endpoint st name doc m = Ok (built st name doc m versions).
Proof.
  intros Hv. unfold to_api_endpoint. rewrite Hv. cbn [bind].
  set (opid := match vm_opid m with Some s => s | None => name end).
  assert (He0 : (match st with
           | TraitStub => ep_new_for_types opid (vm_method m) (vct_str (vm_ctype m)) (vm_path m)
                            versions (vm_body m) (vm_channel m)
           | _ => ep_new opid (handler_of st (vm_channel m) name opid) (vm_method m)
                    (vct_str (vm_ctype m)) (vm_path m) versions (vm_body m) (vm_channel m)
           end) =
          Ok (mkEndpoint opid (handler_of st (vm_channel m) name opid) (vm_method m) (vm_path m)
                (body_param (ctype_of_vct (vm_ctype m)) (vm_body m)) (ctype_of_vct (vm_ctype m))
                None None None [] (vm_channel m) true false versions)).
  { unfold ep_new, ep_new_for_types. rewrite from_mime_vct. fold (ctype_of_vct (vm_ctype m)).
    destruct st; try reflexivity; try (destruct (vm_channel m); reflexivity). }
  rewrite He0. cbn [bind]. f_equal.
  match goal with |- opt_call ?mb set_maxbytes (opt_call ?dp set_deprecated
       (opt_call ?vs set_visible (fold_left push_tag ?ts ?e2))) = _ =>
    pose proof (fold_push_tag ts e2) as HF end.
  cbn zeta in HF.
  destruct HF as (H1 & H2 & H3 & H4 & H5 & H6 & H7 & H8 & H9 & H10 & H11 & H12 & H13 & H14).
  unfold built. fold opid.
  apply endpoint_ext;
    destruct (vm_maxbytes m), (vm_deprecated m), (vm_unpublished m);
    cbn [opt_call then_some set_maxbytes set_deprecated set_visible
         e_opid e_handler e_method e_path e_body_param e_ctype e_maxbytes e_summary
         e_description e_tags e_websocket e_visible e_deprecated e_versions negb];
    rewrite ?H1, ?H2, ?H3, ?H4, ?H5, ?H6, ?H7, ?H8, ?H9, ?H10, ?H11, ?H12, ?H13, ?H14;
    destruct (summary doc), (description doc); reflexivity.
Qed.

(* ---------- validation ---------- *)

Lemma declared_ctype_endpoint m ct mb bd a :
  a_kind a = KEndpoint m ct mb bd ->
  declared_ctype a = match ct with
                     | Some s => option_map ctype_of_vct (vct_parse s)
                     | None => Some CTJson
                     end.
Proof.
  intros K. unfold declared_ctype. rewrite K. destruct ct as [s|]; [|reflexivity].
  unfold vct_parse. destruct (str_eqb s s_json); [reflexivity|].
  destruct (str_eqb s s_urlenc); [reflexivity|]. destruct (str_eqb s s_multipart); reflexivity.
Qed.

Definition validated_of (a : attr) (c : ctype) (r : option rrange) (m : validated) : Prop :=
  vm_opid m = a_opid a /\ vm_method m = declared_method a /\ vm_path m = a_path a /\
  vm_tags m = a_tags a /\ vm_unpublished m = a_unpublished a /\
  vm_deprecated m = a_deprecated a /\ vm_maxbytes m = declared_maxbytes a /\
  ctype_of_vct (vm_ctype m) = c /\ vm_versions m = unwrap_or_all r /\
  vm_body m = declared_body a /\ vm_channel m = is_channel a.

Ltac fin :=
  repeat match goal with
  | |- _ /\ _ => split
  | |- _ <-> _ => split
  | |- exists c, Some ?x = Some c /\ _ => exists x
  end;
  try reflexivity; try discriminate;
  try (intros; cbn [In] in *; intuition (subst; auto; try discriminate; try congruence)).

Lemma validate_spec a r :
  match validate a r with
  | Ok m => is_some (declared_ctype a) && path_ok a = true /\
            exists c, declared_ctype a = Some c /\ validated_of a c r m
  | Err errs => is_some (declared_ctype a) && path_ok a = false /\ errs <> [] /\
                (forall e, In e errs -> e = EWildcardPublished \/ e = EContentType \/ e = EChannelWildcard) /\
                (In EWildcardPublished errs <->
                   is_channel a = false /\ is_wildcard_path (a_path a) = true /\ a_unpublished a = false) /\
                (In EContentType errs <-> declared_ctype a = None) /\
                (In EChannelWildcard errs <-> is_channel a = true /\ is_wildcard_path (a_path a) = true)
  end.
Proof.
  unfold validate, path_ok, validated_of, declared_method, declared_maxbytes, declared_body, is_channel.
  destruct (a_kind a) as [m ct mb bd|] eqn:K.
  - rewrite (declared_ctype_endpoint _ _ _ _ _ K).
    destruct (is_wildcard_path (a_path a)) eqn:W; destruct (a_unpublished a) eqn:U;
      cbn [negb andb orb app];
      (destruct ct as [s|]; [destruct (vct_parse s) as [c|] eqn:P|]);
      cbn [option_map is_some app andb]; fin.
  - unfold declared_ctype. rewrite K. cbn [is_some andb].
    destruct (is_wildcard_path (a_path a)) eqn:W; cbn [negb]; fin.
Qed.

(* ---------- the main characterisation of [expand] ---------- *)

Definition expected (st : style) (a : attr) (r : vr) (c : ctype) : endpoint :=
  mkEndpoint (declared_opid a)
    (handler_of st (is_channel a) (a_name a) (declared_opid a))
    (declared_method a) (a_path a) (body_param c (declared_body a)) c (declared_maxbytes a)
    (summary (extract (a_docs a))) (description (extract (a_docs a))) (a_tags a)
    (is_channel a) (negb (a_unpublished a)) (a_deprecated a) r.

Theorem expand_compiles st a :
  compiles a = true ->
  expand st a =
  match declared_range (a_versions a), declared_ctype a with
  | Some r, Some c => Ok (expected st a r c)
  | _, _ => Err PanicFromUntil
  end.
Proof.
  unfold compiles. rewrite parse_versions_compile. intros H.
  apply andb_true_iff in H. destruct H as [H HP].
  apply andb_true_iff in H. destruct H as [HV HC].
  unfold expand.
  destruct (parse_versions (a_versions a)) as [r|e] eqn:EP; [|discriminate].
  pose proof (validate_spec a r) as HS.
  destruct (validate a r) as [m|errs] eqn:EV.
  2:{ destruct HS as (HS & _). rewrite HC, HP in HS. discriminate. }
  destruct HS as (_ & c & Hc & HM). rewrite Hc.
  destruct HM as (M1 & M2 & M3 & M4 & M5 & M6 & M7 & M8 & M9 & M10 & M11).
  pose proof (eval_versions_declared _ _ EP) as HE. rewrite <- M9 in HE.
  destruct (declared_range (a_versions a)) as [v|].
  - rewrite (to_api_endpoint_built _ _ _ _ _ HE). f_equal.
    unfold built, expected, declared_opid.
    rewrite M1, M2, M3, M4, M5, M6, M7, M8, M10, M11. reflexivity.
  - unfold to_api_endpoint. rewrite HE. reflexivity.
Qed.

Theorem expand_refuses st a :
  compiles a = false -> exists l, l <> [] /\ expand st a = Err (CompileErrors l).
Proof.
  unfold compiles. rewrite parse_versions_compile. intros H. unfold expand.
  destruct (parse_versions (a_versions a)) as [r|e] eqn:EP.
  - cbn [is_ok andb] in H. pose proof (validate_spec a r) as HS.
    destruct (validate a r) as [m|errs].
    + destruct HS as (HS & _). rewrite HS in H. discriminate.
    + destruct HS as (_ & Hne & _). exists errs. auto.
  - exists [e]. split; [discriminate|reflexivity].
Qed.

(* ---------- 1. every field is the declared one ---------- *)

Theorem fields_as_declared st a e :
  expand st a = Ok e ->
  exists r c, declared_range (a_versions a) = Some r /\ declared_ctype a = Some c /\
              e = expected st a r c.
Proof.
  intros H. destruct (compiles a) eqn:C.
  - rewrite (expand_compiles _ _ C) in H.
    destruct (declared_range (a_versions a)) as [r|]; [|discriminate].
    destruct (declared_ctype a) as [c|]; [|discriminate].
    injection H as <-. eauto.
  - destruct (expand_refuses st _ C) as (l & _ & E). rewrite E in H. discriminate.
Qed.

Lemma declared_compile x : is_some (declared_range x) = true -> versions_compile x = true.
Proof.
  destruct x as [| |a|b|a b]; cbn [declared_range versions_compile]; auto.
  - destruct (spec_version a); auto.
  - destruct (spec_version b); auto.
  - destruct (spec_version a) as [x|]; [|discriminate].
    destruct (spec_version b) as [y|]; [|discriminate].
    destruct (vleb x y); [|discriminate]. destruct a, b; reflexivity.
Qed.

Lemma accepted_compiles a : accepted a = true -> compiles a = true.
Proof.
  unfold accepted, compiles. intros H.
  apply andb_true_iff in H. destruct H as [H HP].
  apply andb_true_iff in H. destruct H as [HR HC].
  now rewrite (declared_compile _ HR), HC, HP.
Qed.

(* the macro produces an endpoint exactly for the accepted declarations *)
Theorem expand_ok_iff st a : is_ok (expand st a) = accepted a.
Proof.
  destruct (compiles a) eqn:C.
  - rewrite (expand_compiles _ _ C). unfold accepted.
    unfold compiles in C. apply andb_true_iff in C. destruct C as [C HP].
    apply andb_true_iff in C. destruct C as [_ HC]. rewrite HC, HP, !andb_true_r.
    destruct (declared_range (a_versions a)); [|reflexivity].
    destruct (declared_ctype a); [reflexivity|discriminate].
  - destruct (expand_refuses st _ C) as (l & _ & E). rewrite E. cbn [is_ok].
    destruct (accepted a) eqn:A; [|reflexivity].
    rewrite (accepted_compiles _ A) in C. discriminate.
Qed.

(* refused at macro time exactly when it does not compile; the one
   construction-time panic is a from-until pair through constants in the wrong
   order; the other two panics in the expansion's path can never fire *)
Theorem expand_error_classes st a :
  match expand st a with
  | Ok _ => accepted a = true
  | Err (CompileErrors l) => compiles a = false /\ l <> []
  | Err PanicFromUntil => compiles a = true /\ accepted a = false
  | Err PanicMime => False
  | Err PanicSemverParts => False
  end.
Proof.
  pose proof (expand_ok_iff st a) as HO.
  destruct (compiles a) eqn:C.
  - rewrite (expand_compiles _ _ C) in *.
    destruct (declared_range (a_versions a)); [destruct (declared_ctype a)|]; cbn [is_ok] in HO; auto.
  - destruct (expand_refuses st _ C) as (l & Hl & E). rewrite E. auto.
Qed.

(* the error list names the refused argument *)
Theorem wildcard_needs_unpublished st a m ct mb bd :
  a_kind a = KEndpoint m ct mb bd -> is_wildcard_path (a_path a) = true ->
  a_unpublished a = false ->
  exists l, expand st a = Err (CompileErrors l).
Proof.
  intros K W U. destruct (expand_refuses st a) as (l & _ & E); [|eauto].
  unfold compiles, path_ok. rewrite K, W, U. cbn. now rewrite andb_false_r.
Qed.

Theorem channel_wildcard_refused st a :
  a_kind a = KChannel -> is_wildcard_path (a_path a) = true ->
  exists l, expand st a = Err (CompileErrors l).
Proof.
  intros K W. destruct (expand_refuses st a) as (l & _ & E); [|eauto].
  unfold compiles, path_ok. rewrite K, W. cbn. now rewrite andb_false_r.
Qed.

Theorem wildcard_unpublished_accepted a :
  is_channel a = false -> a_unpublished a = true -> path_ok a = true.
Proof.
  unfold is_channel, path_ok. destruct (a_kind a); [|discriminate].
  intros _ ->. apply orb_true_r.
Qed.

Theorem bad_content_type_refused st a m s mb bd :
  a_kind a = KEndpoint m (Some s) mb bd -> vct_parse s = None ->
  exists l, expand st a = Err (CompileErrors l).
Proof.
  intros K P. destruct (expand_refuses st a) as (l & _ & E); [|eauto].
  unfold compiles. rewrite (declared_ctype_endpoint _ _ _ _ _ K), P. cbn.
  now rewrite andb_false_r.
Qed.

(* ---------- 2. the three forms agree up to the handler ---------- *)

Definition view (st : style) (a : attr) : res xerr endpoint :=
  match expand st a with Ok e => Ok (erase_handler e) | Err x => Err x end.

Lemma erase_expected st st' a r c :
  erase_handler (expected st a r c) = erase_handler (expected st' a r c).
Proof. reflexivity. Qed.

Lemma eval_spec_not_compile x l : eval_spec x <> Err (CompileErrors l).
Proof. destruct x; cbn [eval_spec]; [destruct (is_nil (pre v) && is_nil (build v))|]; discriminate. Qed.

Lemma eval_versions_not_compile r l : eval_versions r <> Err (CompileErrors l).
Proof.
  destruct r as [|a|b|a b]; cbn [eval_versions]; try discriminate.
  - pose proof (eval_spec_not_compile a l). destruct (eval_spec a); cbn [bind]; congruence.
  - pose proof (eval_spec_not_compile b l). destruct (eval_spec b); cbn [bind]; congruence.
  - pose proof (eval_spec_not_compile a l). pose proof (eval_spec_not_compile b l).
    destruct (eval_spec a); cbn [bind]; [|congruence].
    destruct (eval_spec b); cbn [bind]; [|congruence].
    destruct (from_until version Semver.cmp a0 a1); discriminate.
Qed.

Lemma to_api_endpoint_not_compile st n d m l :
  to_api_endpoint st n d m <> Err (CompileErrors l).
Proof.
  unfold to_api_endpoint.
  pose proof (eval_versions_not_compile (vm_versions m) l).
  destruct (eval_versions (vm_versions m)); cbn [bind]; [|congruence].
  unfold ep_new, ep_new_for_types. rewrite from_mime_vct.
  destruct st; cbn [bind]; discriminate.
Qed.

Theorem styles_agree st st' a : view st a = view st' a.
Proof.
  unfold view. destruct (compiles a) eqn:C.
  - rewrite !(expand_compiles _ _ C).
    destruct (declared_range (a_versions a)); [destruct (declared_ctype a)|]; reflexivity.
  - (* a refusal does not depend on the form either *)
    destruct (expand_refuses st _ C) as (l & _ & E).
    destruct (expand_refuses st' _ C) as (l' & _ & E').
    rewrite E, E'. unfold expand in E, E'.
    destruct (parse_versions (a_versions a)) as [r|e]; [|congruence].
    destruct (validate a r) as [m|errs]; [|congruence].
    exfalso. exact (to_api_endpoint_not_compile _ _ _ _ _ E).
Qed.

(* hence identical routing and identical documents *)
Corollary styles_route_doc st st' a e e' :
  expand st a = Ok e -> expand st' a = Ok e' ->
  (forall v, route_view e v = route_view e' v) /\ (forall v, doc_view e v = doc_view e' v) /\
  e_method e = e_method e' /\ e_path e = e_path e'.
Proof.
  intros H H'. pose proof (styles_agree st st' a) as HA. unfold view in HA.
  rewrite H, H' in HA.
  apply (f_equal (fun r => match r with Ok x => x | Err _ => erase_handler e end)) in HA.
  cbv beta iota in HA.
  assert (forall x y, erase_handler x = erase_handler y ->
            e_opid x = e_opid y /\ e_method x = e_method y /\ e_path x = e_path y /\
            e_body_param x = e_body_param y /\ e_ctype x = e_ctype y /\
            e_maxbytes x = e_maxbytes y /\ e_summary x = e_summary y /\
            e_description x = e_description y /\ e_tags x = e_tags y /\
            e_websocket x = e_websocket y /\ e_visible x = e_visible y /\
            e_deprecated x = e_deprecated y /\ e_versions x = e_versions y) as HX.
  { intros x y Hxy. destruct x, y. cbn in *. injection Hxy. intros; subst. repeat split. }
  destruct (HX _ _ HA) as (H1 & H2 & H3 & H4 & H5 & H6 & H7 & H8 & H9 & H10 & H11 & H12 & H13).
  repeat split; auto; intros v; unfold route_view, doc_view;
    rewrite ?H1, ?H4, ?H5, ?H6, ?H7, ?H8, ?H9, ?H10, ?H11, ?H12, ?H13; reflexivity.
Qed.

(* only the handler differs, and it is the one the form names *)
Theorem handler_as_declared st a e :
  expand st a = Ok e ->
  e_handler e = handler_of st (is_channel a) (a_name a) (declared_opid a).
Proof.
  intros H. destruct (fields_as_declared _ _ _ H) as (r & c & _ & _ & ->). reflexivity.
Qed.

(* ---------- 4. the syntax of the [versions] argument ---------- *)

Lemma spec_version_lit s x :
  spec_version (SLit s) = Some x <-> parse_semver s = Ok x.
Proof.
  rewrite parse_semver_ok. cbn [spec_version].
  destruct (Semver.parse s) as [v|]; [|split; [discriminate|intros [H _]; discriminate]].
  destruct (is_plain v) eqn:P; split.
  - intros [= <-]. auto.
  - intros [[= <-] _]. reflexivity.
  - discriminate.
  - intros [[= <-] H]. congruence.
Qed.

(* a plain MAJOR.MINOR.PATCH literal denotes that version *)
Theorem literal_plain M m p :
  M <= u64_max -> m <= u64_max -> p <= u64_max ->
  spec_version (SLit (Semver.print (plain M m p))) = Some (plain M m p).
Proof.
  intros HM Hm Hp. cbn [spec_version]. rewrite parse_print.
  - reflexivity.
  - unfold wf_version, plain. cbn [major minor patch pre build forallb].
    apply N.leb_le in HM, Hm, Hp. now rewrite HM, Hm, Hp.
Qed.

(* pre-release and build metadata are refused, as is anything semver refuses *)
Theorem literal_refusals s :
  (Semver.parse s = None -> parse_semver s = Err ESemver) /\
  (forall v, Semver.parse s = Some v -> pre v <> [] -> parse_semver s = Err EPrerelease) /\
  (forall v, Semver.parse s = Some v -> pre v = [] -> build v <> [] -> parse_semver s = Err EBuild) /\
  (forall v, parse_semver s = Ok v -> pre v = [] /\ build v = [] /\ Semver.parse s = Some v).
Proof.
  unfold parse_semver. repeat split.
  - now intros ->.
  - intros v -> H. destruct (pre v); [congruence|reflexivity].
  - intros v -> H1 H2. rewrite H1. destruct (build v); [congruence|reflexivity].
  - destruct (Semver.parse s) as [w|]; [|discriminate].
    destruct (pre w) eqn:P; cbn [is_nil negb] in H; [|discriminate].
    destruct (build w) eqn:B; cbn [is_nil negb] in H; [|discriminate]. now injection H as <-.
  - destruct (Semver.parse s) as [w|]; [|discriminate].
    destruct (pre w) eqn:P; cbn [is_nil negb] in H; [|discriminate].
    destruct (build w) eqn:B; cbn [is_nil negb] in H; [|discriminate]. now injection H as <-.
  - destruct (Semver.parse s) as [w|]; [|discriminate].
    destruct (pre w) eqn:P; cbn [is_nil negb] in H; [|discriminate].
    destruct (build w) eqn:B; cbn [is_nil negb] in H; [|discriminate]. now injection H as <-.
Qed.

(* a literal pair is refused at macro time exactly when until < from *)
Theorem literal_pair_order sa sb x y :
  spec_version (SLit sa) = Some x -> spec_version (SLit sb) = Some y ->
  parse_versions (VSFromUntil (SLit sa) (SLit sb)) =
  if vltb y x then Err EOrder else Ok (Some (RFromUntil (RLit x) (RLit y))).
Proof.
  intros Ha Hb. apply spec_version_lit in Ha, Hb.
  cbn [parse_versions parse_spec]. rewrite Ha, Hb. cbn [bind]. reflexivity.
Qed.

(* a pair involving a constant is not checked by the macro; construction
   panics exactly when until < from *)
Theorem ident_pair_order a b x y :
  slit a && slit b = false -> spec_version a = Some x -> spec_version b = Some y ->
  exists ra rb, parse_versions (VSFromUntil a b) = Ok (Some (RFromUntil ra rb)) /\
    eval_versions (RFromUntil ra rb) =
    if vltb y x then Err PanicFromUntil else Ok (VFromUntil x y).
Proof.
  intros HL Ha Hb.
  assert (HC : versions_compile (VSFromUntil a b) = true).
  { cbn [versions_compile]. rewrite Ha, Hb. destruct a, b; try reflexivity. discriminate. }
  rewrite parse_versions_compile in HC.
  destruct (parse_versions (VSFromUntil a b)) as [r|] eqn:EP; [|discriminate].
  pose proof (eval_versions_declared _ _ EP) as HE.
  cbn [declared_range] in HE. rewrite Ha, Hb in HE.
  cbn [parse_versions] in EP.
  destruct (parse_spec a) as [ra|] eqn:Ea; cbn [bind] in EP; [|discriminate].
  destruct (parse_spec b) as [rb|] eqn:Eb; cbn [bind] in EP; [|discriminate].
  assert (r = Some (RFromUntil ra rb)) as ->.
  { destruct ra, rb; try (now inversion EP). destruct (vltb v0 v); now inversion EP. }
  exists ra, rb. split; [reflexivity|]. cbn [unwrap_or_all] in HE. rewrite HE.
  rewrite vltb_vleb. destruct (vleb x y); reflexivity.
Qed.

Lemma declared_range_wf x r :
  declared_range x = Some r -> wf_range version Semver.cmp r.
Proof.
  destruct x as [| |a|b|a b]; cbn [declared_range].
  - intros [= <-]. exact I.
  - intros [= <-]. exact I.
  - destruct (spec_version a); cbn; [intros [= <-]; exact I|discriminate].
  - destruct (spec_version b); cbn; [intros [= <-]; exact I|discriminate].
  - destruct (spec_version a) as [u|]; [|discriminate].
    destruct (spec_version b) as [w|]; [|discriminate].
    destruct (vleb u w) eqn:L; [|discriminate]. intros [= <-]. cbn.
    unfold vleb in L. unfold le. destruct (Semver.cmp u w); congruence.
Qed.

(* ---------- served and documented as declared ---------- *)

(* the endpoint answers a request for version v iff v is in the declared
   range, and then with the declared operation id, content type and limit *)
Theorem served_as_declared st a e r c :
  expand st a = Ok e -> declared_range (a_versions a) = Some r -> declared_ctype a = Some c ->
  (forall v, route_view e (Some v) = Some (declared_opid a, c, declared_maxbytes a) <->
             vin version Semver.cmp r v) /\
  (forall v, route_view e (Some v) = None <-> ~ vin version Semver.cmp r v) /\
  route_view e None = Some (declared_opid a, c, declared_maxbytes a).
Proof.
  intros H Hr Hc. destruct (fields_as_declared _ _ _ H) as (r' & c' & Hr' & Hc' & ->).
  rewrite Hr in Hr'. injection Hr' as <-. rewrite Hc in Hc'. injection Hc' as <-.
  pose proof (matches_iff_in _ _ _ semver_total_order r) as HM.
  pose proof (declared_range_wf _ _ Hr) as WF.
  unfold route_view, expected. cbn [e_versions e_opid e_ctype e_maxbytes].
  repeat split.
  - destruct (vmatches version Semver.cmp r (Some v)) eqn:E; [|discriminate].
    intros _. now apply HM.
  - intros Hv. apply (HM v WF) in Hv. now rewrite Hv.
  - destruct (vmatches version Semver.cmp r (Some v)) eqn:E; [discriminate|].
    intros _ Hv. apply (HM v WF) in Hv. congruence.
  - intros Hn. destruct (vmatches version Semver.cmp r (Some v)) eqn:E; [|reflexivity].
    exfalso. apply Hn. now apply HM.
Qed.

(* the document for version v shows the operation iff the declaration is
   published and v is in the declared range, with the declared fields *)
Theorem documented_as_declared st a e r c :
  expand st a = Ok e -> declared_range (a_versions a) = Some r -> declared_ctype a = Some c ->
  forall v,
    doc_view e v =
      (if negb (a_unpublished a) && vmatches version Semver.cmp r (Some v)
       then Some (mkDocop (declared_opid a) (summary (extract (a_docs a)))
                    (description (extract (a_docs a))) (a_tags a) (a_deprecated a)
                    (body_param c (declared_body a)) (is_channel a))
       else None) /\
    (vmatches version Semver.cmp r (Some v) = true <-> vin version Semver.cmp r v).
Proof.
  intros H Hr Hc v. destruct (fields_as_declared _ _ _ H) as (r' & c' & Hr' & Hc' & ->).
  rewrite Hr in Hr'. injection Hr' as <-. rewrite Hc in Hc'. injection Hc' as <-.
  split; [reflexivity|].
  apply (matches_iff_in _ _ _ semver_total_order). exact (declared_range_wf _ _ Hr).
Qed.

(* with DocCommentProofs: what the document shows of the comment *)
Theorem documented_text_lossless st a e :
  expand st a = Ok e ->
  nonblank (opt_str (e_summary e)) ++ nonblank (opt_str (e_description e)) = declared_text (a_docs a).
Proof.
  intros H. destruct (fields_as_declared _ _ _ H) as (r & c & _ & _ & ->).
  exact (DocCommentProofs.doc_lossless_declared _).
Qed.

(* ====================================================================== *)
(* The model meets the executable specification used to judge
   implementation runs ([spec_decl], Macro.v): for every accepted declaration,
   what the model registers, routes and documents in the three
   forms satisfies every clause of the property. *)

Definition model_ep (a : attr) (st : style) : res N oep :=
  match expand st a with Ok e => Ok (oep_of e) | Err _ => Err 1 end.
Definition model_route (a : attr) (v : option version) (st : style) : oroute :=
  match expand st a with Ok e => oroute_of (route_view e v) | Err _ => None end.
Definition model_op (a : attr) (v : version) (st : style) : option oop :=
  match expand st a with Ok e => option_map oop_of (doc_view e v) | Err _ => None end.
Definition model_probe (a : attr) (s : str) : str * list oroute * list (option oop) * bool :=
  match Semver.parse s with
  | Some v => (s, map (model_route a (Some v)) styles, map (model_op a v) styles, true)
  | None => (s, [], [], true)
  end.

(* constants named in [versions] hold versions semver can print *)
Definition spec_wf (x : vspec) : bool :=
  match x with SIdent _ v => wf_version v | SLit _ => true end.
Definition versions_wf (x : vsyntax) : bool :=
  match x with
  | VSFrom a => spec_wf a
  | VSUntil b => spec_wf b
  | VSFromUntil a b => spec_wf a && spec_wf b
  | _ => true
  end.

Lemma bool_eqb_refl b : bool_eqb b b = true. Proof. destruct b; reflexivity. Qed.
Lemma ustr_eqb_refl s : ustr_eqb s s = true.
Proof. apply list_eqb_spec; [apply N.eqb_eq|reflexivity]. Qed.
Lemma strs_eqb_refl l : strs_eqb l l = true.
Proof. apply list_eqb_spec; [apply str_eqb_eq|reflexivity]. Qed.
Lemma oustr_eqb_refl o : oustr_eqb o o = true.
Proof. destruct o; [apply ustr_eqb_refl|reflexivity]. Qed.
Lemma ostr_eqb_refl o : ostr_eqb o o = true.
Proof. destruct o; [apply str_eqb_refl|reflexivity]. Qed.
Lemma on_eqb_refl o : option_eqb N.eqb o o = true.
Proof. destruct o; [apply N.eqb_refl|reflexivity]. Qed.
Lemma orange_eqb_refl o : orange_eqb o o = true.
Proof. destruct o; cbn; rewrite ?str_eqb_refl; reflexivity. Qed.
Lemma oep_eqb_refl o : oep_eqb o o = true.
Proof.
  unfold oep_eqb.
  now rewrite !str_eqb_refl, !oustr_eqb_refl, strs_eqb_refl, !bool_eqb_refl, orange_eqb_refl,
    on_eqb_refl, ostr_eqb_refl.
Qed.
Lemma oroute_eqb_refl o : oroute_eqb o o = true.
Proof.
  destruct o as [[[x y] z]|]; cbn; [|reflexivity]. now rewrite !str_eqb_refl, on_eqb_refl.
Qed.
Lemma oop_eqb_refl o : oop_eqb o o = true.
Proof.
  unfold oop_eqb. now rewrite str_eqb_refl, !oustr_eqb_refl, !strs_eqb_refl, !bool_eqb_refl.
Qed.
Lemma ooop_eqb_refl o : option_eqb oop_eqb o o = true.
Proof. destruct o; [apply oop_eqb_refl|reflexivity]. Qed.
Lemma ver_eqb_refl v : ver_eqb v v = true.
Proof. unfold ver_eqb. now rewrite SemverProofs.cmp_refl. Qed.
Lemma vr_eqb_refl r : vr_eqb r r = true.
Proof. destruct r; cbn; rewrite ?ver_eqb_refl; reflexivity. Qed.

Lemma spec_version_wf x v : spec_wf x = true -> spec_version x = Some v -> wf_version v = true.
Proof.
  destruct x as [s|n w]; cbn [spec_wf spec_version].
  - intros _. destruct (Semver.parse s) as [u|] eqn:E; [|discriminate].
    destruct (is_plain u); [|discriminate]. intros [= <-]. exact (parse_wf _ _ E).
  - intros H [= <-]. exact H.
Qed.

Lemma orange_roundtrip x r :
  versions_wf x = true -> declared_range x = Some r -> orange_vr (vr_orange r) = Some r.
Proof.
  destruct x as [| |a|b|a b]; cbn [versions_wf declared_range].
  - intros _ [= <-]. reflexivity.
  - intros _ [= <-]. reflexivity.
  - intros W. destruct (spec_version a) as [v|] eqn:E; [|discriminate]. intros [= <-].
    cbn [vr_orange orange_vr]. now rewrite (parse_print _ (spec_version_wf _ _ W E)).
  - intros W. destruct (spec_version b) as [v|] eqn:E; [|discriminate]. intros [= <-].
    cbn [vr_orange orange_vr]. now rewrite (parse_print _ (spec_version_wf _ _ W E)).
  - intros W. apply andb_true_iff in W. destruct W as [Wa Wb].
    destruct (spec_version a) as [u|] eqn:Ea; [|discriminate].
    destruct (spec_version b) as [w|] eqn:Eb; [|discriminate].
    destruct (vleb u w); [|discriminate]. intros [= <-]. cbn [vr_orange orange_vr].
    now rewrite (parse_print _ (spec_version_wf _ _ Wa Ea)), (parse_print _ (spec_version_wf _ _ Wb Eb)).
Qed.

(* on constructible ranges [matches] is membership *)
Lemma vmatches_in_range r v :
  wf_range version Semver.cmp r -> vmatches version Semver.cmp r v = in_range r v.
Proof.
  intros W. destruct v as [v|]; [|reflexivity]. cbn [in_range].
  pose proof (matches_iff_in _ _ _ semver_total_order r v W) as H1.
  pose proof (vinb_iff _ _ _ semver_total_order r v) as H2.
  destruct (vmatches version Semver.cmp r (Some v)), (vinb version Semver.cmp r v); try reflexivity.
  - exfalso. assert (false = true) by (apply H2, H1; reflexivity). discriminate.
  - exfalso. assert (false = true) by (apply H1, H2; reflexivity). discriminate.
Qed.

Lemma extracted_eta e : mkExtracted (summary e) (description e) = e.
Proof. destruct e; reflexivity. Qed.

Theorem model_meets_spec a vs :
  accepted a = true -> versions_wf (a_versions a) = true ->
  forallb (fun s => is_some (Semver.parse s)) vs = true ->
  spec_decl a (map (model_ep a) styles) (map (model_route a None) styles)
    (map (model_probe a) vs) = (true, true).
Proof.
  intros HA HW HV.
  pose proof (accepted_compiles _ HA) as HC.
  unfold accepted in HA. apply andb_true_iff in HA. destruct HA as [HA HP].
  apply andb_true_iff in HA. destruct HA as [HR HT].
  destruct (declared_range (a_versions a)) as [r|] eqn:ER; [|discriminate].
  destruct (declared_ctype a) as [c|] eqn:EC; [|discriminate].
  assert (HE : forall st, expand st a = Ok (expected st a r c)).
  { intros st. rewrite (expand_compiles _ _ HC), ER, EC. reflexivity. }
  pose proof (declared_range_wf _ _ ER) as WF.
  pose proof (orange_roundtrip _ _ HW ER) as HO.
  pose proof (doc_lossless_b_ok (a_docs a)) as HD. unfold doc_lossless_b in HD.
  unfold spec_decl. rewrite ER, EC. cbv zeta.
  change (spec_doc_t (declared_text (a_docs a))) with (spec_doc a).
  change (spec_op_t (declared_text (a_docs a)) a) with (spec_op a).
  (* the registered endpoint of each form *)
  set (O := mkOep (declared_opid a) (method_str (declared_method a)) (a_path a)
              (summary (extract (a_docs a))) (description (extract (a_docs a))) (a_tags a)
              (a_deprecated a) (negb (a_unpublished a)) (vr_orange r) (mime_type c)
              (declared_maxbytes a) (option_map mime_type (body_param c (declared_body a)))
              (is_channel a)).
  assert (Hep : forall st, model_ep a st = Ok O).
  { intros st. unfold model_ep. rewrite HE. reflexivity. }
  assert (HfO : spec_ep_fields a r c O = true).
  { unfold spec_ep_fields, O. cbn [o_method o_path o_opid o_tags o_deprecated o_visible o_maxbytes
      o_ctype o_versions o_ws]. rewrite HO, vr_eqb_refl.
    now rewrite !str_eqb_refl, strs_eqb_refl, !bool_eqb_refl, on_eqb_refl. }
  assert (HdO : spec_doc a (o_summary O) (o_description O) = true).
  { unfold spec_doc, spec_doc_t, O. cbn [o_summary o_description]. now rewrite extracted_eta. }
  (* routing *)
  set (R := fun v : option version =>
              if in_range r v then Some (declared_opid a, mime_type c, declared_maxbytes a) else None).
  assert (Hrt : forall v st, model_route a v st = R v).
  { intros v st. unfold model_route, R. rewrite HE. unfold route_view, expected.
    cbn [e_versions e_opid e_ctype e_maxbytes]. rewrite (vmatches_in_range _ _ WF).
    destruct (in_range r v); reflexivity. }
  assert (HsR : forall v, spec_route a r c v (R v) = true).
  { intros v. unfold spec_route, R. destruct (in_range r v); cbn [negb andb]; [|reflexivity].
    now rewrite !str_eqb_refl, on_eqb_refl. }
  (* documents *)
  set (D := fun v : version =>
              if negb (a_unpublished a) && in_range r (Some v)
              then Some (mkOop (declared_opid a) (summary (extract (a_docs a)))
                           (description (extract (a_docs a))) (a_tags a) (a_deprecated a)
                           (match body_param c (declared_body a) with
                            | Some c' => [mime_type c'] | None => [] end) (is_channel a))
              else None).
  assert (Hop : forall v st, model_op a v st = D v).
  { intros v st. unfold model_op, D. rewrite HE. unfold doc_view, expected.
    cbn [e_visible e_versions e_opid e_summary e_description e_tags e_deprecated e_body_param
         e_websocket]. rewrite (vmatches_in_range _ _ WF).
    destruct (negb (a_unpublished a) && in_range r (Some v)); reflexivity. }
  assert (HsD : forall v, spec_op a r v (D v) = (true, true)).
  { intros v. unfold spec_op, spec_op_t, D.
    destruct (a_unpublished a); cbn [negb andb orb]; [reflexivity|].
    destruct (in_range r (Some v)); cbn [negb]; [|reflexivity].
    cbn [p_opid p_tags p_deprecated p_req p_ws p_summary p_description].
    unfold spec_doc_t. rewrite extracted_eta, HD.
    unfold declared_req. rewrite EC.
    rewrite str_eqb_refl, strs_eqb_refl, !bool_eqb_refl. cbn [andb].
    destruct (declared_body a); cbn [body_param]; rewrite strs_eqb_refl; reflexivity. }
  cbn [map styles]. rewrite !Hep, !Hrt.
  cbn [forallb all_eq res_oep_eqb]. rewrite HfO, HdO, oep_eqb_refl, oroute_eqb_refl, HsR.
  cbn [andb].
  (* the probes *)
  assert (Hpr : forall s, is_some (Semver.parse s) = true ->
     (match model_probe a s with (_, rs, ops, same) =>
        all_eq oroute_eqb rs && all_eq (option_eqb oop_eqb) ops && same end) = true /\
     (match model_probe a s with (vs0, rs, ops, _) =>
        match Semver.parse vs0 with
        | Some v => (forallb (spec_route a r c (Some v)) rs && forallb fst (map (spec_op a r v) ops),
                     forallb snd (map (spec_op a r v) ops))
        | None => (false, false)
        end end) = (true, true)).
  { intros s Hs. unfold model_probe. destruct (Semver.parse s) as [v|] eqn:Es; [|discriminate].
    cbn [map styles]. rewrite !Hrt, !Hop. rewrite Es.
    cbn [all_eq map forallb]. rewrite oroute_eqb_refl, ooop_eqb_refl, HsR, HsD. split; reflexivity. }
  match goal with
  | |- (forallb ?F1 ?l && true && forallb fst (map ?F2 ?l), forallb snd (map ?F2 ?l)) = _ =>
      assert (HF : forallb F1 l = true /\ forallb fst (map F2 l) = true /\
                   forallb snd (map F2 l) = true)
  end.
  { induction vs as [|s vs IH]; [repeat split|].
    cbn [forallb] in HV. apply andb_true_iff in HV. destruct HV as [Hs HV].
    destruct (IH HV) as (I1 & I2 & I3). destruct (Hpr s Hs) as [P1 P2].
    cbn [map forallb]. cbv beta. rewrite P1, P2, I1, I2, I3. repeat split. }
  destruct HF as (F1 & F2 & F3). rewrite F1, F2, F3. reflexivity.
Qed.

(* ====================================================================== *)
(* Trait-level tag configuration *)

(* the configuration the generated factories start from is the declared one,
   field by field (fields left out: allow_other_tags = false, policy = Any;
   no tag_config at all: the default, which allows everything) *)
Theorem trait_tag_config_declared arg : trait_tag_config arg = declared_tag_config arg.
Proof. destruct arg; reflexivity. Qed.

Theorem trait_tag_config_fields t :
  tc_allow_other_tags (trait_tag_config (Some t))
    = match ta_allow_other_tags t with Some b => b | None => false end /\
  tc_policy (trait_tag_config (Some t))
    = match ta_policy t with Some p => p | None => TPAny end /\
  tc_tags (trait_tag_config (Some t)) = ta_tags t /\
  trait_tag_config None = mkTagConfig true TPAny [].
Proof. repeat split. Qed.

Lemma find_neg_forallb {A} (f : A -> bool) l :
  match find (fun t => negb (f t)) l with Some _ => false | None => true end = forallb f l.
Proof.
  induction l as [|x l IH]; [reflexivity|]. cbn [find forallb].
  destruct (f x); cbn [negb andb]; [exact IH|reflexivity].
Qed.

(* an endpoint is registered iff it complies with the configuration *)
Theorem validate_tags_complies c e :
  is_ok (validate_tags c e) = complies c (e_tags e) (e_visible e).
Proof.
  unfold validate_tags, complies. destruct (e_visible e); cbn [negb orb]; [|reflexivity].
  pose proof (find_neg_forallb (has_tag c) (e_tags e)) as HF.
  destruct (tc_policy c); cbn [policy_ok].
  - destruct (tc_allow_other_tags c); cbn [orb andb]; [reflexivity|].
    destruct (find (fun t => negb (has_tag c t)) (e_tags e)); cbn [is_ok]; exact HF.
  - destruct (e_tags e) as [|t ts] eqn:E; cbn [is_nil negb andb is_ok]; [reflexivity|].
    destruct (tc_allow_other_tags c); cbn [orb]; [reflexivity|].
    destruct (find (fun t0 => negb (has_tag c t0)) (t :: ts)); cbn [is_ok]; exact HF.
  - destruct (length (e_tags e) =? 1)%nat; cbn [andb is_ok]; [|reflexivity].
    destruct (tc_allow_other_tags c); cbn [orb]; [reflexivity|].
    destruct (find (fun t => negb (has_tag c t)) (e_tags e)); cbn [is_ok]; exact HF.
Qed.

(* the description is built iff every endpoint complies *)
Theorem build_ok_iff c eps :
  build_errors c eps = [] <->
  forall e, In e eps -> complies c (e_tags e) (e_visible e) = true.
Proof.
  unfold build_errors. induction eps as [|e eps IH]; cbn [flat_map].
  - split; [intros _ e []|reflexivity].
  - pose proof (validate_tags_complies c e) as HV.
    destruct (validate_tags c e) as [u|x]; cbn [is_ok app] in *.
    + rewrite IH. split.
      * intros H e' [<-|Hin]; auto.
      * intros H e' Hin. apply H. now right.
    + split; [discriminate|]. intros H. specialize (H e (or_introl eq_refl)). congruence.
Qed.

(* the refused operations are exactly the non-complying endpoints, in order *)
Theorem build_errors_ids c eps :
  map fst (build_errors c eps) =
  map e_opid (filter (fun e => negb (complies c (e_tags e) (e_visible e))) eps).
Proof.
  unfold build_errors. induction eps as [|e eps IH]; [reflexivity|].
  cbn [flat_map filter]. rewrite map_app, IH. rewrite <- validate_tags_complies.
  destruct (validate_tags c e); reflexivity.
Qed.

(* a declared policy is in force: under AtLeastOne a published endpoint
   without tags, under ExactlyOne one with none or several, is refused by the
   description the trait's factories build *)
Theorem declared_policy_in_force t e :
  e_visible e = true ->
  (ta_policy t = Some TPAtLeastOne -> e_tags e = [] ->
     validate_tags (trait_tag_config (Some t)) e = Err TENeedOne) /\
  (ta_policy t = Some TPExactlyOne -> length (e_tags e) <> 1%nat ->
     validate_tags (trait_tag_config (Some t)) e = Err TEExactlyOne).
Proof.
  intros V. unfold validate_tags, trait_tag_config. rewrite V. cbn [negb tc_policy]. split.
  - intros -> ->. reflexivity.
  - intros -> H. apply Nat.eqb_neq in H. now rewrite H.
Qed.

(* the three forms are refused alike: the tag check does not look at the handler *)
Lemma validate_tags_erase c e : validate_tags c (erase_handler e) = validate_tags c e.
Proof. reflexivity. Qed.

Theorem tag_check_styles_agree c st st' a e e' :
  expand st a = Ok e -> expand st' a = Ok e' ->
  validate_tags c e = validate_tags c e' /\ e_opid e = e_opid e'.
Proof.
  intros H H'. pose proof (styles_agree st st' a) as HA. unfold view in HA.
  rewrite H, H' in HA.
  apply (f_equal (fun r => match r with Ok x => x | Err _ => erase_handler e end)) in HA.
  cbv beta iota in HA. split.
  - rewrite <- (validate_tags_erase c e), <- (validate_tags_erase c e'). now rewrite HA.
  - change (e_opid (erase_handler e) = e_opid (erase_handler e')). now rewrite HA.
Qed.

Definition expand_all (st : style) (eps : list attr) : option (list endpoint) :=
  map_opt (fun a => match expand st a with Ok e => Some e | Err _ => None end) eps.

Theorem build_styles_agree c st st' eps es es' :
  expand_all st eps = Some es -> expand_all st' eps = Some es' ->
  build_errors c es = build_errors c es'.
Proof.
  unfold expand_all. revert es es'. induction eps as [|a eps IH]; intros es es'; cbn [map_opt].
  - intros [= <-] [= <-]. reflexivity.
  - destruct (expand st a) as [e|] eqn:E; [|discriminate].
    destruct (expand st' a) as [e'|] eqn:E'; [|discriminate].
    destruct (map_opt _ eps) as [l|] eqn:L; [|discriminate].
    destruct (map_opt (fun a0 => match expand st' a0 with Ok e0 => Some e0 | Err _ => None end) eps)
      as [l'|] eqn:L'; [|discriminate].
    intros [= <-] [= <-]. unfold build_errors. cbn [flat_map].
    destruct (tag_check_styles_agree c _ _ _ _ _ E E') as [HV HO].
    rewrite HV, HO. f_equal. exact (IH _ _ eq_refl eq_refl).
Qed.

(* with the declared fields: refused iff the DECLARATION does not comply *)
Theorem build_errors_declared c st eps es :
  expand_all st eps = Some es ->
  map fst (build_errors c es) =
  map declared_opid (filter (fun a => negb (complies c (a_tags a) (negb (a_unpublished a)))) eps).
Proof.
  rewrite build_errors_ids. unfold expand_all. revert es.
  induction eps as [|a eps IH]; intros es; cbn [map_opt].
  - intros [= <-]. reflexivity.
  - destruct (expand st a) as [e|] eqn:E; [|discriminate].
    destruct (map_opt _ eps) as [l|]; [|discriminate]. intros [= <-].
    destruct (fields_as_declared _ _ _ E) as (r & c' & _ & _ & ->).
    cbn [filter]. unfold expected at 1 2. cbn [e_tags e_visible].
    destruct (complies c (a_tags a) (negb (a_unpublished a))); cbn [negb map].
    + exact (IH _ eq_refl).
    + unfold expected at 1. cbn [e_opid]. f_equal. exact (IH _ eq_refl).
Qed.

Lemma policy_eqb_refl p : policy_eqb p p = true. Proof. destruct p; reflexivity. Qed.
Lemma details_eqb_refl d : details_eqb d d = true.
Proof.
  unfold details_eqb. rewrite ostr_eqb_refl. destruct (td_external_docs d) as [[x y]|]; cbn; [|reflexivity].
  now rewrite ostr_eqb_refl, str_eqb_refl.
Qed.
Lemma tag_config_eqb_refl c : tag_config_eqb c c = true.
Proof.
  unfold tag_config_eqb. rewrite bool_eqb_refl, policy_eqb_refl. cbn [andb].
  induction (tc_tags c) as [|x l IH]; [reflexivity|].
  cbn [list_eqb]. now rewrite str_eqb_refl, details_eqb_refl, IH.
Qed.
Lemma refused_eqb_refl (l : list (str * N)) :
  list_eqb (fun x y => str_eqb (fst x) (fst y) && (snd x =? snd y)) l l = true.
Proof.
  induction l as [|x l IH]; [reflexivity|]. cbn [list_eqb].
  now rewrite str_eqb_refl, N.eqb_refl, IH.
Qed.

Definition refused_codes (c : tag_config) (es : list endpoint) : list (str * N) :=
  map (fun p => (fst p, tag_err_code (snd p))) (build_errors c es).

(* the model meets the executable specification of the tag configuration:
   what the generated factories start from and refuse is what the judge's
   [spec_tagcfg] demands, for every configuration and every list of accepted
   endpoint declarations *)
Theorem tagcfg_model_meets_spec arg eps es_f es_i es_s :
  expand_all Function eps = Some es_f -> expand_all TraitImpl eps = Some es_i ->
  expand_all TraitStub eps = Some es_s ->
  let c := trait_tag_config arg in
  spec_tagcfg arg eps [Some c; Some c]
    [refused_codes c es_f; refused_codes c es_i; refused_codes c es_s] true = true.
Proof.
  intros Hf Hi Hs c. unfold spec_tagcfg.
  assert (Hc : c = declared_tag_config arg) by apply trait_tag_config_declared.
  rewrite <- Hc. cbn [forallb]. rewrite tag_config_eqb_refl. cbn [andb].
  assert (Hfst : forall es, map fst (refused_codes c es) = map fst (build_errors c es)).
  { intros es. unfold refused_codes. rewrite map_map. reflexivity. }
  rewrite !Hfst.
  rewrite (build_errors_declared c _ _ _ Hf), (build_errors_declared c _ _ _ Hi),
    (build_errors_declared c _ _ _ Hs), strs_eqb_refl. cbn [andb].
  unfold refused_codes.
  rewrite <- (build_styles_agree c _ _ _ _ _ Hf Hi), <- (build_styles_agree c _ _ _ _ _ Hf Hs).
  cbn [all_eq]. now rewrite refused_eqb_refl.
Qed.
